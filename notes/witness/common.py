"""Synthetic panels used by the witness scripts (notes only; NOT part of any check)."""
import numpy as np, pandas as pd
from matched_markets.methodology import geoeligibility, tbrmmdata, tbrmatchedmarkets, tbrmmdesignparameters
P = tbrmmdesignparameters.TBRMMDesignParameters
MM = tbrmatchedmarkets.TBRMatchedMarkets

def panel(n_geos=6, n_days=30, seed=0, kind='corr'):
    rng = np.random.RandomState(seed)
    dates = pd.date_range('2020-01-01', periods=n_days)
    rows = []
    for g in range(n_geos):
        if kind == 'corr':
            s = 100*(g+1) + 10*(g+1)*np.cumsum(rng.normal(size=n_days)) + rng.normal(0, 3, n_days)
        else:
            s = 1000 + rng.normal(0, 50, n_days)
        rows += [{'geo': str(g), 'date': d, 'response': v} for d, v in zip(dates, s)]
    return pd.DataFrame(rows)

def elig(rows):
    """rows: dict geo -> (c,t,x)."""
    return geoeligibility.GeoEligibility(pd.DataFrame(
        [{'geo': g, 'control': c, 'treatment': t, 'exclude': x} for g, (c, t, x) in rows.items()]))

def mm(df, par, ge=None):
    return MM(tbrmmdata.TBRMMData(df, 'response', ge), par)
