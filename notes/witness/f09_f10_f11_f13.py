import sys; sys.path.insert(0, '/verif/notes/witness')
from common import *
import warnings; warnings.filterwarnings('ignore')
# F9: eligibility lists an excludable geo that is not in the data
ge = elig({str(g): (1, 1, 1) for g in range(7)})
try:
    d = tbrmmdata.TBRMMData(panel(5), 'response', ge); print('F9 ok, eligibility narrowed to', sorted(d.geo_eligibility.data.index))
except Exception as e: print('F9', type(e).__name__, str(e)[:80])
# F10: empty ordered subset
ge = elig({str(g): (1, 1, 1) for g in range(4)})
print('F10 all for []:', ge.get_eligible_assignments([]).all)
try: print('F10 indices:', ge.get_eligible_assignments([], indices=True).all)
except Exception as e: print('F10 indices', type(e).__name__, e)
# F11: TBRDiagnostics.fit on integer labels
from matched_markets.methodology import tbrdiagnostics
from matched_markets.examples import salesandcost, geoxdiag_data
gx = geoxdiag_data.read_data('/repo/matched_markets/csv/')
try:
    t = tbrdiagnostics.TBRDiagnostics(); t.fit(gx, target='response'); print('F11 fit ok', t.get_test_results()['noisy_geos'])
except Exception as e: print('F11', type(e).__name__, str(e)[:100])
# F13: negative rescale
from matched_markets.methodology import tbr
df = salesandcost.example_data_formatted('/repo/matched_markets/csv/')
m = tbr.TBR(); m.fit(df, target='sales', key_response='sales', key_cost='cost', key_group='geo.group', key_period='period', key_geo='geo', key_date='date')
print('F13', m.summary(rescale=-1.0)[['estimate','lower','upper','probability']].to_dict('records'))
