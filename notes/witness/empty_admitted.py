import sys; sys.path.insert(0, '/verif/notes/witness')
from common import *
import warnings; warnings.filterwarnings('ignore')
ge = elig({str(g): (0, 0, 1) for g in range(4)})
for s in ('exhaustive_search', 'greedy_search'):
    try: print(s, getattr(mm(panel(4), P(n_test=7, iroas=1.0), ge), s)())
    except Exception as e: print(s, type(e).__name__, e)
# only-control-eligible geos
ge = elig({str(g): (1, 0, 1) for g in range(4)})
for s in ('exhaustive_search', 'greedy_search'):
    try: print(s, getattr(mm(panel(4), P(n_test=7, iroas=1.0), ge), s)())
    except Exception as e: print(s, type(e).__name__, e)
ge = elig({str(g): (0, 1, 1) for g in range(4)})
for s in ('exhaustive_search', 'greedy_search'):
    try: print(s, getattr(mm(panel(4), P(n_test=7, iroas=1.0), ge), s)())
    except Exception as e: print(s, type(e).__name__, e)
