import sys; sys.path.insert(0, '/verif/notes/witness')
from common import *
import warnings; warnings.filterwarnings('ignore')
df = panel(5, 40, 1)
cases = {'treatment_geos_range=(1.0, 2.0)': dict(treatment_geos_range=(1.0, 2.0)), 'control_geos_range=(1.0, 3.0)': dict(control_geos_range=(1.0, 3.0)),
         'n_geos_max=4.0': dict(n_geos_max=4.0), 'n_test=7.0': dict(n_test=7.0), 'n_designs=2.0': dict(n_designs=2.0)}
for name, kw in cases.items():
    args = dict(n_test=7, iroas=1.0); args.update(kw)
    for s in ('exhaustive_search', 'greedy_search'):
        try:
            r = getattr(mm(df, P(**args)), s)(); print('F16', name, s, 'returned', len(r))
        except Exception as e:
            print('F16', name, s, type(e).__name__, str(e)[:70])
