import sys, dataclasses; sys.path.insert(0, '/verif/notes/witness')
from common import *
par = P(n_test=7, iroas=1.0, n_designs=3)
m = mm(panel(6), par)
before = dataclasses.asdict(par)
r1 = m.greedy_search()
print('F5 parameters unchanged by greedy_search:', dataclasses.asdict(par) == before)
try:
    r2 = m.search_results()
    print('F6 second retrieval ok, same designs:', [(d.treatment_geos, d.control_geos) for d in r1] == [(d.treatment_geos, d.control_geos) for d in r2])
except Exception as e:
    print('F6', type(e).__name__, e)
