import sys; sys.path.insert(0, '/verif/notes/witness')
from common import *
# F3: size range above the number of geos -> IndexError from [].pop()
for search in ('exhaustive_search',):
    try:
        r = getattr(mm(panel(5), P(n_test=7, iroas=1.0, treatment_geos_range=(7, 8))), search)()
        print('F3', search, 'returned', r)
    except Exception as e:
        print('F3', search, type(e).__name__, e)
# F4: greedy with mutually uncorrelated geos, budget and geo ratio
try:
    r = mm(panel(5, 40, 3, 'flat'), P(n_test=7, iroas=1.0, budget_range=(0.0, 60.0), geo_ratio_tolerance=0.5)).greedy_search()
    print('F4 returned', r)
except Exception as e:
    print('F4', type(e).__name__, e)
