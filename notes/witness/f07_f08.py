import sys; sys.path.insert(0, '/verif/notes/witness')
from common import *
# F7: smallest geo fixed to treatment, n_geos_max=3
df = panel(6)
ge = elig({str(g): (1, 1, 1) for g in range(5)} | {'0': (0, 1, 0)})
import numpy as np
m = mm(df, P(n_test=7, iroas=1.0, n_geos_max=3, n_designs=5), ge)
small = m.geo_req_impact.sort_values().index[0]
ge = elig({str(g): (1, 1, 1) for g in range(6)} | {small: (0, 1, 0)})
m = mm(df, P(n_test=7, iroas=1.0, n_geos_max=3, n_designs=5), ge)
print('F7 must-include', m.geos_must_include, 'admitted', sorted(m.geos_within_constraints))
res = m.exhaustive_search()
print('F7 every design holds the fixed geo:', all(small in d.treatment_geos for d in res), len(res))
# F8: noisy fixed treatment geo + budget range, greedy
df = panel(6)
rng = np.random.RandomState(5)
df.loc[df.geo == '5', 'response'] = 600 + rng.normal(0, 30, (df.geo == '5').sum())
ge = elig({str(g): (1, 1, 1) for g in range(5)} | {'5': (0, 1, 0)})
par = P(n_test=7, iroas=1.0, budget_range=(0.0, 50.0), n_designs=5)
res = mm(df, par, ge).greedy_search()
print('F8 greedy budgets', [round(float(d.diag.required_impact / par.iroas), 1) for d in res], 'range', par.budget_range)
