import sys; sys.path.insert(0, '/verif/notes/witness')
from common import *
import warnings; warnings.filterwarnings('ignore')
# window of 130 dates >= n_test + 3 = 101 + ... ; n_test = 98 makes the 100-point placeholder series of greedy_search too short
df = panel(5, 130, 1)
par = P(n_test=98, iroas=1.0, n_pretest_max=130)
for s in ('exhaustive_search', 'greedy_search'):
    try:
        r = getattr(mm(df, par), s)(); print('F15', s, 'returned', len(r), 'designs')
    except Exception as e:
        print('F15', s, type(e).__name__, e)
