#!/usr/bin/env python3
"""Run the repository's pinned suite (guard OFF) and compare with BASELINE.json.

Exit 0 iff every test in BASELINE.stable_pass passes.  Prints newly passing
tests (formerly always_fail) for information.  Usage: baseline.py [repo_dir]
"""
import json, os, subprocess, sys, tempfile
import xml.etree.ElementTree as ET

def main():
    repo = sys.argv[1] if len(sys.argv) > 1 else '/repo'
    base = json.load(open('/root/.vp/BASELINE.json'))
    stable = set(base['stable_pass'])
    fd, xml = tempfile.mkstemp(suffix='.xml'); os.close(fd)
    env = dict(os.environ); env.pop('MATCHED_MARKETS_VERIF', None)
    cmd = ['/venv/bin/python', '-m', 'pytest', '-ra', '-q', '-p', 'no:cacheprovider',
           '--timeout=900', '--continue-on-collection-errors', '--junitxml=' + xml]
    if os.environ.get('BASELINE_JOBS'):
        cmd += ['-n', os.environ['BASELINE_JOBS']]
    p = subprocess.run(cmd, cwd=repo, env=env, stdout=subprocess.PIPE, stderr=subprocess.STDOUT, text=True)
    passed, failed = set(), set()
    try:
        for tc in ET.parse(xml).getroot().iter('testcase'):
            name = '%s::%s' % (tc.get('classname'), tc.get('name'))
            bad = any(ch.tag in ('failure', 'error', 'skipped') for ch in tc)
            (failed if bad else passed).add(name)
    finally:
        os.unlink(xml)
    missing = sorted(stable - passed)
    newly = sorted(passed - stable)
    print('baseline: %d stable tests, %d passed now, %d failed now' % (len(stable), len(passed), len(failed)))
    if newly:
        print('newly passing (were not in stable_pass): %d' % len(newly))
        for n in newly: print('  +', n)
    if missing:
        print('REGRESSION: %d stable tests no longer pass' % len(missing))
        for n in missing: print('  -', n)
        print(p.stdout[-3000:])
        return 1
    print('OK: all stable tests pass')
    return 0

if __name__ == '__main__':
    sys.exit(main())
