#!/usr/bin/env python3
"""Run every quick check against behaviour-preserving refactorings (patched scratch copies): any exit 1 is a false alarm.
usage: python3-vt tools/refactor_matrix.py <dir-with-*/REFACTORS/*/patch.diff | benign dir>"""
import glob, os, shutil, sys
from concurrent.futures import ProcessPoolExecutor
HERE = os.path.dirname(os.path.dirname(os.path.abspath(__file__)))
sys.path.insert(0, HERE)
from tools.mutcheck import scratch_with_patch
PROPS = ['C%02d' % i for i in range(1, 21)]

def one(patch):
    from mmsa import check
    try:
        scratch = scratch_with_patch(patch)
    except SystemExit as e:
        return patch, {'apply': str(e)[:100]}
    res = {}
    try:
        for p in PROPS:
            try:
                code, lines, rep = check.run_property(p, 'quick', scratch, write=False, selftest=False)
            except Exception as e:
                code, lines = 2, ['ANALYSIS-ERROR %r' % e]
            if code != 0:
                res[p] = (code, [l.strip()[:260] for l in lines if l.startswith(('  rule', 'UNDECIDED', 'ANALYSIS'))][:3])
    finally:
        shutil.rmtree(scratch)
    return patch, res

def main():
    root = sys.argv[1]
    patches = sorted(glob.glob(os.path.join(root, '*', os.environ.get('REFDIR', 'REFACTORS'), '*', 'patch.diff')) + glob.glob(os.path.join(root, '*', 'patch.diff')))
    patches = [p for p in patches if os.path.getsize(p) > 0]
    with ProcessPoolExecutor(16) as ex:
        results = list(ex.map(one, patches))
    fa = und = 0
    for patch, res in results:
        tag = patch.replace(root, '').strip('/').replace('/' + os.environ.get('REFDIR', 'REFACTORS'), '').replace('/patch.diff', '')
        if not res:
            print('%-22s silent' % tag)
            continue
        for p, v in res.items():
            if p == 'apply':
                print('%-22s PATCH DOES NOT APPLY %s' % (tag, v)); continue
            code, lines = v
            fa += code == 1
            und += code == 2
            print('%-22s %s exit=%d' % (tag, p, code))
            for l in lines:
                print('      ', l)
    print('patches', len(patches), 'false alarms (exit 1):', fa, 'undecided (exit 2):', und)

if __name__ == '__main__':
    main()
