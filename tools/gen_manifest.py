#!/usr/bin/env python3
"""Generate /verif/MANIFEST.json from the table in mmsa/manifest_table.py and validate it."""
import json, os, subprocess, sys
HERE = os.path.dirname(os.path.dirname(os.path.abspath(__file__)))
sys.path.insert(0, HERE)
from mmsa import manifest_table as T

def main():
    props = [json.loads(l) for l in open(os.path.join(HERE, 'properties.jsonl'))]
    ids = [p['id'] for p in props]
    fix_commits = subprocess.run(['git', '-C', '/repo', 'log', '--format=%h %s'], capture_output=True, text=True).stdout.splitlines()
    fix_commits = [l.split()[0] for l in fix_commits if l.split(' ', 1)[1].startswith('fix:')]
    checks, na = [], []
    for pid in ids:
        if pid in T.CLAIMED:
            c = T.CLAIMED[pid]
            checks.append({
                'property_id': pid,
                'quick_cmd': 'python3-vt -m mmsa.check %s --tier quick' % pid,
                'thorough_cmd': 'python3-vt -m mmsa.check %s --tier thorough' % pid,
                'evidence_file': '/verif/evidence/%s.json' % pid,
                'replay_cmd_template': 'python3-vt -m mmsa.check %s --replay {path}' % pid,
                'engine': 'mmsa',
                'level_claimed': {'category': 'other', 'text': c['text'], 'design_ref': c['design_ref']},
                'level_note': c['note'],
                'technique': c['technique'],
            })
        else:
            na.append({'property_id': pid, 'reason': T.NOT_APPLICABLE.get(pid, 'static check not built yet (see DESIGN.md section 7 build order)')})
    m = {
        'version': 1,
        'setup_cmd': 'python3-vt -c "import ast, networkx, sympy, jsonschema; import mmsa.check"',
        'hooks': {
            'guard': 'MATCHED_MARKETS_VERIF',
            'enable': 'none: no instrumentation is added to /repo; the checks parse the working tree and never import it',
            'baseline_off_cmd': 'python3 /verif/tools/baseline.py /repo',
            'source_commits': list(reversed(fix_commits)),
            'add_only': True,
        },
        'engines': [{'name': 'mmsa', 'path': '/verif/mmsa', 'serves_properties': sorted(T.CLAIMED),
                     'kind_free_text': 'purpose-built static analyser over Python ast: CFG, dominators/must-pass-through under is-None assumptions, reaching definitions, class field typestate, effects/ownership, exception-effect analysis, pointwise Boolean abstraction of set algebra, symbolic normal forms'}],
        'checks': checks,
        'not_applicable': na,
        'notes': T.NOTES,
    }
    out = os.path.join(HERE, 'MANIFEST.json')
    json.dump(m, open(out, 'w'), indent=1)
    try:
        import jsonschema
        jsonschema.validate(m, json.load(open('/root/.vp/MANIFEST.schema.json')))
        print('MANIFEST.json valid: %d checks, %d not_applicable' % (len(checks), len(na)))
    except ImportError:
        print('jsonschema not available; written without validation')

if __name__ == '__main__':
    main()
