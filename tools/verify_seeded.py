#!/usr/bin/env python3
"""Confirm a sub-agent's seeded change in its scratch worktree and copy it to /verif/seeded/.

For <wt>/MUTANTS/<n>: the patch applies to the current /repo HEAD, the package imports, the pinned suite still passes
(tools/baseline.py on the worktree), demo.py exits 1 with the change and 0 without it.
usage: verify_seeded.py <PROP> <n> [<worktree>]
"""
import json, os, shutil, subprocess, sys

def sh(cmd, cwd, env=None, timeout=1200):
    p = subprocess.run(cmd, cwd=cwd, shell=True, capture_output=True, text=True, env=env, timeout=timeout)
    return p.returncode, (p.stdout + p.stderr)

def main():
    prop, n = sys.argv[1], sys.argv[2]
    wt = sys.argv[3] if len(sys.argv) > 3 else '/tmp/mmwt/%s' % prop
    label = sys.argv[4] if len(sys.argv) > 4 else ''
    MD = os.environ.get('MUTANTS_DIR', 'MUTANTS')
    src = os.path.join(wt, MD, n)
    out = {'property': prop, 'mutant': n, 'worktree': wt}
    env = dict(os.environ, PYTHONPATH=wt, BASELINE_JOBS=os.environ.get('BASELINE_JOBS', '4'))
    sh('git checkout -q -- matched_markets', wt)
    rc, o = sh('/venv/bin/python %s/%s/demo.py' % (MD, n), wt, env)
    out['demo_pristine_exit'] = rc
    out['demo_pristine_tail'] = o.strip().splitlines()[-1:] if o.strip() else []
    rc, o = sh('git apply %s/%s/patch.diff' % (MD, n), wt)
    out['patch_applies'] = rc == 0
    if rc != 0:
        out['error'] = o[-400:]
    else:
        rc, o = sh('/venv/bin/python -c "import matched_markets.methodology.tbrmatchedmarkets, matched_markets.methodology.tbr_iroas, matched_markets.methodology.tbrdiagnostics, matched_markets.methodology.utils"', wt, env)
        out['imports'] = rc == 0
        rc, o = sh('python3 /verif/tools/baseline.py %s' % wt, wt, env)
        out['suite_ok'] = rc == 0
        out['suite_tail'] = o.strip().splitlines()[-1:]
        rc, o = sh('/venv/bin/python %s/%s/demo.py' % (MD, n), wt, env)
        out['demo_mutated_exit'] = rc
        out['demo_mutated_tail'] = [l[:300] for l in o.strip().splitlines()[-3:]]
        sh('git checkout -q -- matched_markets', wt)
    ok = out.get('patch_applies') and out.get('imports') and out.get('suite_ok') and out.get('demo_pristine_exit') == 0 and out.get('demo_mutated_exit') == 1
    out['confirmed'] = bool(ok)
    print(json.dumps(out))
    if ok:
        dst = '/verif/seeded/%s-%s%s' % (prop, label, n)
        os.makedirs(dst, exist_ok=True)
        for fn in ('patch.diff', 'demo.py', 'README.md'):
            if os.path.exists(os.path.join(src, fn)):
                shutil.copy(os.path.join(src, fn), os.path.join(dst, fn))
        json.dump(out, open(os.path.join(dst, 'verify.json'), 'w'), indent=1)

if __name__ == '__main__':
    main()
