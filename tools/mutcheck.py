#!/usr/bin/env python3
"""Run checks against a patched scratch copy of /repo (never touches /repo).

usage: python3-vt tools/mutcheck.py <patch.diff> <PROP>[,<PROP>...] [--tier quick|thorough]
Prints one line per property: exit code and the VIOLATION / UNDECIDED lines.
"""
import os, shutil, subprocess, sys, tempfile
sys.path.insert(0, os.path.dirname(os.path.dirname(os.path.abspath(__file__))))

def scratch_with_patch(patch, repo='/repo'):
    d = tempfile.mkdtemp(prefix='mmsa_mut_')
    shutil.copytree(os.path.join(repo, 'matched_markets'), os.path.join(d, 'matched_markets'),
                    ignore=shutil.ignore_patterns('__pycache__', '*.pyc', 'csv', 'notebook'))
    if patch:
        p = subprocess.run(['git', 'apply', '-p1', os.path.abspath(patch)], cwd=d, capture_output=True, text=True)
        if p.returncode != 0:
            shutil.rmtree(d)
            raise SystemExit('patch does not apply: ' + p.stderr)
    return d

def main():
    args = [a for a in sys.argv[1:] if not a.startswith('--')]
    tier = 'quick'
    if '--tier' in sys.argv:
        tier = sys.argv[sys.argv.index('--tier') + 1]
        args = [a for a in args if a != tier]
    patch, props = args[0], args[1].split(',')
    from mmsa import check
    d = scratch_with_patch(None if patch == '-' else patch)
    try:
        for p in props:
            code, lines, rep = check.run_property(p, tier, d, write=False, selftest=False)
            print('== %s exit=%d' % (p, code))
            for l in lines:
                if l.startswith(('VIOLATION', 'UNDECIDED', 'ANALYSIS', 'KNOWN', '  rule', '  construct')) or l.startswith(p):
                    print("  " + l.replace(d, "<scratch>")[:230])
    finally:
        shutil.rmtree(d)

if __name__ == '__main__':
    main()
