#!/usr/bin/env python3
"""First-contact matrix for a wave of seeded changes: for each /verif/seeded/<PROP>-<label><k>/patch.diff run the own
property's quick check and all others on a patched scratch copy; prints own exit, rules, other properties flagging.
usage: python3-vt tools/first_contact.py <label-prefix e.g. w3->"""
import glob, os, shutil, sys
from concurrent.futures import ProcessPoolExecutor
HERE = os.path.dirname(os.path.dirname(os.path.abspath(__file__)))
sys.path.insert(0, HERE)
from tools.mutcheck import scratch_with_patch
PROPS = ['C%02d' % i for i in range(1, 21)]

def one(sdir):
    from mmsa import check
    sid = os.path.basename(sdir)
    own = sid.split('-')[0]
    scratch = scratch_with_patch(os.path.join(sdir, 'patch.diff'))
    res = {}
    try:
        for p in PROPS:
            try:
                code, lines, rep = check.run_property(p, 'quick', scratch, write=False, selftest=False)
                rules = sorted({l.split()[1] for l in lines if l.strip().startswith('rule ')})
            except Exception as e:
                code, rules = 2, ['ERR %r' % e]
            res[p] = (code, rules)
    finally:
        shutil.rmtree(scratch)
    return sid, own, res

def main():
    label = sys.argv[1]
    dirs = sorted(d for d in glob.glob(os.path.join(HERE, 'seeded', 'C??-%s*' % label)) if os.path.exists(os.path.join(d, 'patch.diff')))
    with ProcessPoolExecutor(12) as ex:
        rows = list(ex.map(one, dirs))
    own1 = any1 = 0
    for sid, own, res in rows:
        oc, orules = res[own]
        others = [p for p in PROPS if p != own and res[p][0] == 1]
        und = [p for p in PROPS if res[p][0] == 2]
        own1 += oc == 1
        any1 += (oc == 1 or bool(others))
        print('%-10s own=%d %-50s also:%s und:%s' % (sid, oc, ','.join(orules)[:50], ' '.join(others), ' '.join(und)))
    print('changes %d  flagged by own check %d  by some check %d' % (len(rows), own1, any1))

if __name__ == '__main__':
    main()
