"""Row selections of a labelled frame as Boolean formulas over (column == value) atoms, evaluated on a finite universe
of row kinds.

A sum over selected rows,  sum(A.loc[M1, c]) + sum(A.loc[M2].loc[L][c]),  is summarised by how many times each *kind* of
row (here: period x group) is counted.  Two spellings of a selection are the same selection iff their count functions
agree on every row kind -- whatever the mask is called, however it is nested, and whether it is written with `&`/`|`,
`isin`, chained `.loc` or a label of the row index.  Nothing is executed: the masks are read from the syntax tree.
"""
import ast

from mmsa import au
from mmsa.core import Undecided, norm


class Unknown(Exception):
  pass


def _strip(e):
  """Drop container wrappers (to_numpy, values, copy, reset_index(drop=True), ...)."""
  return au.data_core(e)


class Frame:
  """The frame whose rows are selected: its text, the columns a row kind has, and the level-0 index column (if any)."""

  def __init__(self, text, columns, index0=None):
    self.text, self.columns, self.index0 = text, columns, index0


def _col_of(frame, e):
  """Name of the row-kind coordinate that the column expression `e` denotes, or None."""
  t = norm(e)
  for key, texts in frame.columns.items():
    if t in texts:
      return key
  return None


def _is_frame(frame, e):
  t = norm(_strip(e))
  return t == frame.text or t in getattr(frame, 'aliases', ())


def mask_fn(frame, m):
  """m: a Boolean row mask over `frame` -> function(rowkind dict) -> bool.  Raises Unknown."""
  m = _strip(m)
  if isinstance(m, ast.BinOp) and isinstance(m.op, (ast.BitAnd, ast.BitOr)):
    a, b = mask_fn(frame, m.left), mask_fn(frame, m.right)
    return (lambda r: a(r) and b(r)) if isinstance(m.op, ast.BitAnd) else (lambda r: a(r) or b(r))
  if isinstance(m, ast.UnaryOp) and isinstance(m.op, ast.Invert):
    a = mask_fn(frame, m.operand)
    return lambda r: not a(r)
  if isinstance(m, ast.Compare) and len(m.ops) == 1 and isinstance(m.ops[0], (ast.Eq, ast.NotEq)):
    l, r_ = m.left, m.comparators[0]
    for x, v in ((l, r_), (r_, l)):
      x = _strip(x)
      if isinstance(x, ast.Subscript) and _is_frame(frame, x.value):
        col = _col_of(frame, x.slice)
        if col is not None:
          vt = norm(v)
          eq = isinstance(m.ops[0], ast.Eq)
          return lambda r, col=col, vt=vt, eq=eq: (r[col] == vt) == eq
      # A.index.get_level_values(<group column> | 0) == v : the level-0 label of the row index
      if frame.index0 is not None and isinstance(x, ast.Call) and isinstance(x.func, ast.Attribute) and x.func.attr == 'get_level_values' and len(x.args) == 1 \
          and isinstance(x.func.value, ast.Attribute) and x.func.value.attr == 'index' and _is_frame(frame, x.func.value.value) \
          and (_col_of(frame, x.args[0]) == frame.index0 or au.is_const(x.args[0], 0)):
        vt, eq = norm(v), isinstance(m.ops[0], ast.Eq)
        return lambda r, vt=vt, eq=eq: (r[frame.index0] == vt) == eq
      if isinstance(x, ast.Attribute) and _is_frame(frame, x.value) and x.attr in frame.columns:
        vt, col, eq = norm(v), x.attr, isinstance(m.ops[0], ast.Eq)
        return lambda r, col=col, vt=vt, eq=eq: (r[col] == vt) == eq
    raise Unknown(norm(m))
  if isinstance(m, ast.Call) and isinstance(m.func, ast.Attribute) and m.func.attr == 'isin' and len(m.args) == 1:
    x = _strip(m.func.value)
    if isinstance(x, ast.Subscript) and _is_frame(frame, x.value) and isinstance(m.args[0], (ast.Tuple, ast.List, ast.Set)):
      col = _col_of(frame, x.slice)
      if col is not None:
        vals = {norm(v) for v in m.args[0].elts}
        return lambda r, col=col, vals=vals: r[col] in vals
    raise Unknown(norm(m))
  if isinstance(m, ast.Call) and isinstance(m.func, ast.Attribute) and m.func.attr in ('eq', 'ne') and len(m.args) == 1:
    cmp_ = ast.Compare(left=m.func.value, ops=[ast.Eq() if m.func.attr == 'eq' else ast.NotEq()], comparators=[m.args[0]])
    return mask_fn(frame, cmp_)
  raise Unknown(norm(m))


def _looks_mask(frame, e):
  try:
    mask_fn(frame, e)
    return True
  except Unknown:
    return False


def selection(frame, e):
  """e: an expression selecting a column of some rows of `frame` -> (rows function, column text or None)."""
  e = _strip(e)
  if _is_frame(frame, e):
    return (lambda r: True), None
  if isinstance(e, ast.Subscript):
    base, sl = e.value, e.slice
    # A.loc[...]
    if isinstance(base, ast.Attribute) and base.attr == 'loc':
      rows, col = selection(frame, base.value)
      if isinstance(sl, ast.Tuple) and len(sl.elts) == 2:
        rsel, csel = sl.elts
        if col is not None:
          raise Unknown('column selected twice: ' + norm(e))
        if isinstance(rsel, ast.Slice) and rsel.lower is None and rsel.upper is None:
          return rows, norm(csel)
        if _looks_mask(frame, rsel):
          m = mask_fn(frame, rsel)
          return (lambda r, rows=rows, m=m: rows(r) and m(r)), norm(csel)
        if frame.index0 is not None:
          # with a MultiIndex on the rows a 2-tuple is ambiguous (row key vs (row, column)): not decided
          raise Unknown('label pair on .loc: ' + norm(e))
      if _looks_mask(frame, sl):
        m = mask_fn(frame, sl)
        return (lambda r, rows=rows, m=m: rows(r) and m(r)), col
      if frame.index0 is not None and not isinstance(sl, (ast.Slice, ast.Tuple, ast.List)):
        vt = norm(sl)
        return (lambda r, rows=rows, vt=vt: rows(r) and r[frame.index0] == vt), col
      raise Unknown(norm(e))
    # S[mask] / S[col]
    rows, col = selection(frame, base)
    if _looks_mask(frame, sl):
      m = mask_fn(frame, sl)
      return (lambda r, rows=rows, m=m: rows(r) and m(r)), col
    if col is None and not isinstance(sl, (ast.Slice, ast.Tuple, ast.List)):
      return rows, norm(sl)
    raise Unknown(norm(e))
  if isinstance(e, ast.Attribute) and e.attr in frame.columns.get('#value_attrs', ()):
    rows, col = selection(frame, e.value)
    return rows, e.attr
  raise Unknown(norm(e))


def counts(frame, e, universe, column_texts):
  """How often each row kind of `universe` is counted by the sum expression `e` (sums of selections added up).
  column_texts: admissible texts of the summed column.  Raises Unknown."""
  e = _strip(e)
  if isinstance(e, ast.BinOp) and isinstance(e.op, ast.Add):
    a, b = counts(frame, e.left, universe, column_texts), counts(frame, e.right, universe, column_texts)
    return [x + y for x, y in zip(a, b)]
  inner = None
  if isinstance(e, ast.Call) and isinstance(e.func, ast.Name) and e.func.id == 'sum' and len(e.args) == 1:
    inner = e.args[0]
  elif isinstance(e, ast.Call) and norm(e.func) in ('np.sum', 'numpy.sum', 'np.nansum', 'math.fsum') and len(e.args) == 1 and not e.keywords:
    inner = e.args[0]
  elif isinstance(e, ast.Call) and isinstance(e.func, ast.Attribute) and e.func.attr == 'sum' and not e.args and not e.keywords:
    inner = e.func.value
  if inner is None:
    raise Unknown(norm(e))
  inner = _strip(inner)
  if isinstance(inner, ast.BinOp) and isinstance(inner.op, ast.Add):
    raise Unknown('sum of an element-wise sum: ' + norm(inner))
  rows, col = selection(frame, inner)
  if col is None or col not in column_texts:
    raise Unknown('summed column %s' % col)
  return [1 if rows(r) else 0 for r in universe]
