"""Source of MANIFEST.json (tools/gen_manifest.py). One entry per claimed property."""

NOTES = ('Static analysis only: every check parses /repo\'s working tree with the ast module and decides structural '
         'clauses that are necessary conditions of the property; the undecided (numeric / two-run) part of each property '
         'is named in level_note. Exit 2 (ANALYSIS-ERROR/UNDECIDED) means the shape of the code is not understood; it is '
         'never accompanied by a VIOLATION line. Known findings: /verif/known_findings.json.')

TB = ' Trusted: CPython/ast semantics and the library facts listed in evidence.coverage.trusted_base.'

CLAIMED = {
    'C08': {
        'text': 'Complete decision of the cache-invalidation discipline of TBRMMDiagnostics for all call histories: memo fields, '
                'their transitive read sets and every writer are discovered from the code; every normal path of every writer that '
                'changes an input resets every dependent memo field (interprocedural must-reset on the CFG); writers store uniformly; '
                'lru_cache methods read no instance state.',
        'design_ref': 'DESIGN.md section 4, C08',
        'note': 'Not decided: that a correctly invalidated value is numerically equal to a fresh object\'s; in-place mutation of a '
                'series array or of the shared parameter object by the caller.' + TB,
        'technique': 'typestate / must-reset dataflow on per-method CFGs with setter summaries',
    },
}

CLAIMED.update({
    'C14': {
        'text': 'For every push sequence and every capacity k >= 0 (induction over pushes): each CFG path of HeapDict.push, interpreted '
                'over abstract multiset transformers with a case split on |queue|-k, keeps "queue = the min(k,n) largest items pushed"; '
                'get_result is a fresh, descending, non-mutating snapshot; both searches build the heap with size=n_designs, push and read '
                'one key, search_results preserves the snapshot order, and both __lt__ are exactly score < score on every path.',
        'design_ref': 'DESIGN.md section 4, C14',
        'note': 'Not decided: behaviour for items whose < is not a strict weak order (e.g. NaN in the score tuple); the run-time order of '
                'the returned scores is implied by, not observed in, the analysis.' + TB,
        'technique': 'abstract interpretation (multiset transformers) on enumerated CFG paths + effect/provenance rules',
    },
    'C16': {
        'text': 'Complete for the class algebra: the set expressions of GeoAssignments.__init__ are evaluated as Boolean functions on all 8 '
                'eligibility rows and compared with the documented row table (partition of the 7 legal rows). Structural for validation and '
                'selection: six rejecting ValueError guards dominate acceptance, IDs are canonicalised to str before uniqueness, subset '
                'narrowing precedes positional relabelling, index mode without subset raises, subset tested with `is None`.',
        'design_ref': 'DESIGN.md section 4, C16',
        'note': 'Not decided: what pandas coerces as a 0/1 column (bool/float dtypes); behaviour of .loc for IDs missing from the table.' + TB,
        'technique': 'exact truth-table evaluation of set algebra + dominator analysis of guards',
    },
    'C17': {
        'text': 'Table agreement between every dataclass field, its validator call (operator, bound value and int/float-ness, pair order), '
                'optionality, default and the documented domain; path-condition analysis proving every accepting path of the three helpers '
                'positively asserted type test, comparisons in the right operand order and integrality; exception-effect analysis showing only '
                'ValueError can escape (table keys, int() conversions only on finitely bounded values).',
        'design_ref': 'DESIGN.md section 4, C17',
        'note': 'Not decided: floating-point neighbours of bounds (the comparison itself is CPython\'s); bool counts as int.' + TB,
        'technique': 'spec-table extraction + path-condition (literal) analysis + exception-effect analysis',
    },
})

CLAIMED.update({
    'C19': {
        'text': 'Structural necessary conditions of exact screening: the caller\'s frame is only read through a copy and every in-place '
                'mutation acts on a class-allocated object; the lists reported as noisy geos / outlier dates are the very values used in the '
                'negated isin filters on the geo / date column; every rebinding of the screened data in fit() is followed by re-aggregation on '
                'every path; the aggregation sums the target by (date, period) x group after relabelling exactly control and treatment; the '
                'i-th label is paired with the i-th row of the same pivoted table.',
        'design_ref': 'DESIGN.md section 4, C19',
        'note': 'Not decided: which geos/dates the statistical detectors flag, and row-order independence inside pandas/statsmodels.' + TB,
        'technique': 'ownership/effect analysis + def-use agreement + must-follow on the CFG',
    },
    'C20': {
        'text': 'Structural necessary conditions of exact expansion: de-duplicating return; pd.date_range(first_day, last_day) at daily '
                'frequency with both ends; whole-input iteration with an accumulate on every iteration; arity dispatch of the parser proved by '
                'path conditions (1 part -> (d,d), 2 parts -> (a,b), otherwise ValueError); ValueError-only error discipline; TimeWindow\'s '
                'ordering guard dominates construction. A different expansion algorithm (no set-based de-duplication) is reported UNDECIDED.',
        'design_ref': 'DESIGN.md section 4, C20',
        'note': 'Not decided: what pd.Timestamp parses (empty string -> NaT, times of day); correctness of a hand-written sweep/merge algorithm.' + TB,
        'technique': 'structural dataflow rules + path-condition analysis of the parser',
    },
})

CLAIMED.update({
    'C09': {
        'text': 'Exception-effect analysis over the resolved call graph (46+ functions) of both searches and the constructor: every explicit '
                'raise is ValueError; list pop/first/last element only under an emptiness guard; every division whose operands are both Python '
                'numbers (interprocedural numeric-kind analysis) has a denominator with a proved positive lower bound (validated parameter '
                'domains, construction facts, dominating guards, all call sites); the geo index is re-installed on every access; structural '
                'termination argument for the greedy loop (guard = disjunction of branch conditions, counter incremented on every path, '
                'matching repeats only on strict improvement) and only finite for-loops elsewhere.',
        'design_ref': 'DESIGN.md section 4, C09',
        'note': 'Not decided: exceptions raised inside NumPy/pandas/SciPy for exotic data (NaN panels, object dtype), None-dereference of '
                'diagnostics outside the stated precondition (window >= n_test+3 non-constant points), recursion/memory limits.' + TB,
        'technique': 'exception-effect analysis on the call graph with abstract kinds, lower-bound facts and dominating guards; loop-variant check',
    },
    'C10': {
        'text': 'Who-may-write analysis for every call history: all attribute/item stores, deletes and mutator calls of TBRMatchedMarkets, '
                'TBRMMData, TBRMMDiagnostics, TBRMMScore, TBRMMDesign and HeapDict are collected with receivers expanded through aliases; no '
                'site writes the parameter object; query methods write nothing self-reachable except the geo-index install, which happens on '
                'every path and depends only on construction-time state; retrieval does not modify retained designs; each search allocates, '
                'fills and installs its own heap; the input frame is copied before it is edited.',
        'design_ref': 'DESIGN.md section 4, C10',
        'note': 'Not decided: equality of answers between an aged and a fresh object beyond what write-freedom implies; global NumPy RNG '
                'consumption by greedy_search (does not reach an output); two TBRMatchedMarkets objects sharing one TBRMMData.' + TB,
        'technique': 'effect/ownership analysis with alias expansion (who-may-write rules)',
    },
})

NOT_APPLICABLE = {}
