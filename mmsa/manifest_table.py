"""Source of MANIFEST.json (tools/gen_manifest.py). One entry per claimed property."""

NOTES = ('Static analysis only: every check parses /repo\'s working tree with the ast module and decides structural '
         'clauses that are necessary conditions of the property; the undecided (numeric / two-run) part of each property '
         'is named in level_note. Exit 2 (ANALYSIS-ERROR/UNDECIDED) means the shape of the code is not understood; it is '
         'never accompanied by a VIOLATION line. Known findings: /verif/known_findings.json.')

TB = ' Trusted: CPython/ast semantics and the library facts listed in evidence.coverage.trusted_base.'

CLAIMED = {
    'C08': {
        'text': 'Complete decision of the cache-invalidation discipline of TBRMMDiagnostics for all call histories: memo fields, '
                'their transitive read sets and every writer are discovered from the code; every normal path of every writer that '
                'changes an input resets every dependent memo field (interprocedural must-reset on the CFG); writers store uniformly; '
                'lru_cache methods read no instance state.',
        'design_ref': 'DESIGN.md section 4, C08',
        'note': 'Not decided: that a correctly invalidated value is numerically equal to a fresh object\'s; in-place mutation of a '
                'series array or of the shared parameter object by the caller.' + TB,
        'technique': 'typestate / must-reset dataflow on per-method CFGs with setter summaries',
    },
}

NOT_APPLICABLE = {}
