"""Source of MANIFEST.json (tools/gen_manifest.py). One entry per claimed property."""

NOTES = ('Static analysis only: every check parses /repo\'s working tree with the ast module and decides structural '
         'clauses that are necessary conditions of the property; the undecided (numeric / two-run) part of each property '
         'is named in level_note. Exit 2 (ANALYSIS-ERROR/UNDECIDED) means the shape of the code is not understood; it is '
         'never accompanied by a VIOLATION line. Known findings: /verif/known_findings.json.')

TB = ' Trusted: CPython/ast semantics and the library facts listed in evidence.coverage.trusted_base.'

CLAIMED = {
    'C08': {
        'text': 'Complete decision of the cache-invalidation discipline of TBRMMDiagnostics for all call histories: memo fields, '
                'their transitive read sets and every writer are discovered from the code; every normal path of every writer that '
                'changes an input resets every dependent memo field (interprocedural must-reset on the CFG); writers store uniformly; '
                'lru_cache methods read no instance state.',
        'design_ref': 'DESIGN.md section 4, C08',
        'note': 'Not decided: that a correctly invalidated value is numerically equal to a fresh object\'s; in-place mutation of a '
                'series array or of the shared parameter object by the caller.' + TB,
        'technique': 'typestate / must-reset dataflow on per-method CFGs with setter summaries',
    },
}

CLAIMED.update({
    'C14': {
        'text': 'For every push sequence and every capacity k >= 0 (induction over pushes): each CFG path of HeapDict.push, interpreted '
                'over abstract multiset transformers with a case split on |queue|-k, keeps "queue = the min(k,n) largest items pushed"; '
                'get_result is a fresh, descending, non-mutating snapshot; both searches build the heap with size=n_designs, push and read '
                'one key, search_results preserves the snapshot order, and both __lt__ are exactly score < score on every path.',
        'design_ref': 'DESIGN.md section 4, C14',
        'note': 'Not decided: behaviour for items whose < is not a strict weak order (e.g. NaN in the score tuple); the run-time order of '
                'the returned scores is implied by, not observed in, the analysis.' + TB,
        'technique': 'abstract interpretation (multiset transformers) on enumerated CFG paths + effect/provenance rules',
    },
    'C16': {
        'text': 'Complete for the class algebra: the set expressions of GeoAssignments.__init__ are evaluated as Boolean functions on all 8 '
                'eligibility rows and compared with the documented row table (partition of the 7 legal rows). Structural for validation and '
                'selection: six rejecting ValueError guards dominate acceptance, IDs are canonicalised to str before uniqueness, subset '
                'narrowing precedes positional relabelling, index mode without subset raises, subset tested with `is None`.',
        'design_ref': 'DESIGN.md section 4, C16',
        'note': 'Not decided: what pandas coerces as a 0/1 column (bool/float dtypes); behaviour of .loc for IDs missing from the table.' + TB,
        'technique': 'exact truth-table evaluation of set algebra + dominator analysis of guards',
    },
    'C17': {
        'text': 'Table agreement between every dataclass field, its validator call (operator, bound value and int/float-ness, pair order), '
                'optionality, default and the documented domain; path-condition analysis proving every accepting path of the three helpers '
                'positively asserted type test, comparisons in the right operand order and integrality; exception-effect analysis showing only '
                'ValueError can escape (table keys, int() conversions only on finitely bounded values).',
        'design_ref': 'DESIGN.md section 4, C17',
        'note': 'Not decided: floating-point neighbours of bounds (the comparison itself is CPython\'s); bool counts as int.' + TB,
        'technique': 'spec-table extraction + path-condition (literal) analysis + exception-effect analysis',
    },
})

CLAIMED.update({
    'C19': {
        'text': 'Structural necessary conditions of exact screening: the caller\'s frame is only read through a copy and every in-place '
                'mutation acts on a class-allocated object; the lists reported as noisy geos / outlier dates are the very values used in the '
                'negated isin filters on the geo / date column; every rebinding of the screened data in fit() is followed by re-aggregation on '
                'every path; the aggregation sums the target by (date, period) x group after relabelling exactly control and treatment; the '
                'i-th label is paired with the i-th row of the same pivoted table.',
        'design_ref': 'DESIGN.md section 4, C19',
        'note': 'Not decided: which geos/dates the statistical detectors flag, and row-order independence inside pandas/statsmodels.' + TB,
        'technique': 'ownership/effect analysis + def-use agreement + must-follow on the CFG',
    },
    'C20': {
        'text': 'Structural necessary conditions of exact expansion: de-duplicating return; pd.date_range(first_day, last_day) at daily '
                'frequency with both ends; whole-input iteration with an accumulate on every iteration; arity dispatch of the parser proved by '
                'path conditions (1 part -> (d,d), 2 parts -> (a,b), otherwise ValueError); ValueError-only error discipline; TimeWindow\'s '
                'ordering guard dominates construction. A different expansion algorithm (no set-based de-duplication) is reported UNDECIDED.',
        'design_ref': 'DESIGN.md section 4, C20',
        'note': 'Not decided: what pd.Timestamp parses (empty string -> NaT, times of day); correctness of a hand-written sweep/merge algorithm.' + TB,
        'technique': 'structural dataflow rules + path-condition analysis of the parser',
    },
})

CLAIMED.update({
    'C09': {
        'text': 'Exception-effect analysis over the resolved call graph (46+ functions) of both searches and the constructor: every explicit '
                'raise is ValueError; list pop/first/last element only under an emptiness guard; every division whose operands are both Python '
                'numbers (interprocedural numeric-kind analysis) has a denominator with a proved positive lower bound (validated parameter '
                'domains, construction facts, dominating guards, all call sites); the geo index is re-installed on every access; structural '
                'termination argument for the greedy loop (guard = disjunction of branch conditions, counter incremented on every path, '
                'matching repeats only on strict improvement) and only finite for-loops elsewhere.',
        'design_ref': 'DESIGN.md section 4, C09',
        'note': 'Not decided: exceptions raised inside NumPy/pandas/SciPy for exotic data (NaN panels, object dtype), None-dereference of '
                'diagnostics outside the stated precondition (window >= n_test+3 non-constant points), recursion/memory limits.' + TB,
        'technique': 'exception-effect analysis on the call graph with abstract kinds, lower-bound facts and dominating guards; loop-variant check',
    },
    'C10': {
        'text': 'Who-may-write analysis for every call history: all attribute/item stores, deletes and mutator calls of TBRMatchedMarkets, '
                'TBRMMData, TBRMMDiagnostics, TBRMMScore, TBRMMDesign and HeapDict are collected with receivers expanded through aliases; no '
                'site writes the parameter object; query methods write nothing self-reachable except the geo-index install, which happens on '
                'every path and depends only on construction-time state; retrieval does not modify retained designs; each search allocates, '
                'fills and installs its own heap; the input frame is copied before it is edited.',
        'design_ref': 'DESIGN.md section 4, C10',
        'note': 'Not decided: equality of answers between an aged and a fresh object beyond what write-freedom implies; global NumPy RNG '
                'consumption by greedy_search (does not reach an output); two TBRMatchedMarkets objects sharing one TBRMMData.' + TB,
        'technique': 'effect/ownership analysis with alias expansion (who-may-write rules)',
    },
})

CLAIMED.update({
    'C01': {
        'text': 'For every family of geo sets (pointwise Boolean abstraction, all truth-table rows enumerated): generator post-conditions, the '
                'greedy invariant (initial pair, control toggle, treatment addition) and the admitted-set formulas imply that every constructed '
                'design is within eligibility, contains the fixed and must-include geos, never a must-exclude geo, and has disjoint groups; '
                'structural rules tie pushed objects to these expressions (TBRMMDesign constructor guards, index-to-ID mapping, per-access '
                'index install).',
        'design_ref': 'DESIGN.md section 4, C01',
        'note': 'Not decided: cardinality-dependent behaviour (sizes are C02), that a search returns anything, distinctness of IDs inside pandas.' + TB,
        'technique': 'pointwise Boolean abstraction of set algebra (exhaustive truth tables) + provenance rules',
    },
    'C02': {
        'text': 'For both searches and all six constraints, under the assumption that the constraint is specified, every CFG path within the '
                'iteration binding the pushed groups passes a range test that normalises to the specification row instantiated at exactly the '
                'treatment/control expressions of the pushed design (bounds compared algebraically, integer-valued bounds inclusive) and leaves '
                'it on the accepting branch; sizes and geo ratio of the exhaustive search by provenance (range(lo, hi+1), generators yield '
                'sets of exactly the requested size); tests are vacuous when the parameter is None.',
        'design_ref': 'DESIGN.md section 4, C02',
        'note': 'Not decided: the numeric values (required impact, shares) and float round-off on real-valued bounds.' + TB,
        'technique': 'must-pass-through on the CFG under is-None assumptions + interval-predicate normaliser (sympy normal forms)',
    },
    'C03': {
        'text': 'Structure of the enumeration: the three loops iterate the complete size range and both generators with no early exit; every '
                'way out of an iteration before results.push is classified against an allow-list of six skip reasons by the provenance of its '
                'controlling conditions; the pruning list is written only under "optimistic budget > max" and tested as stored-subset-of-'
                'candidate; push is unconditional for non-skipped iterations; the Scoring tuple has the documented order and provenance; both '
                '__lt__ are tuple <.',
        'design_ref': 'DESIGN.md section 4, C03',
        'note': 'Not decided: that returned scores are maximal over the feasible set (needs run-time enumeration), ties, NaN ordering.' + TB,
        'technique': 'CFG loop-exit audit + control-dependence classification + table agreement',
    },
    'C04': {
        'text': 'At every construction site of a pushed TBRMMDesign the diagnostics object was built from the aggregate series of the pushed '
                'treatment group, its control series last set from the pushed control group, and the score computed from that object in that '
                'state; reused diagnostics objects escape only through deep copies (or with the score forced first); the data window is '
                'narrowed to the last n_pretest_max columns before use; the index setter and aggregates use one source in one order; the '
                'replaced last score entry is algebraically budget_range[1]/required_impact and only under a budget range; greedy never '
                'rewrites a pushed score.',
        'design_ref': 'DESIGN.md section 4, C04',
        'note': 'Not decided: numeric equality with sums recomputed from the raw frame and with recomputed test outcomes.' + TB,
        'technique': 'reaching-definition / def-use provenance + loop-carried-mutable escape rule + algebraic identity',
    },
    'C13': {
        'text': 'Structural inclusion of feasible sets: greedy designs satisfy the same six legality clauses the generators guarantee '
                '(Boolean proofs of C01), both searches enforce the same spec rows for sizes, geo ratio and volume ratio on the pushed pair '
                '(C02 analysis, sibling agreement), both score through TBRMMScore of the same diagnostics provenance with score entries '
                'rewritten only under a budget range, and both read eligibility classes only through self.geo_assignments.',
        'design_ref': 'DESIGN.md section 4, C13',
        'note': 'Not decided: the score comparison itself and whether the exhaustive search finds nothing exactly when greedy does.' + TB,
        'technique': 'composition of Boolean-abstraction proofs, constraint-enforcement analysis and provenance rules (sibling cross-check)',
    },
})

CLAIMED.update({
    'C11': {
        'text': 'Translation validation between siblings for all class-count vectors (symbolic): the placement table (which of treatment / '
                'control / neither each eligibility class may occupy) is computed from the generators by Boolean abstraction; the loop nest of '
                'count_max_designs is normalised (index ranges, exact binomials, linear size forms, membership guards) and compared with the '
                'normal form generated from that table; the size sets come from the same two size functions, which respect ranges and ratio.',
        'design_ref': 'DESIGN.md section 4, C11',
        'note': 'Not decided: the arithmetic identity for concrete vectors (no enumeration is run); a restructured count (other loop shape) is UNDECIDED.' + TB,
        'technique': 'translation validation: extracted normal form vs. normal form generated from a derived placement table (sympy)',
    },
    'C12': {
        'text': 'Structural necessary conditions of presentation invariance: IDs canonicalised to str before any set/index is built; raw frame '
                'read only through a label-based pivot; no unordered iteration flows into the geo order; no date arithmetic; and scale '
                'equivariance by a dimension (unit) analysis over the call graph of both searches — every addition/comparison relates equal '
                'powers of the response unit and no absolute tolerance is applied to a response-scaled quantity.',
        'design_ref': 'DESIGN.md section 4, C12',
        'note': 'Not decided: the metamorphic relations themselves (two runs), tie-breaking among exactly equal means/scores; comparisons whose '
                'operand units cannot be inferred are counted in the evidence, not judged.' + TB,
        'technique': 'dominance + order-taint rules + dimension (unit) analysis on the call graph',
    },
    'C15': {
        'text': 'Argument/provenance table of the ingestion pipeline (str IDs, zero-filled geo x date pivot, descending means, shares = means / '
                'sum), Boolean evaluation of the "cannot be excluded" set against the class algebra with the ValueError rejection dominating the '
                'narrowing, assignable = all - x_fixed, single-source index setter and aggregates, and a set-kind inference showing no Python set '
                'is used as a pandas row selector.',
        'design_ref': 'DESIGN.md section 4, C15',
        'note': 'Not decided: pandas numeric results; duplicate (geo, date) cells (pivot mean).' + TB,
        'technique': 'argument-table / provenance rules + Boolean abstraction + abstract kinds (set -> indexer)',
    },
})

CLAIMED.update({
    'C05': {
        'text': 'Formula-level proof by term rewriting on the source expressions (sympy, library calls as uninterpreted functions): required '
                'impact == (t_ppf(sig,n-2)+t_ppf(power,n-2)) * design-side TBR scale at the planning displacement; half-width == t_ppf(sig,n-2) '
                '* scale; point estimate == n_test*(dy - b*dx); the impact factors as K(parameters)*std(y,ddof=2)*sqrt(1-corr^2) (linear in the '
                'unit, shift invariant, even and strictly decreasing in |corr|); cached fields on this path obey the invalidation discipline.',
        'design_ref': 'DESIGN.md section 4, C05',
        'note': 'Not decided: agreement with tbr.TBR\'s statsmodels-based covariance propagation on data; the lemma std(y,ddof=2)*sqrt(1-r^2) = '
                'residual sd is assumed, not mechanised.' + TB,
        'technique': 'straight-line value numbering to symbolic normal forms + algebraic identity checking (no execution)',
    },
    'C06': {
        'text': 'Information flow (raw frame enters only through sorted per-(group,date) sums; groups selected by label), provenance of every '
                'summary column from the one posterior object with the documented formulas, quantile ordering by an interval domain with a case '
                'split on tails, non-negativity of the t scale for every rescale (sign domain), expression-level shape of the posterior '
                '(df, location, t^2*m\'Vm + t*sigma^2), design-side closed form (C05) and cache discipline.',
        'design_ref': 'DESIGN.md section 4, C06',
        'note': 'Not decided: numeric equality with the closed form on data, row-order independence inside pandas/statsmodels. Known finding: '
                'one-tailed summary with level < 0.5 reports lower > estimate.' + TB,
        'technique': 'taint/flow rules + interval and sign abstract domains + expression provenance',
    },
    'C07': {
        'text': 'Fixed-cost column algebra (rescale*cost == 1 by sympy, bounds*cost with matching suffixes, caller\'s tails/level/threshold), every '
                'random draw seeded from random_state and no global RNG, cache-invalidation discipline of TBRiROAS/TBR across fit(), provenance '
                'of the scenario predicate (pre-period costs + control test-period costs, order of magnitude < -10), quantile ordering and scale '
                'sign for the bounds of both branches.',
        'design_ref': 'DESIGN.md section 4, C07',
        'note': 'Not decided: lower <= estimate <= upper in the variable-cost branch (mean of a ratio of t-variates), unit equivariance of '
                'simulated figures. Known findings: one-tailed reports with level < 0.5.' + TB,
        'technique': 'column-algebra table (sympy) + RNG-seeding rule + must-reset typestate + interval domain',
    },
    'C18': {
        'text': 'Linear identities of the effect-series report by value numbering (counterfactual + difference == observed for the estimate and '
                'with crossed bounds; fixed-cost branch degenerate), pointwise bounds = pre-period residuals followed by first differences of the '
                'quantiles of the same posterior object that gives the cumulative bounds, cumulative estimate = cumsum of the same causal effect '
                'on experiment dates, quantile ordering (interval domain), validating container with both guards, sorted aggregation of the '
                'analysis data and cache discipline across fit().',
        'design_ref': 'DESIGN.md section 4, C18',
        'note': 'Not decided: monotonicity of the posterior scale in t (pointwise ordering), numeric equality with posterior quantiles on the last '
                'date. Known finding: level < 0.5 with tails=1 makes the container raise ValueError.' + TB,
        'technique': 'value numbering to linear identities (sympy) + reaching-definition provenance + interval domain',
    },
})

NOT_APPLICABLE = {}
