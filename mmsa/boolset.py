"""Pointwise Boolean abstraction of Python set algebra.

For one generic element g, a set-valued expression denotes the Boolean
"g is a member".  Set operators are pointwise, so `A | B`, `A & B`, `A - B`,
`A ^ B` and the corresponding methods become or/and/and-not/xor on membership
atoms.  A Boolean function over N atoms is an int used as a 2**N-bit truth
table; an obligation "for all g: phi(g)" under hypotheses H is decided by
checking H & ~phi == 0 over all rows (exhaustive, exact for the abstraction).
"""
import ast

from mmsa.core import Undecided, norm


class Env:

  def __init__(self, atoms):
    self.atoms = list(atoms)
    self.n = len(self.atoms)
    if self.n > 16:
      raise Undecided('too many atoms for the truth table: %d' % self.n)
    self.rows = 1 << self.n
    self.TRUE = (1 << self.rows) - 1
    self.FALSE = 0
    self._mask = {}
    for i, a in enumerate(self.atoms):
      m = 0
      for r in range(self.rows):
        if (r >> i) & 1:
          m |= 1 << r
      self._mask[a] = m

  def atom(self, name):
    return self._mask[name]

  def neg(self, m):
    return self.TRUE & ~m

  def implies(self, a, b):
    return self.neg(a) | b

  def valid(self, phi, hyp=None):
    hyp = self.TRUE if hyp is None else hyp
    return (hyp & self.neg(phi)) == 0

  def witness(self, phi, hyp=None):
    """A falsifying row as {atom: bool}, or None."""
    hyp = self.TRUE if hyp is None else hyp
    bad = hyp & self.neg(phi)
    if bad == 0:
      return None
    r = (bad & -bad).bit_length() - 1
    return {a: bool((r >> i) & 1) for i, a in enumerate(self.atoms)}

  def count(self, m):
    return bin(m & self.TRUE).count('1')

  def table(self, m, atoms=None):
    """Rows (as tuples over `atoms`) where m holds, projected."""
    atoms = atoms or self.atoms
    idx = [self.atoms.index(a) for a in atoms]
    out = set()
    for r in range(self.rows):
      if (m >> r) & 1:
        out.add(tuple((r >> i) & 1 for i in idx))
    return out


SET_METHODS = {
    'union': 'or', 'intersection': 'and', 'difference': 'sub', 'symmetric_difference': 'xor',
}


def eval_set(env, expr, lookup, elem=None):
  """Boolean function of a set-valued expression.

  lookup(expr_node) -> mask or None for leaves (names, attribute chains,
  subscripts).  elem(expr_node) -> mask for a *single element* expression
  (the "is this element" atom), used for singleton containers `[g]`, `{g}`,
  `set([g])`.
  """
  def ev(e):
    m = lookup(e)
    if m is not None:
      return m
    if isinstance(e, ast.BinOp):
      if isinstance(e.op, ast.BitOr):
        return ev(e.left) | ev(e.right)
      if isinstance(e.op, ast.BitAnd):
        return ev(e.left) & ev(e.right)
      if isinstance(e.op, ast.Sub):
        return ev(e.left) & env.neg(ev(e.right))
      if isinstance(e.op, ast.BitXor):
        return ev(e.left) ^ ev(e.right)
      raise Undecided('set operator not understood: %s' % norm(e))
    if isinstance(e, ast.Call):
      f = e.func
      if isinstance(f, ast.Name) and f.id in ('set', 'frozenset', 'list', 'tuple', 'sorted'):
        if not e.args:
          return env.FALSE
        if len(e.args) == 1:
          return ev(e.args[0])
      if isinstance(f, ast.Attribute) and f.attr in SET_METHODS:
        acc = ev(f.value)
        for a in e.args:
          b = ev(a)
          k = SET_METHODS[f.attr]
          acc = {'or': acc | b, 'and': acc & b, 'sub': acc & env.neg(b), 'xor': acc ^ b}[k]
        return acc
      if isinstance(f, ast.Attribute) and f.attr == 'copy' and not e.args:
        return ev(f.value)
      raise Undecided('set-valued call not understood: %s' % norm(e))
    if isinstance(e, (ast.List, ast.Tuple, ast.Set)):
      if not e.elts:
        return env.FALSE
      if elem is not None:
        acc = env.FALSE
        for x in e.elts:
          m1 = elem(x)
          if m1 is None:
            raise Undecided('element not understood: %s' % norm(x))
          acc |= m1
        return acc
      raise Undecided('container literal not understood: %s' % norm(e))
    if isinstance(e, ast.IfExp):
      raise Undecided('conditional set expression: %s' % norm(e))
    raise Undecided('set expression not understood: %s' % norm(e))
  return ev(expr)
