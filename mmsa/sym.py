"""Expression ASTs -> sympy terms (library calls and access paths are opaque symbols)."""
import ast

import sympy

from mmsa.core import Undecided, norm

_cache = {}


def symbol(text, positive=False):
  k = (text, positive)
  if k not in _cache:
    _cache[k] = sympy.Symbol(text, positive=True) if positive else sympy.Symbol(text, real=True)
  return _cache[k]


def to_sym(e, leaf=None, positive=()):
  """leaf(node) -> sympy expr or None lets the caller interpret calls/names."""
  if leaf is not None:
    r = leaf(e)
    if r is not None:
      return r
  if isinstance(e, ast.Constant) and isinstance(e.value, (int, float)) and not isinstance(e.value, bool):
    return sympy.nsimplify(e.value, rational=True)
  if isinstance(e, ast.UnaryOp) and isinstance(e.op, ast.USub):
    return -to_sym(e.operand, leaf, positive)
  if isinstance(e, ast.UnaryOp) and isinstance(e.op, ast.UAdd):
    return to_sym(e.operand, leaf, positive)
  if isinstance(e, ast.BinOp):
    l, r = to_sym(e.left, leaf, positive), to_sym(e.right, leaf, positive)
    if isinstance(e.op, ast.Add):
      return l + r
    if isinstance(e.op, ast.Sub):
      return l - r
    if isinstance(e.op, ast.Mult):
      return l * r
    if isinstance(e.op, ast.Div):
      return l / r
    if isinstance(e.op, ast.Pow):
      return l ** r
    raise Undecided('operator not understood in %s' % norm(e))
  t = norm(e)
  return symbol(t, t in positive)


def equal(a, b):
  try:
    return sympy.simplify(a - b) == 0
  except Exception:
    return False
