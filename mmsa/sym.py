"""Expression ASTs -> sympy terms (library calls and access paths are opaque symbols)."""
import ast

import sympy

from mmsa.core import Undecided, norm

_cache = {}


def symbol(text, positive=False):
  k = (text, positive)
  if k not in _cache:
    _cache[k] = sympy.Symbol(text, positive=True) if positive else sympy.Symbol(text, real=True)
  return _cache[k]


def to_sym(e, leaf=None, positive=()):
  """leaf(node) -> sympy expr or None lets the caller interpret calls/names."""
  if leaf is not None:
    r = leaf(e)
    if r is not None:
      return r
  if isinstance(e, ast.Constant) and isinstance(e.value, (int, float)) and not isinstance(e.value, bool):
    return sympy.nsimplify(e.value, rational=True)
  if isinstance(e, ast.UnaryOp) and isinstance(e.op, ast.USub):
    return -to_sym(e.operand, leaf, positive)
  if isinstance(e, ast.UnaryOp) and isinstance(e.op, ast.UAdd):
    return to_sym(e.operand, leaf, positive)
  if isinstance(e, ast.BinOp):
    l, r = to_sym(e.left, leaf, positive), to_sym(e.right, leaf, positive)
    if isinstance(e.op, ast.Add):
      return l + r
    if isinstance(e.op, ast.Sub):
      return l - r
    if isinstance(e.op, ast.Mult):
      return l * r
    if isinstance(e.op, ast.Div):
      return l / r
    if isinstance(e.op, ast.Pow):
      return l ** r
    raise Undecided('operator not understood in %s' % norm(e))
  t = norm(e)
  return symbol(t, t in positive)


def equal(a, b):
  try:
    return sympy.simplify(a - b) == 0
  except Exception:
    return False


def aliens(expr, vocabulary):
  """Names of free symbols and of uninterpreted functions in `expr` that are not in `vocabulary` (a set of names)."""
  out = {str(s_) for s_ in expr.free_symbols if str(s_) not in vocabulary}
  # an opaque symbol whose text is itself an expression over known names (round(float(flevel), 4)) is a closed term
  from mmsa import au
  fields = {v[5:].split('.')[0].split('[')[0].split('(')[0] for v in vocabulary if v.startswith('self.')}
  for name in list(out):
    try:
      e_ = ast.parse(name, mode='eval').body
    except SyntaxError:
      continue
    if isinstance(e_, (ast.Name, ast.Attribute)):
      continue            # a plain unresolved local or field stays alien
    if not au.aliens(e_, vocabulary, fields=fields):
      out.discard(name)
  try:
    from sympy.core.function import AppliedUndef
    out |= {a.func.__name__ for a in expr.atoms(AppliedUndef) if a.func.__name__ not in vocabulary}
  except Exception:
    pass
  return sorted(out)


def verdict(got, want, vocabulary=(), eq=None):
  """True: got == want; False: they differ and `got` is a closed term over the vocabulary of `want` (plus `vocabulary`);
  None: they differ but `got` contains symbols the expansion left unresolved (its meaning is not known)."""
  same = eq(got, want) if eq is not None else equal(got, want)
  if same:
    return True, []
  voc = {str(s_) for s_ in want.free_symbols} | set(vocabulary)
  try:
    from sympy.core.function import AppliedUndef
    voc |= {a.func.__name__ for a in want.atoms(AppliedUndef)}
  except Exception:
    pass
  al = aliens(got, voc)
  return (None if al else False), al
