"""Reaching definitions on the CFG, alias look-through and canonical expressions."""
import ast

from mmsa.core import norm, walk_no_nested


def clone(node):
  """Deep copy of an AST subtree that does not follow the `_parent` back links."""
  if isinstance(node, ast.AST):
    new = type(node)()
    for f in node._fields:
      if hasattr(node, f):
        setattr(new, f, clone(getattr(node, f)))
    for a in ('lineno', 'col_offset', 'end_lineno', 'end_col_offset'):
      if hasattr(node, a):
        setattr(new, a, getattr(node, a))
    return new
  if isinstance(node, list):
    return [clone(x) for x in node]
  return node


class Def:
  __slots__ = ('name', 'node', 'value', 'how', 'index')

  def __init__(self, name, node, value, how, index=None):
    self.name = name
    self.node = node    # CFG node
    self.value = value  # RHS expression for how == 'assign', iter expr for 'iter', else None
    self.how = how      # param assign aug iter unpack with handler def import ann
    self.index = index  # for how == 'unpack': position in the (flat, unstarred) target tuple

  def __repr__(self):
    return '<Def %s@%d %s>' % (self.name, self.node.lineno, self.how)


def _targets(t, value, how, out, node):
  if isinstance(t, ast.Name):
    out.append(Def(t.id, node, value, how))
  elif isinstance(t, (ast.Tuple, ast.List)):
    for i, e in enumerate(t.elts):
      sub = None
      if how == 'assign' and isinstance(value, (ast.Tuple, ast.List)) and len(value.elts) == len(t.elts) \
          and not any(isinstance(x, ast.Starred) for x in list(value.elts) + list(t.elts)):
        _targets(e, value.elts[i], 'assign', out, node)
      else:
        before = len(out)
        _targets(e, value, 'unpack' if how == 'assign' else how, out, node)
        if how == 'assign' and isinstance(e, ast.Name) and not any(isinstance(x, ast.Starred) for x in t.elts):
          for d in out[before:]:
            d.index = i
        elif how == 'assign' and isinstance(e, ast.Name) and sum(isinstance(x, ast.Starred) for x in t.elts) == 1:
          # *head, a, b = seq / a, *rest, b = seq: the fixed targets are counted from their own end of the sequence
          star = next(j for j, x in enumerate(t.elts) if isinstance(x, ast.Starred))
          for d in out[before:]:
            d.index = i if i < star else i - len(t.elts)
  elif isinstance(t, ast.Starred):
    _targets(t.value, value, 'unpack', out, node)
  # Attribute / Subscript targets define no local name


def defs_of(node, func):
  """Local-name definitions made at a CFG node."""
  out = []
  if node.kind == 'entry':
    a = func.args
    for p in a.posonlyargs + a.args + a.kwonlyargs:
      out.append(Def(p.arg, node, None, 'param'))
    if a.vararg:
      out.append(Def(a.vararg.arg, node, None, 'param'))
    if a.kwarg:
      out.append(Def(a.kwarg.arg, node, None, 'param'))
    return out
  st = node.ast
  if node.kind == 'stmt':
    if isinstance(st, ast.Assign):
      for t in st.targets:
        _targets(t, st.value, 'assign', out, node)
    elif isinstance(st, ast.AnnAssign):
      if st.value is not None:
        _targets(st.target, st.value, 'assign', out, node)
    elif isinstance(st, ast.AugAssign):
      if isinstance(st.target, ast.Name):
        out.append(Def(st.target.id, node, None, 'aug'))
    elif isinstance(st, (ast.FunctionDef, ast.AsyncFunctionDef, ast.ClassDef)):
      out.append(Def(st.name, node, None, 'def'))
    elif isinstance(st, (ast.Import, ast.ImportFrom)):
      for a in st.names:
        out.append(Def((a.asname or a.name).split('.')[0], node, None, 'import'))
    # walrus inside expressions
    for sub in walk_no_nested(st) if not isinstance(st, (ast.FunctionDef, ast.AsyncFunctionDef, ast.ClassDef)) else []:
      if isinstance(sub, ast.NamedExpr):
        out.append(Def(sub.target.id, node, sub.value, 'assign'))
  elif node.kind == 'for':
    _targets(st.target, st.iter, 'iter', out, node)
  elif node.kind == 'with':
    for it in st.items:
      if it.optional_vars is not None:
        _targets(it.optional_vars, it.context_expr, 'with', out, node)
  elif node.kind == 'handler':
    if st.name:
      out.append(Def(st.name, node, None, 'handler'))
  elif node.kind in ('test', 'return'):
    e = node.expr if node.kind == 'test' else st.value
    if e is not None:
      for sub in walk_no_nested(e):
        if isinstance(sub, ast.NamedExpr):
          out.append(Def(sub.target.id, node, sub.value, 'assign'))
  return out


MUTATING_METHODS = {'append', 'extend', 'insert', 'pop', 'remove', 'clear', 'sort', 'reverse', 'update', 'setdefault', 'popitem',
                    'add', 'discard', 'push'}


def mutated_names(func):
  """Local names whose object is modified in place somewhere in the function
  (item/attribute stores, del, mutator methods): such names are never replaced
  by their defining expression."""
  out = set()
  for sub in walk_no_nested(func):
    tg = []
    if isinstance(sub, ast.Assign):
      tg = sub.targets
    elif isinstance(sub, (ast.AugAssign, ast.AnnAssign)):
      tg = [sub.target]
    elif isinstance(sub, ast.Delete):
      tg = sub.targets
    for t in tg:
      for x in ([t] if not isinstance(t, (ast.Tuple, ast.List)) else t.elts):
        if isinstance(x, (ast.Subscript, ast.Attribute)):
          b = x
          while isinstance(b, (ast.Subscript, ast.Attribute)):
            b = b.value
          if isinstance(b, ast.Name):
            out.add(b.id)
    if isinstance(sub, ast.Call) and isinstance(sub.func, ast.Attribute) and sub.func.attr in MUTATING_METHODS \
        and isinstance(sub.func.value, ast.Name):
      out.add(sub.func.value.id)
  out.discard('self')
  return out


class Reaching:
  """May-reaching definitions: IN[node] = dict name -> frozenset(Def)."""

  def __init__(self, cfg, edge_ok=None):
    self.cfg = cfg
    self.consts = {}           # module-level names bound to literal tables (set by the owner: FuncCtx)
    self.mutated = mutated_names(cfg.func)
    self.gen = {n: defs_of(n, cfg.func) for n in cfg.nodes}
    self.IN = {n: {} for n in cfg.nodes}
    self.OUT = {n: {} for n in cfg.nodes}
    live = cfg.reachable(cfg.entry, edge_ok) if edge_ok is not None else None
    work = [n for n in cfg.nodes if live is None or n in live]
    inwork = set(work)
    while work:
      n = work.pop(0)
      inwork.discard(n)
      inn = {}
      for p, lab in cfg.pred[n]:
        if edge_ok is not None and (not edge_ok(p, n, lab) or p not in live):
          continue
        for k, v in self.OUT[p].items():
          inn[k] = inn.get(k, frozenset()) | v
      self.IN[n] = inn
      out = dict(inn)
      for d in self.gen[n]:
        out[d.name] = frozenset([d])
      if out != self.OUT[n]:
        self.OUT[n] = out
        for m, lab in cfg.succ[n]:
          if m not in inwork and (live is None or m in live):
            work.append(m)
            inwork.add(m)

  def defs_at(self, node, name):
    return self.IN[node].get(name, frozenset())

  def single_def(self, node, name):
    ds = self.defs_at(node, name)
    if len(ds) == 1:
      return next(iter(ds))
    return None

  def resolve(self, node, name_node):
    """RHS expression if exactly one plain assignment reaches, else None."""
    d = self.single_def(node, name_node.id)
    if d is not None and d.how == 'assign' and d.value is not None:
      return d.value
    return None

  def expand(self, node, expr, depth=8, keep=(), aliases=False, pathenv=None):
    """Substitute local names by their unique reaching assignment, recursively
    (each RHS resolved at its own definition node).  Returns (ast, free) where
    free maps each remaining local name to the frozenset of ids of the CFG
    nodes defining it (used to decide that two occurrences denote one value)."""
    free = {}
    rd = self

    def sub(e, at, depth, nn=frozenset()):
      if isinstance(e, ast.Name) and isinstance(e.ctx, ast.Load):
        if e.id in keep:
          ds = rd.defs_at(at, e.id)
          free[e.id] = free.get(e.id, frozenset()) | frozenset(d.node.id for d in ds)
          return e
        d = rd.single_def(at, e.id)
        if d is not None and d.how == 'assign' and d.value is not None and depth > 0 and (aliases or e.id not in rd.mutated):
          nn2 = nn
          if isinstance(d.value, ast.Name) and (e.id in nn or rd.nonnull_at(at, e.id)):
            nn2 = nn | {d.value.id}        # w = r and w is known not to be None here: neither is r
          return sub(clone(d.value), d.node, depth - 1, nn2)
        if d is not None and d.how == 'unpack' and d.index is not None and d.value is not None and depth > 0 and e.id not in rd.mutated:
          # a, b = [x, y]  (possibly through a local naming the list): the element at the target's position
          nn3 = nn | ({d.value.id} if isinstance(d.value, ast.Name) else frozenset())     # unpacking succeeds: the value is not None
          seq = sub(clone(d.value), d.node, depth - 1, nn3)
          if isinstance(seq, (ast.Tuple, ast.List)) and -len(seq.elts) <= d.index < len(seq.elts) and not any(isinstance(x, ast.Starred) for x in seq.elts):
            return seq.elts[d.index]
          # a, b = Pair(x, y): a namedtuple of the module, constructed positionally (keywords were made positional at load time)
          if isinstance(seq, ast.Call) and norm(seq.func).split('.')[-1] in getattr(rd, 'ntuples', ()) and not seq.keywords \
              and -len(seq.args) <= d.index < len(seq.args) and not any(isinstance(x, ast.Starred) for x in seq.args):
            return seq.args[d.index]
          # a, b, c = (E(col) for col in ('x', 'y', 'z')): the element for the literal at the target's position
          if isinstance(seq, (ast.GeneratorExp, ast.ListComp)) and len(seq.generators) == 1 and not seq.generators[0].ifs \
              and isinstance(seq.generators[0].target, ast.Name):
            it = seq.generators[0].iter
            if isinstance(it, (ast.Tuple, ast.List)) and -len(it.elts) <= d.index < len(it.elts):
              tv, lit = seq.generators[0].target.id, it.elts[d.index]

              def subv(x_):
                if isinstance(x_, ast.Name) and x_.id == tv and isinstance(x_.ctx, ast.Load):
                  return clone(lit)
                return _map_children(x_, subv)
              return subv(clone(seq.elt))
        if d is None and pathenv is not None and at is node and e.id in pathenv and depth > 0 and e.id not in rd.mutated:
          # several definitions reach, but on the path under consideration the last one is known
          pd, penv = pathenv[e.id]
          if pd.how == 'assign' and pd.value is not None:
            saved = pathenv
            return rd.expand(pd.node, pd.value, depth - 1, keep, aliases, penv)[0]
        ds = rd.defs_at(at, e.id)
        if not ds and e.id in rd.consts and depth > 0:
          return clone(rd.consts[e.id])         # a module-level table of literals
        if d is None and len(ds) > 1 and depth > 0 and e.id not in rd.mutated:
          # `r = None` on one path, a value on the other, and the use is guarded by `r is not None` (possibly through an
          # alias w = r): only the value definition is live here
          live = [x for x in ds if not (x.how == 'assign' and isinstance(x.value, ast.Constant) and x.value.value is None)]
          if len(live) == 1 and live[0].how == 'assign' and live[0].value is not None and (e.id in nn or rd.nonnull_at(at, e.id)):
            return sub(clone(live[0].value), live[0].node, depth - 1)
        if ds:
          free[e.id] = free.get(e.id, frozenset()) | frozenset(x.node.id for x in ds)
        return e
      if isinstance(e, (ast.Lambda, ast.GeneratorExp, ast.ListComp, ast.SetComp, ast.DictComp)):
        # comprehension variables shadow; substitute only names not bound inside
        bound = set()
        for g in getattr(e, 'generators', []):
          for t in ast.walk(g.target):
            if isinstance(t, ast.Name):
              bound.add(t.id)
        if isinstance(e, ast.Lambda):
          bound |= {a.arg for a in e.args.args}
        return _map_children(e, lambda c: c if (isinstance(c, ast.Name) and c.id in bound) else sub(c, at, depth, nn))
      return _map_children(e, lambda c: sub(c, at, depth, nn))

    out = idioms(fold(sub(clone(expr), node, depth)))
    return out, free

  def nonnull_at(self, at, name):
    """Some test dominating `at` asserts `name is not None` (directly or on a local that is a plain alias of it)."""
    from mmsa import cfg as cfgmod, pathcond
    cache = self.__dict__.setdefault('_nn_cache', {})
    if '_doms' not in self.__dict__:
      self._doms = self.cfg.dominators(cfgmod.no_exc)
    key = at.id
    if key not in cache:
      cache[key] = cfgmod.dominating_conditions(self.cfg, at, self._doms)
    # `at` may itself be the definition `w = name` followed by the test: also look at the conditions of uses is not needed
    for e, taken, tn in cache[key]:
      dnf = pathcond.literals(e, taken)
      if len(dnf) != 1:
        continue
      for atom, t in dnf[0]:
        if isinstance(atom, ast.Compare) and len(atom.ops) == 1 and isinstance(atom.ops[0], (ast.Is, ast.IsNot)) and isinstance(atom.left, ast.Name) \
            and isinstance(atom.comparators[0], ast.Constant) and atom.comparators[0].value is None:
          notnone = t if isinstance(atom.ops[0], ast.IsNot) else not t
          if not notnone:
            continue
          left, hops = atom.left.id, 0
          while left != name and hops < 4:
            d = self.single_def(tn, left)
            if d is not None and d.how == 'assign' and isinstance(d.value, ast.Name):
              left, hops = d.value.id, hops + 1
            else:
              break
          if left == name:
            return True
    return False

  def canon(self, node, expr, keep=()):
    e, free = self.expand(node, expr, keep=keep)
    return norm(e), free

  def same_value(self, node_a, expr_a, node_b, expr_b):
    ta, fa = self.canon(node_a, expr_a)
    tb, fb = self.canon(node_b, expr_b)
    return ta == tb and fa == fb


def _cint(e):
  if e is None:
    return True, None
  if isinstance(e, ast.Constant) and isinstance(e.value, int) and not isinstance(e.value, bool):
    return True, e.value
  if isinstance(e, ast.UnaryOp) and isinstance(e.op, ast.USub) and isinstance(e.operand, ast.Constant) and isinstance(e.operand.value, int):
    return True, -e.operand.value
  return False, None


def fold(e):
  """Constant-fold subscripts of list/tuple literals: [a, b, c][0:2] -> [a, b], (a, b)[1] -> b."""
  if not isinstance(e, ast.AST):
    return e
  e = _map_children(e, fold)
  if isinstance(e, ast.Call) and isinstance(e.func, ast.Name) and e.func.id == 'getattr' and len(e.args) == 2 and not e.keywords \
      and isinstance(e.args[1], ast.Constant) and isinstance(e.args[1].value, str) and e.args[1].value.isidentifier():
    return ast.Attribute(value=e.args[0], attr=e.args[1].value, ctx=ast.Load())          # getattr(o, 'name') after a table entry was substituted
  if isinstance(e, ast.IfExp) and isinstance(e.test, ast.Constant):
    return e.body if e.test.value else e.orelse           # a conditional with a literal test (after inlining a helper)
  if isinstance(e, ast.Subscript) and isinstance(e.value, ast.DictComp) and len(e.value.generators) == 1:
    # {k: V(k) for k in IT}[K]  ->  V(K)   (K in IT, else the subscript raises)
    gen = e.value.generators[0]
    if isinstance(gen.target, ast.Name) and not gen.ifs and isinstance(e.value.key, ast.Name) and e.value.key.id == gen.target.id:
      kname, K = gen.target.id, e.slice

      def subk(x):
        if isinstance(x, ast.Name) and x.id == kname and isinstance(x.ctx, ast.Load):
          return clone(K)
        return _map_children(x, subk)
      return subk(clone(e.value.value))
  if isinstance(e, ast.Subscript) and isinstance(e.value, (ast.List, ast.Tuple)) \
      and not any(isinstance(x, ast.Starred) for x in e.value.elts):
    elts = e.value.elts
    if isinstance(e.slice, ast.Slice):
      ok1, lo = _cint(e.slice.lower)
      ok2, hi = _cint(e.slice.upper)
      ok3, st = _cint(e.slice.step)
      if ok1 and ok2 and ok3:
        new = type(e.value)(elts=elts[slice(lo, hi, st)], ctx=ast.Load())
        return new
    else:
      ok, i = _cint(e.slice)
      if ok and i is not None and -len(elts) <= i < len(elts):
        return elts[i]
  return e


def _is_mask(m_):
  """A Boolean row mask (not a label: with labels X.loc[a][c] and X.loc[a, c] differ on a MultiIndex)."""
  if isinstance(m_, ast.Compare):
    return True
  if isinstance(m_, ast.BinOp) and isinstance(m_.op, (ast.BitAnd, ast.BitOr)):
    return _is_mask(m_.left) and _is_mask(m_.right)
  if isinstance(m_, ast.UnaryOp) and isinstance(m_.op, ast.Invert):
    return _is_mask(m_.operand)
  return isinstance(m_, ast.Call) and isinstance(m_.func, ast.Attribute) and m_.func.attr in ('isin', 'between', 'duplicated', 'isna', 'notna', 'isnull', 'notnull')


RECORD_FIELDS = {}      # record type name -> ordered field names (filled by core.Repo at load time)
RECORD_KIND = {}        # record type name -> 'tuple' (namedtuple / NamedTuple) | 'dataclass'


def idioms(e):
  """Normal forms of library spellings that denote the same value (applied at load time and to every expanded term, since
  substituting a local can bring two halves of a spelling together):
    X.loc[mask][c] -> X.loc[mask, c];  S.values -> S.to_numpy();  np.concatenate([a, b]) -> np.concatenate((a, b));
    axis='columns' -> axis=1, axis='index'/'rows' -> axis=0;  X.to_list() -> X.tolist()."""
  if not isinstance(e, ast.AST):
    return e
  if isinstance(e, (ast.FunctionDef, ast.ClassDef, ast.AsyncFunctionDef)):
    return e
  if isinstance(e, ast.Call) and isinstance(e.func, ast.Attribute) and e.func.attr == 'values':
    # d.values(): the method of a mapping, not the array of a Series
    e.func.value = idioms(e.func.value)
    e.args = [idioms(a_) for a_ in e.args]
    for k_ in e.keywords:
      k_.value = idioms(k_.value)
    return e
  e = _map_children(e, idioms)
  if isinstance(e, ast.Subscript) and isinstance(e.value, ast.Subscript) and isinstance(e.value.value, ast.Attribute) and e.value.value.attr == 'loc' \
      and _is_mask(e.value.slice) and not isinstance(e.slice, (ast.Tuple, ast.Slice)) and isinstance(e.ctx, ast.Load):
    return ast.copy_location(ast.Subscript(value=e.value.value, slice=ast.Tuple(elts=[e.value.slice, e.slice], ctx=ast.Load()), ctx=ast.Load()), e)
  if isinstance(e, ast.Attribute) and e.attr == 'values' and isinstance(e.ctx, ast.Load):
    return ast.copy_location(ast.Call(func=ast.Attribute(value=e.value, attr='to_numpy', ctx=ast.Load()), args=[], keywords=[]), e)
  # Record(a, b).second -> b   /   Record(a, b)[1] -> b     (namedtuples, NamedTuple classes and plain dataclasses of the package)
  if isinstance(e, (ast.Attribute, ast.Subscript)) and isinstance(getattr(e, 'ctx', None), ast.Load) and isinstance(e.value, ast.Call) \
      and isinstance(e.value.func, (ast.Name, ast.Attribute)):
    c_ = e.value
    rn_ = c_.func.id if isinstance(c_.func, ast.Name) else c_.func.attr
    flds_ = RECORD_FIELDS.get(rn_)
    if flds_ and not any(isinstance(a_, ast.Starred) for a_ in c_.args) and not any(k_.arg is None for k_ in c_.keywords) and len(c_.args) + len(c_.keywords) <= len(flds_):
      given_ = dict(zip(flds_, c_.args))
      given_.update({k_.arg: k_.value for k_ in c_.keywords if k_.arg in flds_})
      if isinstance(e, ast.Attribute) and e.attr in given_:
        return given_[e.attr]
      if isinstance(e, ast.Subscript) and isinstance(e.slice, ast.Constant) and isinstance(e.slice.value, int) and not isinstance(e.slice.value, bool) \
          and RECORD_KIND.get(rn_) == 'tuple' and -len(flds_) <= e.slice.value < len(flds_) and flds_[e.slice.value] in given_:
        return given_[flds_[e.slice.value]]
  # x in frozenset(S) / x in set(S)  ->  x in S     (a membership test does not depend on the container; the elements
  # of S are the things compared, so they are hashable whenever the copy could be built at all)
  if isinstance(e, ast.Compare) and len(e.ops) == 1 and isinstance(e.ops[0], (ast.In, ast.NotIn)):
    c0 = e.comparators[0]
    if isinstance(c0, ast.Call) and isinstance(c0.func, ast.Name) and c0.func.id in ('frozenset', 'set') and len(c0.args) == 1 and not c0.keywords \
        and not isinstance(c0.args[0], (ast.GeneratorExp, ast.ListComp, ast.Starred)):
      e.comparators = [c0.args[0]]
  # S.isin(list(X)) -> S.isin(X)   (membership again)
  if isinstance(e, ast.Call) and isinstance(e.func, ast.Attribute) and e.func.attr == 'isin' and len(e.args) == 1 and not e.keywords:
    a0 = e.args[0]
    if isinstance(a0, ast.Call) and isinstance(a0.func, ast.Name) and a0.func.id in ('list', 'tuple', 'set', 'frozenset') and len(a0.args) == 1 and not a0.keywords \
        and not isinstance(a0.args[0], (ast.Starred, ast.GeneratorExp)):
      e.args = [a0.args[0]]
  # [.. for v in list(E)]  ->  [.. for v in E]        (a comprehension cannot change what it iterates over)
  if isinstance(e, (ast.ListComp, ast.SetComp, ast.GeneratorExp, ast.DictComp)):
    for gen_ in e.generators:
      it_ = gen_.iter
      if isinstance(it_, ast.Call) and isinstance(it_.func, ast.Name) and it_.func.id in ('list', 'tuple') and len(it_.args) == 1 and not it_.keywords \
          and not isinstance(it_.args[0], ast.Starred):
        gen_.iter = it_.args[0]
  # list([a, b]) -> [a, b];  dict({k: v}) -> {k: v};  tuple((a, b)) -> (a, b);  set({a}) -> {a}     (a fresh copy of a display)
  if isinstance(e, ast.Call) and isinstance(e.func, ast.Name) and len(e.args) == 1 and not e.keywords:
    a0 = e.args[0]
    if (e.func.id == 'list' and isinstance(a0, ast.List)) or (e.func.id == 'dict' and isinstance(a0, ast.Dict)) \
        or (e.func.id == 'tuple' and isinstance(a0, ast.Tuple)) or (e.func.id == 'set' and isinstance(a0, ast.Set)):
      return a0
  if isinstance(e, ast.Call) and norm(e.func) in ('typing.cast', 'cast') and len(e.args) == 2 and not e.keywords:
    return e.args[1]              # typing.cast(T, x) is x
  if isinstance(e, ast.Call) and isinstance(e.func, ast.Lambda) and not e.args and not e.keywords:
    a_ = e.func.args
    if not (a_.args or a_.posonlyargs or a_.kwonlyargs or a_.vararg or a_.kwarg):
      return e.func.body          # (lambda: E)()  ->  E   (a thunk called where it is written)
  if isinstance(e, ast.Call):
    if norm(e.func) in ('np.concatenate', 'numpy.concatenate', 'np.hstack', 'np.vstack', 'pd.concat', 'pandas.concat') and e.args and isinstance(e.args[0], ast.List):
      e.args[0] = ast.copy_location(ast.Tuple(elts=e.args[0].elts, ctx=ast.Load()), e.args[0])
    for k_ in e.keywords:
      if k_.arg == 'axis' and isinstance(k_.value, ast.Constant) and k_.value.value in ('columns', 'index', 'rows'):
        k_.value = ast.copy_location(ast.Constant(value=1 if k_.value.value == 'columns' else 0), k_.value)
    if isinstance(e.func, ast.Attribute) and e.func.attr == 'to_list' and not e.args and not e.keywords:
      e.func.attr = 'tolist'
  return e


def _map_children(e, f):
  for field, old in ast.iter_fields(e):
    if isinstance(old, list):
      new = []
      for x in old:
        new.append(f(x) if isinstance(x, ast.AST) else x)
      setattr(e, field, new)
    elif isinstance(old, ast.AST):
      setattr(e, field, f(old))
  return e


def names_loaded(expr):
  return {n.id for n in ast.walk(expr) if isinstance(n, ast.Name) and isinstance(n.ctx, ast.Load)}


def stmt_exprs(node):
  """Expressions evaluated at a CFG node (for use/def scans)."""
  st = node.ast
  if node.kind == 'test':
    return [node.expr]
  if node.kind == 'for':
    return [st.iter]
  if node.kind == 'with':
    return [i.context_expr for i in st.items]
  if node.kind in ('stmt', 'return', 'raisestmt') and st is not None:
    if isinstance(st, (ast.FunctionDef, ast.AsyncFunctionDef, ast.ClassDef)):
      return []
    return [st]
  return []
