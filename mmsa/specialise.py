"""Load-time specialisation of the program to its *default configuration*.

The properties are stated for the library as it behaves out of the box.  Two refactoring idioms put the default behind an
indirection that is constant in that configuration:

* class-level collaborators and constants  (`_heap_factory = heapdict.HeapDict`, `_row_selector = staticmethod(list)`,
  `numerics = np`, `_validation_error = ValueError`, `_corr_decimals = 2`) read as `self.name` / `cls.name`;
* keyword-only parameters with a default that no call in the package supplies  (`def search(self, *, results=None)`,
  resolved by `results = self._new_results() if results is None else results`).

Both are replaced by their default value (in place, on the module trees, before helpers are inlined) and the tests they
decide are folded.  An attribute that any method of the class stores, a dataclass field, a parameter that is re-bound
or that some call site supplies is left alone.  Subclasses and callers that override the defaults are outside the
stated properties; what is analysed is the behaviour of the defaults.
"""
import ast

from mmsa import dataflow
from mmsa import core
from mmsa.core import norm


def _simple_value(v):
  """The expression a class-level binding stands for when it is a plain collaborator/constant, else None."""
  if isinstance(v, ast.Call) and isinstance(v.func, ast.Name) and v.func.id == 'staticmethod' and len(v.args) == 1 and not v.keywords:
    v = v.args[0]
  if isinstance(v, ast.Constant) and not isinstance(v.value, (bytes, type(Ellipsis))):
    return v
  if isinstance(v, ast.UnaryOp) and isinstance(v.op, ast.USub) and isinstance(v.operand, ast.Constant):
    return v
  # small immutable tables of constants: ('control', 'treatment', 'exclude'), frozenset({0, 1})
  def atom(x):
    return isinstance(x, (ast.Constant, ast.Name)) or (isinstance(x, ast.Attribute) and isinstance(x.value, ast.Name))
  if isinstance(v, ast.Tuple) and len(v.elts) <= 12 and all(atom(x) for x in v.elts):
    return v
  if isinstance(v, ast.Call) and isinstance(v.func, ast.Name) and v.func.id == 'frozenset' and len(v.args) == 1 and not v.keywords \
      and isinstance(v.args[0], (ast.Set, ast.Tuple, ast.List)) and all(atom(x) for x in v.args[0].elts):
    return v
  if isinstance(v, ast.Name):
    return v
  if isinstance(v, ast.Attribute):
    x = v
    while isinstance(x, ast.Attribute):
      x = x.value
    if isinstance(x, ast.Name):
      return v
  return None


def class_constants(repo):
  """Replace reads `self.name` / `cls.name` / `ClassName.name` of simple class-level bindings that nothing stores."""
  n = 0
  changed_modules = set()
  for c in repo.classes.values():
    stored = set()
    for sub in ast.walk(c.node):
      if isinstance(sub, ast.Attribute) and isinstance(sub.ctx, (ast.Store, ast.Del)):
        stored.add(sub.attr)
      if isinstance(sub, ast.Call) and isinstance(sub.func, ast.Name) and sub.func.id in ('setattr', 'delattr') and len(sub.args) >= 2:
        if isinstance(sub.args[1], ast.Constant) and isinstance(sub.args[1].value, str):
          stored.add(sub.args[1].value)
        else:
          stored.add('*')
    if '*' in stored:
      # setattr(self, <computed name>, v): in a dataclass the computed names are taken to be its fields (the validators
      # normalise the fields they are called for); elsewhere nothing is known about what is stored
      if not c.is_dataclass:
        continue
      stored |= set(c.annotations)
    # stores from outside the class (obj.name = ...) count as well
    for m in repo.modules.values():
      for sub in ast.walk(m.tree):
        if isinstance(sub, ast.Attribute) and isinstance(sub.ctx, (ast.Store, ast.Del)):
          stored.add(sub.attr)
    consts = {}
    for st in c.node.body:
      name = None
      if isinstance(st, ast.Assign) and len(st.targets) == 1 and isinstance(st.targets[0], ast.Name):
        name = st.targets[0].id
      elif isinstance(st, ast.AnnAssign) and isinstance(st.target, ast.Name) and st.value is not None \
          and (not c.is_dataclass or 'ClassVar' in norm(st.annotation)):
        name = st.target.id           # an annotated class attribute of a plain class (in a dataclass it would be a field)
      if name is not None:
        v = _simple_value(st.value)
        if v is not None and name not in stored and name not in c.methods and name not in c.getters and not (name.startswith('__') and name.endswith('__')):
          # a Name value must be resolvable where it is substituted: a module-level name or builtin, not another class attribute
          if isinstance(v, ast.Name) and v.id in c.attrs:
            continue
          consts[name] = v
    if not consts:
      continue
    for fn in [x for x in ast.walk(c.node) if isinstance(x, (ast.FunctionDef, ast.AsyncFunctionDef))]:
      recv = {a.arg for a in (fn.args.posonlyargs + fn.args.args)[:1]} | {c.name}

      def sub_(x, recv=recv):
        nonlocal n
        if isinstance(x, ast.Attribute) and isinstance(x.ctx, ast.Load) and isinstance(x.value, ast.Name) and x.value.id in recv and x.attr in consts:
          n += 1
          return ast.copy_location(dataflow.clone(consts[x.attr]), x)
        return dataflow._map_children(x, sub_)
      fn.body = [sub_(s_) for s_ in fn.body]
      changed_modules.add(c.module.name)
  for mn in changed_modules:
    m = repo.modules[mn]
    ast.fix_missing_locations(m.tree)
    for p_ in ast.walk(m.tree):
      for ch in ast.iter_child_nodes(p_):
        ch._parent = p_
  return n


def _const_test(e):
  """Truth value of a test made constant by the substitutions (None is None, not None, 'x' is not None, None or X ...)."""
  if isinstance(e, ast.Constant):
    return bool(e.value)
  if isinstance(e, ast.UnaryOp) and isinstance(e.op, ast.Not):
    v = _const_test(e.operand)
    return None if v is None else not v
  if isinstance(e, ast.Call) and isinstance(e.func, ast.Name) and e.func.id == 'isinstance' and len(e.args) == 2 and isinstance(e.args[0], ast.Constant) \
      and isinstance(e.args[1], ast.Name) and e.args[1].id in ('str', 'int', 'float', 'bool', 'bytes'):
    v = e.args[0].value
    if v is None:
      return False
    return isinstance(v, {'str': str, 'int': int, 'float': float, 'bool': bool, 'bytes': bytes}[e.args[1].id])
  if isinstance(e, ast.Call) and isinstance(e.func, ast.Name) and e.func.id == 'callable' and len(e.args) == 1 and isinstance(e.args[0], ast.Constant):
    return False
  if isinstance(e, ast.Compare) and len(e.ops) == 1 and isinstance(e.ops[0], (ast.Is, ast.IsNot)) and isinstance(e.left, ast.Constant) \
      and isinstance(e.comparators[0], ast.Constant):
    same = (e.left.value is None) == (e.comparators[0].value is None) and (e.left.value is None or e.left.value == e.comparators[0].value)
    if e.left.value is None or e.comparators[0].value is None:
      same = (e.left.value is None) and (e.comparators[0].value is None)
      return same if isinstance(e.ops[0], ast.Is) else not same
  return None


def _fold_expr(e):
  if not isinstance(e, ast.AST) or isinstance(e, (ast.FunctionDef, ast.AsyncFunctionDef, ast.ClassDef)):
    return e
  e = dataflow._map_children(e, _fold_expr)
  if isinstance(e, ast.IfExp):
    v = _const_test(e.test)
    if v is not None:
      return e.body if v else e.orelse
  if isinstance(e, ast.BoolOp) and isinstance(e.values[0], ast.Constant) and e.values[0].value is None and len(e.values) == 2:
    return e.values[1] if isinstance(e.op, ast.Or) else e.values[0]
  return e


def _fold_block(stmts, body=True):
  out = []
  for st in stmts:
    if isinstance(st, (ast.FunctionDef, ast.AsyncFunctionDef, ast.ClassDef)):
      out.append(st)
      continue
    for fld, val in list(ast.iter_fields(st)):
      if fld in ('body', 'orelse', 'finalbody', 'handlers'):
        continue
      if isinstance(val, ast.AST):
        setattr(st, fld, _fold_expr(val))
      elif isinstance(val, list):
        setattr(st, fld, [_fold_expr(x) if isinstance(x, ast.AST) else x for x in val])
    for fld in ('body', 'orelse', 'finalbody'):
      if hasattr(st, fld) and isinstance(getattr(st, fld), list):
        setattr(st, fld, _fold_block(getattr(st, fld), body=(fld == 'body')))
    if isinstance(st, ast.Try):
      for hd in st.handlers:
        hd.body = _fold_block(hd.body)
    if isinstance(st, ast.Assign) and len(st.targets) == 1 and isinstance(st.targets[0], ast.Name) and isinstance(st.value, ast.Name) \
        and st.targets[0].id == st.value.id:
      continue            # x = x  (left behind when a helper that hands its argument back was inlined)
    if isinstance(st, ast.If):
      v = _const_test(st.test)
      if v is not None:
        out += [x for x in (st.body if v else st.orelse) if not isinstance(x, ast.Pass)]
        continue
    out.append(st)
  return out or ([ast.Pass()] if body else [])


def keyword_defaults(repo):
  """Keyword-only parameters with a constant default that no call in the package supplies are replaced by the default;
  a call that writes the default explicitly (f(x, kw=None) after `kw` itself was replaced in the caller) does not count
  as supplying it.  Iterated, since one substitution can turn the next call into such a call."""
  total = 0
  for _round in range(4):
    dropped = _drop_default_keywords(repo)
    n = _keyword_defaults_once(repo)
    total += n
    if not n and not dropped:
      break
  return total


def _drop_default_keywords(repo):
  defaults = {}
  for m in repo.modules.values():
    for fn in [x for x in ast.walk(m.tree) if isinstance(x, (ast.FunctionDef, ast.AsyncFunctionDef))]:
      names_ = {fn.name}
      par_ = getattr(fn, '_parent', None)
      if fn.name == '__init__' and isinstance(par_, ast.ClassDef):
        names_.add(par_.name)
      for p, d in zip(fn.args.kwonlyargs, fn.args.kw_defaults):
        for nm in names_:
          defaults.setdefault((nm, p.arg), []).append(d)
  n = 0
  for m in repo.modules.values():
    for sub in ast.walk(m.tree):
      if isinstance(sub, ast.Call) and sub.keywords:
        fn_ = sub.func
        cname = fn_.attr if isinstance(fn_, ast.Attribute) else (fn_.id if isinstance(fn_, ast.Name) else None)
        keep = []
        for k in sub.keywords:
          ds = defaults.get((cname, k.arg))
          if k.arg is not None and ds and all(isinstance(d, ast.Constant) for d in ds) and isinstance(k.value, ast.Constant) \
              and all(type(d.value) is type(k.value.value) and d.value == k.value.value for d in ds):
            n += 1
            continue
          keep.append(k)
        sub.keywords = keep
  return n


def _keyword_defaults_once(repo):
  supplied = set()       # (callee name, keyword) pairs that some call in the package writes; ('*', name) for computed callees / **kwargs
  for m in repo.modules.values():
    for sub in ast.walk(m.tree):
      if isinstance(sub, ast.Call):
        fn_ = sub.func
        cname = fn_.attr if isinstance(fn_, ast.Attribute) else (fn_.id if isinstance(fn_, ast.Name) else '*')
        for k in sub.keywords:
          if k.arg is None:
            supplied.add((cname, None))
          else:
            supplied.add((cname, k.arg))
            if cname == '*':
              supplied.add(('*', k.arg))
  n = 0
  changed = set()
  for m in repo.modules.values():
    for fn in [x for x in ast.walk(m.tree) if isinstance(x, (ast.FunctionDef, ast.AsyncFunctionDef))]:
      a = fn.args
      cands = {}
      for p, d in zip(a.kwonlyargs, a.kw_defaults):
        names_ = {fn.name} | ({'__call__'} if fn.name == '__call__' else set())
        # the constructor is called under the name of its class
        par_ = getattr(fn, '_parent', None)
        if fn.name == '__init__' and isinstance(par_, ast.ClassDef):
          names_.add(par_.name)
        if d is not None and isinstance(d, ast.Constant) and not any((n_, p.arg) in supplied or (n_, None) in supplied for n_ in names_) \
            and ('*', p.arg) not in supplied:
          cands[p.arg] = d
      if not cands:
        continue
      rebound = {x.id for x in ast.walk(fn) if isinstance(x, ast.Name) and isinstance(x.ctx, (ast.Store, ast.Del))}
      nested_params = {y.arg for x in ast.walk(fn) if isinstance(x, (ast.FunctionDef, ast.Lambda)) and x is not fn
                       for y in x.args.args + x.args.kwonlyargs + x.args.posonlyargs}
      # `x = default if x is None else x` style re-binding is the idiom itself: a parameter assigned only from an expression
      # that the substitution makes constant-foldable is substituted in that right-hand side and then treated as a local
      fixed = {k: v for k, v in cands.items() if k not in nested_params}
      if not fixed:
        continue

      first_store = {}
      for st in fn.body:
        for x in ast.walk(st):
          if isinstance(x, ast.Name) and isinstance(x.ctx, ast.Store) and x.id in fixed and x.id not in first_store:
            first_store[x.id] = st

      def sub_(x, active):
        nonlocal n
        if isinstance(x, ast.Name) and isinstance(x.ctx, ast.Load) and x.id in active:
          n += 1
          return ast.copy_location(dataflow.clone(fixed[x.id]), x)
        if isinstance(x, (ast.FunctionDef, ast.AsyncFunctionDef, ast.Lambda, ast.ClassDef)) and x is not fn:
          return x
        return dataflow._map_children(x, lambda y: sub_(y, active))
      active = set(fixed)
      new_body = []
      for st in fn.body:
        # the statement that first re-binds a parameter still reads its default on the right-hand side
        st2 = sub_(st, active) if not isinstance(st, (ast.FunctionDef, ast.ClassDef)) else st
        new_body.append(st2)
        for k_, s_ in first_store.items():
          if s_ is st:
            active.discard(k_)
      fn.body = _fold_block(new_body)
      changed.add(m.name)
  for mn in changed:
    m = repo.modules[mn]
    ast.fix_missing_locations(m.tree)
    for p_ in ast.walk(m.tree):
      for ch in ast.iter_child_nodes(p_):
        ch._parent = p_
  return n


def has_const_test(node):
  for x in ast.walk(node):
    if isinstance(x, ast.Assign) and len(x.targets) == 1 and isinstance(x.targets[0], ast.Name) and isinstance(x.value, ast.Name) and x.targets[0].id == x.value.id:
      return True
    if isinstance(x, (ast.If, ast.IfExp)) and _const_test(x.test) is not None:
      return True
  return False


def enum_values(repo):
  """`Kind.MEMBER.value` -> the constant, for enumerations defined in the package (a class deriving from enum.Enum /
  IntEnum / Flag whose member is bound to a constant at class level): an internal code written as an enumeration
  member instead of a string literal is the same code.  Comparisons of members by identity stay symbolic."""
  n = 0
  enums = {}
  for c in repo.classes.values():
    if any(b.split('.')[-1] in ('Enum', 'IntEnum', 'StrEnum', 'Flag', 'IntFlag') for b in c.bases):
      members = {k: v for k, v in c.attrs.items() if isinstance(v, ast.Constant) and not k.startswith('_')}
      if members:
        enums[c.qualname] = (c, members)
  if not enums:
    return 0
  changed = set()
  for m in repo.modules.values():
    def sub_(x):
      nonlocal n
      if isinstance(x, ast.Attribute) and x.attr == 'value' and isinstance(x.ctx, ast.Load) and isinstance(x.value, ast.Attribute) \
          and isinstance(x.value.value, (ast.Name, ast.Attribute)):
        try:
          r = repo.resolve_dotted(m, core.dotted(x.value.value))
        except Exception:
          r = None
        if r and r[0] == 'class' and r[1].qualname in enums and x.value.attr in enums[r[1].qualname][1]:
          n += 1
          changed.add(m.name)
          return ast.copy_location(dataflow.clone(enums[r[1].qualname][1][x.value.attr]), x)
      return dataflow._map_children(x, sub_)
    for st in m.tree.body:
      if isinstance(st, (ast.FunctionDef, ast.AsyncFunctionDef, ast.ClassDef)):
        st.body = [sub_(s_) for s_ in st.body]
  for mn in changed:
    t = repo.modules[mn].tree
    ast.fix_missing_locations(t)
    for p_ in ast.walk(t):
      for ch in ast.iter_child_nodes(p_):
        ch._parent = p_
  return n


def fold_enum_values_in(repo, module, node):
  """`Kind.MEMBER.value` -> its constant inside one statement (used after a loop over an enumeration was unrolled)."""
  def sub_(x):
    if isinstance(x, ast.Attribute) and x.attr in ('value', 'name') and isinstance(x.ctx, ast.Load) and isinstance(x.value, ast.Attribute) \
        and isinstance(x.value.value, (ast.Name, ast.Attribute)):
      try:
        r = repo.resolve_dotted(module, core.dotted(x.value.value))
      except Exception:
        r = None
      if r and r[0] == 'class' and any(b.split('.')[-1] in ('Enum', 'IntEnum', 'StrEnum', 'Flag', 'IntFlag') for b in r[1].bases):
        if x.attr == 'name' and x.value.attr in r[1].attrs:
          return ast.copy_location(ast.Constant(value=x.value.attr), x)
        v = r[1].attrs.get(x.value.attr)
        if x.attr == 'value' and isinstance(v, ast.Constant):
          return ast.copy_location(dataflow.clone(v), x)
    return dataflow._map_children(x, sub_)
  return sub_(node)


_VALUE_ANNOTATIONS = ('int', 'float', 'bool', 'str', 'OptionalFloat', 'OptionalInt', 'OptionalRange', 'Optional[int]', 'Optional[float]', 'Optional[str]')


def copies_of_value_fields(repo):
  """copy.copy(p.f) / copy.deepcopy(p.f) / tuple(p.f)  ->  p.f   when f is a field of a dataclass of the package whose
  annotation says it holds a number, a string, None or a tuple of numbers (the design parameters): a copy of an immutable
  value is that value (`tuple(t)` of a tuple is t itself).  `tuple(..)` only for the tuple-valued fields.  A defensive
  copy taken by an "observability" refactoring reads the same thing."""
  value_fields, tuple_fields, other = set(), set(), set()
  for c in repo.classes.values():
    for n_, a_ in c.annotations.items():
      t = norm(a_)
      if c.is_dataclass and (t in _VALUE_ANNOTATIONS or t.startswith('Tuple[') or t.startswith('Optional[Tuple[')):
        value_fields.add(n_)
        if 'Range' in t or 'Tuple' in t:
          tuple_fields.add(n_)
      else:
        other.add(n_)
    # attributes stored by methods under the same name in classes that are not such dataclasses
    if not c.is_dataclass:
      for x in ast.walk(c.node):
        if isinstance(x, ast.Attribute) and isinstance(x.ctx, ast.Store):
          other.add(x.attr)
  value_fields -= other
  tuple_fields -= other
  if not value_fields:
    return 0
  n = 0
  changed = set()
  for m in repo.modules.values():
    def sub_(x):
      nonlocal n
      if isinstance(x, ast.Call) and len(x.args) == 1 and not x.keywords and isinstance(x.args[0], ast.Attribute) and isinstance(x.args[0].ctx, ast.Load):
        fn = norm(x.func)
        a = x.args[0]
        if (fn in ('copy.copy', 'copy.deepcopy') and a.attr in value_fields) or (fn == 'tuple' and a.attr in tuple_fields):
          n += 1
          changed.add(m.name)
          return sub_(a)
      return dataflow._map_children(x, sub_)
    for st in m.tree.body:
      if isinstance(st, (ast.FunctionDef, ast.AsyncFunctionDef, ast.ClassDef)):
        st.body = [sub_(s_) for s_ in st.body]
    # v = p.f ... if v is not None: v = tuple(v) / copy.copy(v)   (v bound only by these two statements): the second is a no-op
    for fn_ in [x for x in ast.walk(m.tree) if isinstance(x, (ast.FunctionDef, ast.AsyncFunctionDef))]:
      stores = {}
      for x in ast.walk(fn_):
        if isinstance(x, ast.Assign) and len(x.targets) == 1 and isinstance(x.targets[0], ast.Name):
          stores.setdefault(x.targets[0].id, []).append(x)
        elif isinstance(x, ast.Name) and isinstance(x.ctx, ast.Store) and not (isinstance(getattr(x, '_parent', None), ast.Assign) and len(x._parent.targets) == 1 and x._parent.targets[0] is x):
          stores.setdefault(x.id, []).append(None)

      def noop_copy(st_, stores=stores):
        if not (isinstance(st_, ast.If) and not st_.orelse and isinstance(st_.test, ast.Compare) and len(st_.test.ops) == 1
                and isinstance(st_.test.ops[0], ast.IsNot) and isinstance(st_.test.left, ast.Name)
                and isinstance(st_.test.comparators[0], ast.Constant) and st_.test.comparators[0].value is None):
          return False
        v = st_.test.left.id
        body = [b for b in st_.body if not isinstance(b, ast.Assert)]
        if len(body) != 1 or not (isinstance(body[0], ast.Assign) and len(body[0].targets) == 1 and isinstance(body[0].targets[0], ast.Name)
                                  and body[0].targets[0].id == v and isinstance(body[0].value, ast.Call) and len(body[0].value.args) == 1
                                  and isinstance(body[0].value.args[0], ast.Name) and body[0].value.args[0].id == v and not body[0].value.keywords):
          return False
        fnm = norm(body[0].value.func)
        defs = [d for d in stores.get(v, []) if d is not body[0]]
        if len(defs) != 1 or defs[0] is None or not isinstance(defs[0].value, ast.Attribute):
          return False
        fld = defs[0].value.attr
        return (fnm in ('copy.copy', 'copy.deepcopy') and fld in value_fields) or (fnm == 'tuple' and fld in tuple_fields)

      def blk(stmts):
        nonlocal n
        out = []
        for st_ in stmts:
          if isinstance(st_, (ast.FunctionDef, ast.AsyncFunctionDef, ast.ClassDef)):
            out.append(st_)
            continue
          for fld_ in ('body', 'orelse', 'finalbody'):
            if hasattr(st_, fld_) and isinstance(getattr(st_, fld_), list):
              setattr(st_, fld_, blk(getattr(st_, fld_)) or ([ast.Pass()] if fld_ == 'body' else []))
          if isinstance(st_, ast.Try):
            for hd in st_.handlers:
              hd.body = blk(hd.body) or [ast.Pass()]
          if noop_copy(st_):
            n += 1
            changed.add(m.name)
            continue
          out.append(st_)
        return out
      fn_.body = blk(fn_.body) or [ast.Pass()]
  for mn in changed:
    t = repo.modules[mn].tree
    ast.fix_missing_locations(t)
    for p_ in ast.walk(t):
      for ch in ast.iter_child_nodes(p_):
        ch._parent = p_
  return n
