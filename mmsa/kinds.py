"""Numeric kinds (Python number vs NumPy/pandas value) and integer lower bounds.

kind(expr) in {'py', 'np', None}: 'py' = certainly a Python int/float (division
by zero raises ZeroDivisionError), 'np' = a NumPy scalar/array or pandas object
(division gives inf/nan with a warning, no exception), None = unknown.
"""
import ast

from mmsa import au, canon
from mmsa.core import norm, walk_no_nested
from mmsa.types import FuncCtx

NP_METHODS = {'sum', 'mean', 'std', 'var', 'max', 'min', 'cumsum', 'dot', 'prod', 'ppf', 'cdf', 'pdf', 'flatten', 'reshape',
              'to_numpy', 'sort_values', 'median', 'quantile', 'abs', 'astype', 'corr', 'item_np'}
PY_FUNCS = {'len', 'int', 'float', 'round', 'bool', 'ord'}


class Kinds:

  def __init__(self, repo, types):
    self.repo = repo
    self.T = types
    self._ret = {}
    self._field = {}
    self._busy = set()
    self._sites = None
    self._ctor_sites = None
    self._value_names = None

  # -- call sites over the whole package (for parameters of private helpers and fields of value classes) --
  def _all_functions(self):
    out = []
    work = list(self.repo.functions.values())
    while work:
      g = work.pop()
      out.append(g)
      work.extend(g.nested.values())
    return out

  def site_index(self):
    if self._sites is None:
      self._sites, self._ctor_sites, self._value_names = {}, {}, set()
      for g in self._all_functions():
        ctx = FuncCtx.of(g)
        for n in ctx.g.nodes:
          for e in ctx.node_exprs(n):
            callfuncs = set()
            for sub in walk_no_nested(e):
              if isinstance(sub, ast.Call):
                callfuncs.add(id(sub.func))
                t = self.T.callee(g, sub, n)
                if t and t[0] == 'func':
                  self._sites.setdefault(t[1].qualname, []).append((g, sub, n))
                elif t and t[0] == 'class':
                  self._ctor_sites.setdefault(t[1].qualname, []).append((g, sub, n))
            for sub in walk_no_nested(e):
              if id(sub) in callfuncs:
                continue
              if isinstance(sub, ast.Name) and isinstance(sub.ctx, ast.Load):
                self._value_names.add(sub.id)
              elif isinstance(sub, ast.Attribute) and isinstance(sub.ctx, ast.Load):
                self._value_names.add(sub.attr)
    return self._sites

  def _arg_at(self, call, idx, name):
    if any(isinstance(a, ast.Starred) for a in call.args) or any(k.arg is None for k in call.keywords):
      return None
    if 0 <= idx < len(call.args):
      return call.args[idx]
    return au.kwarg(call, name)

  def kind(self, f, e, at=None, depth=60):
    if depth <= 0 or e is None:
      return None
    ctx = FuncCtx.of(f)
    at = at or ctx.node_at(e)
    if isinstance(e, ast.Constant):
      if isinstance(e.value, (int, float)) and not isinstance(e.value, bool):
        return 'py'
      return None
    if isinstance(e, ast.UnaryOp):
      return self.kind(f, e.operand, at, depth - 1)
    if isinstance(e, ast.BinOp):
      l, r = self.kind(f, e.left, at, depth - 1), self.kind(f, e.right, at, depth - 1)
      if 'np' in (l, r):
        return 'np'
      if l == 'py' and r == 'py':
        return 'py'
      return None
    if isinstance(e, ast.IfExp):
      a, b = self.kind(f, e.body, at, depth - 1), self.kind(f, e.orelse, at, depth - 1)
      return a if a == b else None
    if isinstance(e, ast.Call):
      fn = e.func
      if isinstance(fn, ast.Name):
        if fn.id in PY_FUNCS:
          if fn.id == 'round' and e.args and self.kind(f, e.args[0], at, depth - 1) == 'np':
            return 'np'
          return 'py'
        if fn.id in ('max', 'min', 'abs', 'sum'):
          ks = [self.kind(f, a, at, depth - 1) for a in e.args]
          if ks and all(k == 'py' for k in ks):
            return 'py'
          if 'np' in ks:
            return 'np'
          return None
      ln = au.lib_name(f.module, fn) or ''
      if ln.startswith(('numpy.', 'scipy.', 'pandas.')):
        return 'np'
      t = self.T.callee(f, e, at)
      if t and t[0] == 'func':
        return self.returns(t[1], depth - 1)
      if isinstance(fn, ast.Attribute) and fn.attr in NP_METHODS:
        return 'np'
      return None
    if isinstance(e, ast.Attribute):
      if norm(e) in ('np.nan', 'np.inf', 'np.pi', 'np.e', 'math.pi', 'math.inf', 'math.nan', 'math.e', 'numpy.nan', 'numpy.inf'):
        return 'py'     # plain Python floats
      base = self.T.type_of(f, e.value, at)
      if base is None:
        # field of a namedtuple value whose construction site is visible: pretestfit.sigma
        el = self.tuple_elems(f, e.value, at, depth - 1)
        flds = self._nt_fields(f, e.value, at, depth - 1)
        if el is not None and flds is not None and e.attr in flds and flds.index(e.attr) < len(el):
          g_, x_ = el[flds.index(e.attr)]
          return self.kind(g_, x_, None, depth - 1)
        # field of a parameter annotated with a namedtuple type: what every construction site passes
        args = self.T.nt_attr_args(f, e, at)
        if args:
          key = ('ntfield', norm(e), f.qualname)
          if key in self._busy:
            return None
          if True:
            self._busy.add(key)
            ks = {self.kind(g_, a_, n_, depth - 1) for g_, a_, n_ in args}
            self._busy.discard(key)
            return ks.pop() if len(ks) == 1 else None
      if base is not None:
        if base.qualname == 'tbrmmdesignparameters.TBRMMDesignParameters':
          return 'py'    # validated isinstance(value, int/float) (C17.R2)
        if e.attr in base.getters:
          return self.returns(base.getters[e.attr], depth - 1)
        return self.field(base, e.attr, depth - 1)
      return None
    if isinstance(e, ast.Subscript):
      base = self.T.type_of(f, e.value, at)
      v = e.value
      # parameter tuples: budget_range[1] etc.
      if isinstance(v, ast.Attribute):
        b2 = self.T.type_of(f, v.value, at)
        if b2 is not None and b2.qualname == 'tbrmmdesignparameters.TBRMMDesignParameters':
          return 'py'
      if isinstance(v, ast.Name) and at is not None:
        ds = ctx.rd.defs_at(at, v.id)
        if ds and all(d.how == 'assign' and d.value is not None and self._is_param_field(f, d.value, d.node) for d in ds):
          return 'py'
      k = self.kind(f, v, at, depth - 1)
      return 'np' if k == 'np' else None
    if isinstance(e, ast.Name):
      if at is None:
        return None
      ds = ctx.rd.defs_at(at, e.id)
      if not ds:
        return None
      ks = set()
      for d in ds:
        if d.how == 'assign' and d.value is not None:
          ks.add(self.kind(f, d.value, d.node, depth - 1))
        elif d.how == 'iter':
          ks.add(self.elem_kind(f, d.value, d.node, depth - 1))
        elif d.how == 'param':
          ks.add(self.param_kind(f, e.id))
        elif d.how == 'unpack' and d.index is not None and d.value is not None:
          el = self.tuple_elems(f, d.value, d.node, depth - 1)
          if el is not None and -len(el) <= d.index < len(el):
            ks.add(self.kind(el[d.index][0], el[d.index][1], None, depth - 1))
          else:
            ks.add(None)
        else:
          ks.add(None)
      return ks.pop() if len(ks) == 1 else None
    return None

  def tuple_elems(self, f, e, at, depth):
    """[(function, element expr)] when `e` evaluates to a tuple / namedtuple whose
    construction site is unique and visible, else None."""
    if depth <= 0 or e is None:
      return None
    if isinstance(e, ast.Tuple):
      return [(f, x) for x in e.elts]
    if isinstance(e, ast.Call) and isinstance(e.func, ast.Name) and e.func.id in ('tuple', 'list') and len(e.args) == 1 and not e.keywords:
      return self.tuple_elems(f, e.args[0], at, depth - 1)      # tuple(score): the same elements
    if isinstance(e, ast.Call):
      d = norm(e.func)
      v = f.module.assigns.get(d)
      if v is not None and isinstance(v, ast.Call) and norm(v.func).endswith('namedtuple'):
        e2 = canon.of(self.repo).expr(e)      # keyword construction -> positional, in field order
        if not e2.keywords:
          return [(f, x) for x in e.args] if not e.keywords else [(f, _orig_arg(e, x)) for x in e2.args]
      t = self.T.callee(f, e, at)
      if t and t[0] == 'func':
        return self._ret_elems(t[1], depth - 1)
      return None
    if isinstance(e, ast.Attribute):
      if norm(e) in ('np.nan', 'np.inf', 'np.pi', 'np.e', 'math.pi', 'math.inf', 'math.nan', 'math.e', 'numpy.nan', 'numpy.inf'):
        return 'py'     # plain Python floats
      base = self.T.type_of(f, e.value, at)
      if base is None:
        return None
      if e.attr in base.getters:
        return self._ret_elems(base.getters[e.attr], depth - 1)
      return self._field_elems(base, e.attr, depth - 1)
    if isinstance(e, ast.Name) and at is not None:
      d = FuncCtx.of(f).rd.single_def(at, e.id)
      if d is not None and d.how == 'assign' and d.value is not None:
        return self.tuple_elems(f, d.value, d.node, depth - 1)
    return None

  def _nt_fields(self, f, e, at, depth):
    """Field names of the namedtuple type whose constructor call produces `e` (all visible sites agreeing)."""
    if depth <= 0 or e is None:
      return None
    if isinstance(e, ast.Call):
      name = norm(e.func).split('.')[-1]
      v = f.module.assigns.get(name)
      if v is not None and isinstance(v, ast.Call) and norm(v.func).endswith('namedtuple'):
        return canon.of(self.repo).sigs.get(name)
      t = self.T.callee(f, e, at)
      if t and t[0] == 'func':
        return self._nt_fields_of_returns(t[1], depth - 1)
      return None
    if isinstance(e, ast.Attribute):
      base = self.T.type_of(f, e.value, at)
      if base is not None and e.attr in base.getters:
        return self._nt_fields_of_returns(base.getters[e.attr], depth - 1)
      if base is not None:
        out = set()
        for g in base.all_functions():
          sn = g.params[0] if g.params else None
          for s in walk_no_nested(g.node):
            if isinstance(s, ast.Assign) and not au.is_const(s.value, None):
              for t in s.targets:
                if isinstance(t, ast.Attribute) and isinstance(t.value, ast.Name) and t.value.id == sn and t.attr == e.attr:
                  r = self._nt_fields(g, s.value, FuncCtx.of(g).node_at(s), depth - 1)
                  out.add(tuple(r) if r else None)
        return list(next(iter(out))) if len(out) == 1 and None not in out else None
      return None
    if isinstance(e, ast.Name) and at is not None:
      d = FuncCtx.of(f).rd.single_def(at, e.id)
      if d is not None and d.how == 'assign' and d.value is not None:
        return self._nt_fields(f, d.value, d.node, depth - 1)
    return None

  def _nt_fields_of_returns(self, g, depth):
    key = ('ntf', g.qualname)
    if key in self._busy:
      return None
    self._busy.add(key)
    out = set()
    for s in walk_no_nested(g.node):
      if isinstance(s, ast.Return) and s.value is not None and not au.is_const(s.value, None):
        r = self._nt_fields(g, s.value, FuncCtx.of(g).node_at(s), depth - 1)
        out.add(tuple(r) if r else None)
    self._busy.discard(key)
    return list(next(iter(out))) if len(out) == 1 and None not in out else None

  def _ret_elems(self, g, depth):
    key = ('relems', g.qualname)
    if key in self._busy:
      return None
    self._busy.add(key)
    shapes = []
    for s in walk_no_nested(g.node):
      if isinstance(s, ast.Return) and s.value is not None and not au.is_const(s.value, None):
        shapes.append(self.tuple_elems(g, s.value, FuncCtx.of(g).node_at(s), depth - 1))
    self._busy.discard(key)
    shapes = [x for x in shapes]
    if not shapes or any(x is None for x in shapes):
      return None
    # several construction sites: keep those that agree in length; kinds are joined by the caller through `kind`
    if len({len(x) for x in shapes}) != 1:
      return None
    if len(shapes) == 1:
      return shapes[0]
    # all sites must agree on kind per position -> synthesise by picking the first if kinds agree
    out = []
    for i in range(len(shapes[0])):
      ks = {self.kind(sh[i][0], sh[i][1], None, depth - 1) for sh in shapes}
      if len(ks) != 1:
        return None
      out.append(shapes[0][i])
    return out

  def _field_elems(self, cls, name, depth):
    shapes = []
    for g in cls.all_functions():
      sn = g.params[0] if g.params else None
      for s in walk_no_nested(g.node):
        if isinstance(s, ast.Assign) and not au.is_const(s.value, None):
          for t in s.targets:
            if isinstance(t, ast.Attribute) and isinstance(t.value, ast.Name) and t.value.id == sn and t.attr == name:
              shapes.append(self.tuple_elems(g, s.value, FuncCtx.of(g).node_at(s), depth - 1))
    if len(shapes) == 1:
      return shapes[0]
    if getattr(self, 'may', False):
      # may-analysis (units): one visible construction is a possible value of the field, whatever the other stores put there
      known = [x for x in shapes if x is not None]
      if known and len({len(x) for x in known}) == 1:
        return known[0]
    return None

  def _is_param_field(self, f, e, at):
    if isinstance(e, ast.Attribute):
      b = self.T.type_of(f, e.value, at)
      return b is not None and b.qualname == 'tbrmmdesignparameters.TBRMMDesignParameters'
    return False

  def param_kind(self, f, name, depth=20):
    for a in f.node.args.posonlyargs + f.node.args.args + f.node.args.kwonlyargs:
      if a.arg == name and a.annotation is not None and norm(a.annotation) == 'int':
        return 'py'
    # a private helper (or a nested function) that is only ever called: the kind its callers pass, when they agree
    private = f.outer is not None or (f.name.startswith('_') and not f.name.startswith('__'))
    if not private or f.kind in ('getter', 'setter') or f.node.args.vararg or depth <= 0:
      return None
    key = ('param', f.qualname, name)
    if key in self._ret:
      return self._ret[key]
    if key in self._busy:
      return None
    sites = self.site_index().get(f.qualname, [])
    if not sites or f.name in self._value_names:
      return None
    if name not in f.params:
      return None
    self._busy.add(key)
    idx = f.params.index(name) - (1 if f.kind in ('method', 'classmethod') else 0)
    defaults = {}
    pos = f.node.args.posonlyargs + f.node.args.args
    for a, d in zip(pos[len(pos) - len(f.node.args.defaults):], f.node.args.defaults):
      defaults[a.arg] = d
    for a, d in zip(f.node.args.kwonlyargs, f.node.args.kw_defaults):
      if d is not None:
        defaults[a.arg] = d
    ks = set()
    for g, call, n in sites:
      a = self._arg_at(call, idx, name)
      if a is None and name in defaults and not any(isinstance(x, ast.Starred) for x in call.args) and all(k.arg for k in call.keywords):
        ks.add(self.kind(f, defaults[name], None, depth - 1) if isinstance(defaults[name], ast.Constant) else None)
      elif a is None:
        ks.add(None)
      else:
        ks.add(self.kind(g, a, n, depth - 1))
    self._busy.discard(key)
    r = ks.pop() if len(ks) == 1 else None
    self._ret[key] = r
    return r

  def elem_kind(self, f, it, at, depth):
    """Kind of the elements of an iterated expression."""
    if isinstance(it, ast.Call):
      fn = it.func
      if isinstance(fn, ast.Name) and fn.id == 'range':
        return 'py'
      if isinstance(fn, ast.Name) and fn.id in ('set', 'list', 'sorted', 'tuple', 'reversed') and it.args:
        return self.elem_kind(f, it.args[0], at, depth - 1)
      t = self.T.callee(f, it, at)
      if t and t[0] == 'func':
        return self.yields(t[1], depth - 1)
    if isinstance(it, ast.Name) and at is not None:
      ctx = FuncCtx.of(f)
      d = ctx.rd.single_def(at, it.id)
      if d is not None and d.how == 'assign' and d.value is not None:
        return self.elem_kind(f, d.value, d.node, depth - 1)
    return None

  def returns(self, g, depth=40):
    key = ('ret', g.qualname)
    if key in self._ret:
      return self._ret[key]
    if key in self._busy or depth <= 0:
      return None
    self._busy.add(key)
    ks = set()
    for s in walk_no_nested(g.node):
      if isinstance(s, ast.Return) and s.value is not None and not au.is_const(s.value, None):
        ks.add(self.kind(g, s.value, None, depth - 1))
    self._busy.discard(key)
    r = ks.pop() if len(ks) == 1 else None
    self._ret[key] = r
    return r

  def yields(self, g, depth=40):
    key = ('yield', g.qualname)
    if key in self._ret:
      return self._ret[key]
    if key in self._busy or depth <= 0:
      return None
    self._busy.add(key)
    ks = set()
    for s in walk_no_nested(g.node):
      if isinstance(s, ast.Yield) and s.value is not None:
        ks.add(self.kind(g, s.value, None, depth - 1))
      if isinstance(s, ast.YieldFrom):
        ks.add(self.elem_kind(g, s.value, FuncCtx.of(g).node_at(s), depth - 1))
      if isinstance(s, ast.Return) and s.value is not None and isinstance(s.value, ast.Call) and norm(s.value.func) == 'range':
        ks.add('py')
    self._busy.discard(key)
    r = ks.pop() if len(ks) == 1 else None
    self._ret[key] = r
    return r

  def field(self, cls, name, depth=40):
    key = ('field', cls.qualname, name)
    if key in self._ret:
      return self._ret[key]
    if key in self._busy or depth <= 0:
      return None
    self._busy.add(key)
    ks = set()
    for g in cls.all_functions():
      sn = g.params[0] if g.params else None
      for s in walk_no_nested(g.node):
        if isinstance(s, ast.Assign):
          for t in s.targets:
            if isinstance(t, ast.Attribute) and isinstance(t.value, ast.Name) and t.value.id == sn and t.attr == name \
                and not au.is_const(s.value, None):
              ks.add(self.kind(g, s.value, None, depth - 1))
    if not ks and name in cls.annotations and '__init__' not in cls.methods and (cls.is_dataclass or any(b.split('.')[-1] == 'NamedTuple' for b in cls.bases)):
      # value class (NamedTuple / dataclass without its own constructor): the field is what the construction sites pass
      self.site_index()
      idx = cls.field_order.index(name)
      for g, call, n in self._ctor_sites.get(cls.qualname, []):
        a = self._arg_at(call, idx, name)
        if a is None:
          dflt = cls.attrs.get(name)
          ks.add(self.kind(g, dflt, None, depth - 1) if isinstance(dflt, ast.Constant) else None)
        else:
          ks.add(self.kind(g, a, n, depth - 1))
      # dataclasses.replace(obj, field=...) / obj._replace(field=...) also set it
      if name in self._replace_fields():
        ks.add(None)
    self._busy.discard(key)
    r = ks.pop() if len(ks) == 1 else None
    self._ret[key] = r
    return r

  def _replace_fields(self):
    if getattr(self, '_replaced', None) is None:
      self._replaced = set()
      for g in self._all_functions():
        for sub in ast.walk(g.node):
          if isinstance(sub, ast.Call) and norm(sub.func).split('.')[-1] in ('replace', '_replace'):
            for k in sub.keywords:
              self._replaced.add(k.arg)
    return self._replaced


def _orig_arg(call, x):
  """The node of the original call `call` that the canonicalised argument x was cloned from (same source position)."""
  for a in list(call.args) + [k.value for k in call.keywords]:
    if norm(a) == norm(x) and getattr(a, 'lineno', None) == getattr(x, 'lineno', None) \
        and getattr(a, 'col_offset', None) == getattr(x, 'col_offset', None):
      return a
  return x
