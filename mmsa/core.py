"""Loader and resolver: parses /repo, indexes modules, classes, functions.

Anchors are resolved by qualified name, never by line.  A vanished anchor or an
unparsable tree raises AnalysisError (mapped to exit 2 by the CLI), never a
silent pass and never a VIOLATION.
"""
import ast
import hashlib
import os

PKG_DIRS = ('matched_markets/methodology', 'matched_markets/examples')


class AnalysisError(Exception):
  """The analysis could not be carried out (anchor vanished, unknown shape)."""


class Undecided(AnalysisError):
  """A construct has a shape the rule does not understand."""


def src_of(node):
  try:
    return ast.unparse(node)
  except Exception:  # pragma: no cover
    return '<%s>' % type(node).__name__


def norm(node):
  """Normalised text of a node (position independent)."""
  return ' '.join(src_of(node).split())


class Module:

  def __init__(self, name, path, relpath, src):
    self.name = name
    self.path = path
    self.relpath = relpath
    self.src = src
    self.sha256 = hashlib.sha256(src.encode()).hexdigest()
    try:
      self.tree = ast.parse(src, filename=path)
    except SyntaxError as e:
      raise AnalysisError('cannot parse %s: %s' % (relpath, e))
    for n in ast.walk(self.tree):
      for ch in ast.iter_child_nodes(n):
        ch._parent = n
    self.tree._parent = None
    # import map: local name -> dotted target
    self.imports = {}
    self.aliases = {}  # module-level Name = dotted expr
    self.assigns = {}  # module-level Name -> value node
    for st in self.tree.body:
      if isinstance(st, ast.Import):
        for a in st.names:
          self.imports[a.asname or a.name.split('.')[0]] = a.name if a.asname else a.name.split('.')[0]
      elif isinstance(st, ast.ImportFrom):
        base = st.module
        if getattr(st, 'level', 0):
          # relative import: resolve against the package of this module
          pkg = os.path.dirname(relpath).replace(os.sep, '.').split('.')
          pkg = pkg[:len(pkg) - (st.level - 1)] if st.level > 1 else pkg
          base = '.'.join(pkg + ([st.module] if st.module else []))
        for a in st.names:
          self.imports[a.asname or a.name] = '%s.%s' % (base, a.name)
      elif isinstance(st, ast.AnnAssign) and isinstance(st.target, ast.Name) and st.value is not None:
        self.assigns[st.target.id] = st.value          # NAME: Final[str] = 'x'
        d = dotted(st.value)
        if d:
          self.aliases[st.target.id] = d
      elif isinstance(st, ast.Assign) and len(st.targets) == 1 and isinstance(st.targets[0], ast.Name):
        self.assigns[st.targets[0].id] = st.value
        d = dotted(st.value)
        if d:
          self.aliases[st.targets[0].id] = d


def dotted(node):
  """'a.b.c' for Name/Attribute chains, else None."""
  parts = []
  while isinstance(node, ast.Attribute):
    parts.append(node.attr)
    node = node.value
  if isinstance(node, ast.Name):
    parts.append(node.id)
    return '.'.join(reversed(parts))
  return None


class FuncInfo:

  def __init__(self, module, node, cls=None, kind='function', outer=None):
    self.module = module
    self.node = node
    self.cls = cls  # ClassInfo or None
    self.kind = kind  # function|method|getter|setter|static|classmethod|nested
    self.outer = outer  # enclosing FuncInfo for nested functions
    self.name = node.name
    self.nested = {}
    self.ambiguous_nested = set()      # names bound by several nested `def`s (one per branch): which one a call means depends on the path
    for st in ast.walk(node):
      if st is not node and isinstance(st, (ast.FunctionDef, ast.AsyncFunctionDef)):
        if enclosing_function(st) is node:
          if st.name in self.nested:
            self.ambiguous_nested.add(st.name)
          self.nested[st.name] = FuncInfo(module, st, cls, 'nested', self)

  @property
  def qualname(self):
    base = getattr(self, 'home_module', None).name if getattr(self, 'home_module', None) is not None else self.module.name
    if self.outer is not None:
      return '%s.<locals>.%s' % (self.outer.qualname, self.name)
    if self.cls is not None:
      base += '.' + self.cls.name
    q = '%s.%s' % (base, self.name)
    if self.kind == 'setter':
      q += '@setter'
    return q

  @property
  def params(self):
    a = self.node.args
    return [x.arg for x in a.posonlyargs + a.args + a.kwonlyargs]

  @property
  def decorators(self):
    return [norm(d) for d in self.node.decorator_list]

  def loc(self, node=None):
    node = node or self.node
    return '%s:%d' % (self.module.relpath, getattr(node, 'lineno', 0))

  def __repr__(self):
    return '<Func %s>' % self.qualname


def enclosing_function(node):
  p = getattr(node, '_parent', None)
  while p is not None and not isinstance(p, (ast.FunctionDef, ast.AsyncFunctionDef, ast.Lambda)):
    p = getattr(p, '_parent', None)
  return p


class ClassInfo:

  def __init__(self, module, node):
    self.module = module
    self.node = node
    self.name = node.name
    self.methods = {}   # name -> FuncInfo (plain / static / class)
    self.getters = {}   # property name -> FuncInfo
    self.setters = {}
    self.attrs = {}     # class-level attribute -> value node (or None)
    self.annotations = {}  # class-level annotated name -> annotation node
    self.field_order = []
    self.is_dataclass = any('dataclass' in norm(d) for d in node.decorator_list)
    self.bases = [norm(b) for b in node.bases]
    for st in node.body:
      if isinstance(st, (ast.FunctionDef, ast.AsyncFunctionDef)):
        decs = [norm(d) for d in st.decorator_list]
        if 'property' in decs:
          self.getters[st.name] = FuncInfo(module, st, self, 'getter')
        elif any(d.endswith('.setter') for d in decs):
          self.setters[st.name] = FuncInfo(module, st, self, 'setter')
        elif 'staticmethod' in decs:
          self.methods[st.name] = FuncInfo(module, st, self, 'static')
        elif 'classmethod' in decs:
          self.methods[st.name] = FuncInfo(module, st, self, 'classmethod')
        else:
          self.methods[st.name] = FuncInfo(module, st, self, 'method')
      elif isinstance(st, ast.Assign):
        for t in st.targets:
          if isinstance(t, ast.Name):
            self.attrs[t.id] = st.value
      elif isinstance(st, ast.AnnAssign) and isinstance(st.target, ast.Name):
        self.annotations[st.target.id] = st.annotation
        self.attrs[st.target.id] = st.value
        self.field_order.append(st.target.id)

  @property
  def qualname(self):
    return '%s.%s' % (self.module.name, self.name)

  def all_functions(self):
    out = list(self.methods.values()) + list(self.getters.values()) + list(self.setters.values())
    return out

  def loc(self, node=None):
    node = node or self.node
    return '%s:%d' % (self.module.relpath, getattr(node, 'lineno', 0))


class Repo:
  """Parsed view of the working tree of the repository."""

  def __init__(self, root='/repo', flatten=True):
    self.root = root
    self.modules = {}
    self.classes = {}
    self.functions = {}
    for d in PKG_DIRS:
      full = os.path.join(root, d)
      if not os.path.isdir(full):
        raise AnalysisError('package directory vanished: %s' % d)
      for fn in sorted(os.listdir(full)):
        if not fn.endswith('.py'):
          continue
        path = os.path.join(full, fn)
        with open(path, encoding='utf-8') as f:
          src = f.read()
        name = fn[:-3]
        if name == '__init__':
          continue
        m = Module(name, path, os.path.join(d, fn), src)
        self.modules[name] = m
    if flatten:
      from mmsa import decor
      for m in self.modules.values():
        # decorators defined in another module of the package and imported here
        imported = {}
        for local, target in m.imports.items():
          parts = target.split('.')
          if parts[:2] in (['matched_markets', 'methodology'], ['matched_markets', 'examples']) and len(parts) >= 3 and parts[2] in self.modules:
            om = self.modules[parts[2]]
            odefs = {s_.name: s_ for s_ in om.tree.body if isinstance(s_, ast.FunctionDef)}
            if len(parts) == 4 and parts[3] in odefs:
              imported[local] = odefs[parts[3]]
            elif len(parts) == 3:
              for n_, d_ in odefs.items():
                imported['%s.%s' % (local, n_)] = d_
        # a decorator from another module is expanded only when its wrapper reads no module-level name of its own module
        import builtins as _bi
        safe = {}
        for k_, d_ in imported.items():
          free = {x.id for x in ast.walk(d_) if isinstance(x, ast.Name) and isinstance(x.ctx, ast.Load)} \
              - {x.id for x in ast.walk(d_) if isinstance(x, ast.Name) and isinstance(x.ctx, ast.Store)} \
              - {a_.arg for x in ast.walk(d_) if isinstance(x, ast.arguments) for a_ in x.args + x.kwonlyargs + x.posonlyargs + ([x.vararg] if x.vararg else []) + ([x.kwarg] if x.kwarg else [])} \
              - {x.name for x in ast.walk(d_) if isinstance(x, ast.FunctionDef)}
          if all(hasattr(_bi, n_) or n_ in ('functools',) and 'functools' in m.imports for n_ in free):
            safe[k_] = d_
        m.logging_dropped = decor.drop_logging(m.tree)
        m.local_annotations = decor.strip_local_annotations(m.tree)
        m.decorators_expanded = decor.expand_module(m.tree, safe)
        m.branch_defs_merged = decor.merge_branch_defs(m.tree)
    for name, m in self.modules.items():
      for st in m.tree.body:
        if isinstance(st, ast.ClassDef):
          c = ClassInfo(m, st)
          self.classes[c.qualname] = c
          for f in c.all_functions():
            self.functions[f.qualname] = f
        elif isinstance(st, (ast.FunctionDef, ast.AsyncFunctionDef)):
          f = FuncInfo(m, st)
          self.functions[f.qualname] = f
    if flatten:
      self.inherited = self._flatten_hierarchy()
    # record types of the package: field order of namedtuples, NamedTuple classes and dataclasses without an __init__ /
    # __post_init__ of their own (the constructor then stores its arguments under the field names)
    from mmsa import dataflow as _df
    _df.RECORD_FIELDS.clear()
    _df.RECORD_KIND.clear()
    amb = set()
    def _reg(name_, flds_, kind_):
      if name_ in _df.RECORD_FIELDS and _df.RECORD_FIELDS[name_] != flds_:
        amb.add(name_)
      _df.RECORD_FIELDS[name_] = flds_
      _df.RECORD_KIND[name_] = kind_
    for m_ in self.modules.values():
      for n_, v_ in m_.assigns.items():
        if isinstance(v_, ast.Call) and norm(v_.func).endswith('namedtuple') and len(v_.args) == 2:
          f_ = v_.args[1]
          if isinstance(f_, (ast.List, ast.Tuple)) and all(isinstance(x_, ast.Constant) for x_ in f_.elts):
            _reg(n_, [x_.value for x_ in f_.elts], 'tuple')
          elif isinstance(f_, ast.Constant) and isinstance(f_.value, str):
            _reg(n_, f_.value.replace(',', ' ').split(), 'tuple')
    for c_ in self.classes.values():
      if any(b_.split('.')[-1] == 'NamedTuple' for b_ in c_.bases) and c_.field_order:
        _reg(c_.name, list(c_.field_order), 'tuple')
      elif c_.is_dataclass and c_.field_order and '__init__' not in c_.methods and '__post_init__' not in c_.methods \
          and not any('ClassVar' in norm(a_) or 'InitVar' in norm(a_) for a_ in c_.annotations.values()) \
          and not any(isinstance(v_, ast.Call) and 'field' in norm(v_.func) and 'init=False' in norm(v_) for v_ in c_.attrs.values() if v_ is not None):
        _reg(c_.name, list(c_.field_order), 'dataclass')
    for n_ in amb:
      _df.RECORD_FIELDS.pop(n_, None)
    from mmsa import au as _au
    _au.GLOBAL_IMPORTS.clear()
    for m_ in self.modules.values():
      for k_, t_ in m_.imports.items():
        _au.GLOBAL_IMPORTS.setdefault(k_, set()).add(t_)
    _au.CLASS_VALUE_ATTRS.clear()
    for c_ in self.classes.values():
      _au.CLASS_VALUE_ATTRS.update(n_ for n_ in c_.attrs if n_ not in c_.methods and n_ not in c_.getters)
    _au.REPO_DEFINED.clear()
    _au.REPO_DEFINED.update(f_.name for f_ in self.functions.values())
    _au.REPO_DEFINED.update(c_.name for c_ in self.classes.values())
    for c_ in self.classes.values():
      _au.REPO_DEFINED.update(c_.annotations)
      _au.REPO_DEFINED.update(c_.attrs)
      # instance fields stored by the methods of the class
      _au.REPO_DEFINED.update(x_.attr for x_ in ast.walk(c_.node) if isinstance(x_, ast.Attribute) and isinstance(x_.ctx, ast.Store)
                              and isinstance(x_.value, ast.Name) and x_.value.id in ('self', 'cls'))
    self.consulted = set()
    self.flattened = {}
    self.pinned_names = None
    self.residual_helpers = set()
    if flatten:
      import json
      from mmsa import canon, inline
      from mmsa import specialise
      self.enum_values = specialise.enum_values(self)
      self.value_copies = specialise.copies_of_value_fields(self)
      self.class_constants = specialise.class_constants(self)
      self.keyword_defaults = specialise.keyword_defaults(self)
      self.hoisted_walrus = canon.hoist_walrus_repo(self)
      self.canonicalised_calls = canon.canonicalise_repo(self)
      with open(os.path.join(os.path.dirname(os.path.abspath(__file__)), 'pinned_names.json')) as fh:
        pinned = set(json.load(fh))
      self.flattened = inline.flatten_repo(self, pinned)
      self.pinned_names = pinned
      # helpers (functions that are not anchors) still called by name from some anchor after flattening: they were not
      # inlined at that site (generators, recursion, unusual call forms) and remain part of the analysed program
      names_called = set()
      for q_, f_ in self.functions.items():
        if q_ in pinned:
          for c_ in ast.walk(f_.node):
            if isinstance(c_, ast.Call):
              names_called.add(c_.func.attr if isinstance(c_.func, ast.Attribute) else c_.func.id if isinstance(c_.func, ast.Name) else None)
            elif isinstance(c_, (ast.Attribute, ast.Name)) and isinstance(getattr(c_, 'ctx', None), ast.Load):
              names_called.add(c_.attr if isinstance(c_, ast.Attribute) else c_.id)       # passed as a value (map(self._f, xs))
      self.residual_helpers = {q_ for q_, f_ in self.functions.items() if q_ not in pinned and f_.name in names_called}
      # class-level functions are indexed per class as well: include methods
      for c_ in self.classes.values() if hasattr(self, 'classes') else ():
        for f_ in c_.all_functions():
          if f_.qualname not in pinned and f_.name in names_called:
            self.residual_helpers.add(f_.qualname)
      from mmsa import lower
      self.lowered = lower.lower_repo(self)
      # lowering (unrolled tables of method names, folded defaults) can expose calls of helpers that were hidden behind a
      # name computed from a table: inline and lower once more
      if any('unrolled' in x_ or 'folded' in x_ or 'setattr/getattr' in x_ for x_ in self.lowered):
        again = inline.flatten_repo(self, pinned)
        if again:
          for q_, hs_ in again.items():
            self.flattened[q_] = list(self.flattened.get(q_, [])) + list(hs_)
          self.lowered += lower.lower_repo(self)
      # the rewritten functions must still be well-formed Python: a malformed rewrite is a checker fault (exit 2)
      import copy as _copy
      for q_, f_ in self.functions.items():
        if getattr(f_, 'orig_node', None) is not None and f_.node is not f_.orig_node:
          try:
            mod_ = ast.Module(body=[ast.parse(ast.unparse(f_.node)).body[0]], type_ignores=[])
            compile(mod_, '<normalised %s>' % q_, 'exec')
          except Exception as ex_:     # pragma: no cover
            raise AnalysisError('normalisation produced a malformed function %s: %s' % (q_, ex_))

  def _flatten_hierarchy(self):
    """A class whose bases are defined in the package gets the methods, properties, class attributes and annotated
    fields it inherits (nearest base first, left to right), as if they were written in its body: a refactoring that moves
    methods of a public class into a mixin or a private base class leaves the class, as the rules see it, unchanged.
    The inherited function keeps its defining module (imports are resolved there) but is a member of the subclass
    (self.x(...) resolves in the subclass; its qualified name is the subclass's)."""
    done = []
    order, seen = [], set()

    def bases_of(c):
      out = []
      for b in c.node.bases:
        try:
          r = self.resolve_dotted(c.module, dotted(b))
        except Exception:
          r = None
        if r and r[0] == 'class' and r[1] is not c:
          out.append(r[1])
      return out

    def visit(c, stack=()):
      if c.qualname in seen or c in stack:
        return
      for b in bases_of(c):
        visit(b, stack + (c,))
      seen.add(c.qualname)
      order.append(c)
    for c in list(self.classes.values()):
      visit(c)
    for c in order:
      for b in bases_of(c):
        for table in ('methods', 'getters', 'setters'):
          for n_, h in getattr(b, table).items():
            if n_ in c.methods or n_ in c.getters and table != 'setters' or n_ in c.setters and table == 'setters':
              continue
            if table == 'setters' and n_ in c.getters and n_ not in b.getters:
              continue
            g = FuncInfo(h.module, h.node, c, h.kind)
            g.home_module = c.module
            g.inherited_from = b.qualname
            getattr(c, table)[n_] = g
            self.functions[g.qualname] = g
            done.append('%s <- %s' % (g.qualname, b.qualname))
        for n_, v in b.attrs.items():
          c.attrs.setdefault(n_, v)
        new_ann = {n_: a_ for n_, a_ in b.annotations.items() if n_ not in c.annotations}
        if new_ann:
          merged = dict(new_ann)
          merged.update(c.annotations)
          c.annotations = merged
          c.field_order = [n_ for n_ in b.field_order if n_ not in c.field_order] + c.field_order
        if b.is_dataclass:
          c.is_dataclass = True
    return done

  # -- anchors ---------------------------------------------------------------
  def module(self, name):
    if name not in self.modules:
      raise AnalysisError('anchor vanished: module %s' % name)
    self.consulted.add(name)
    return self.modules[name]

  def inlined_away(self, f):
    """f is a helper (not an anchor of the pinned tree) whose every use from an anchor was inlined: its body is analysed
    inside the anchors, the function itself is no longer part of the program the rules look at."""
    return self.pinned_names is not None and f.qualname not in self.pinned_names and f.qualname not in self.residual_helpers \
        and (f.outer is None or self.inlined_away(f.outer) or f.outer.qualname in self.pinned_names and False)

  def cls(self, qualname):
    if qualname not in self.classes:
      raise AnalysisError('anchor vanished: class %s' % qualname)
    self.consulted.add(qualname.split('.')[0])
    return self.classes[qualname]

  def func(self, qualname):
    if qualname not in self.functions:
      raise AnalysisError('anchor vanished: function %s' % qualname)
    self.consulted.add(qualname.split('.')[0])
    return self.functions[qualname]

  def has_func(self, qualname):
    return qualname in self.functions

  def nested(self, outer_qualname, name):
    f = self.func(outer_qualname)
    if name not in f.nested:
      raise AnalysisError('anchor vanished: nested function %s in %s' % (name, outer_qualname))
    return f.nested[name]

  def digests(self):
    return {self.modules[m].relpath: self.modules[m].sha256 for m in sorted(self.consulted) if m in self.modules}

  # -- name resolution -----------------------------------------------------------
  def resolve_dotted(self, module, d):
    """Resolve a dotted name used in `module` to ('class', ClassInfo),
    ('func', FuncInfo), ('module', Module), ('lib', dotted) or None."""
    if d is None:
      return None
    parts = d.split('.')
    head = parts[0]
    # module-level alias (TBRMMDesign = tbrmmdesign.TBRMMDesign)
    seen = 0
    while head in module.aliases and seen < 5 and head not in module.imports:
      parts = module.aliases[head].split('.') + parts[1:]
      head = parts[0]
      seen += 1
    if head in module.imports:
      target = module.imports[head].split('.') + parts[1:]
      # strip package prefix
      if target[:2] == ['matched_markets', 'methodology'] or target[:2] == ['matched_markets', 'examples']:
        target = target[2:]
        if not target:
          return None
        mname = target[0]
        if mname in self.modules:
          return self._resolve_in_module(self.modules[mname], target[1:])
        return None
      return ('lib', '.'.join(target))
    # local definitions
    return self._resolve_in_module(module, parts)

  def _resolve_in_module(self, m, parts):
    if not parts:
      return ('module', m)
    q = '%s.%s' % (m.name, parts[0])
    if q in self.classes:
      c = self.classes[q]
      if len(parts) == 1:
        return ('class', c)
      if len(parts) == 2:
        n = parts[1]
        for table in (c.methods, c.getters):
          if n in table:
            return ('func', table[n])
        if n in c.attrs:
          return ('classattr', (c, n))
      return None
    if q in self.functions and len(parts) == 1:
      return ('func', self.functions[q])
    if parts[0] in m.aliases or parts[0] in m.imports:
      return self.resolve_dotted(m, '.'.join(parts))
    return None


def walk_no_nested(node):
  """ast.walk that does not descend into nested function/class definitions
  (the root itself may be a FunctionDef)."""
  stack = [node]
  first = True
  while stack:
    n = stack.pop()
    if not first and isinstance(n, (ast.FunctionDef, ast.AsyncFunctionDef, ast.ClassDef, ast.Lambda)):
      continue
    first = False
    yield n
    stack.extend(reversed(list(ast.iter_child_nodes(n))))
