"""Statement-level control-flow graph for one Python function.

Nodes are simple statements and the headers of compound statements; edges carry
labels ('next', 'true', 'false', 'iter', 'exhausted', 'exc', 'break',
'continue', 'return', 'raise').  Nested function and class definitions are a
single definition node; their bodies get their own CFG.
"""
import ast
import collections

from mmsa.core import Undecided, norm


STATS = {'path_queries': 0, 'paths_enumerated': 0, 'dominator_computations': 0, 'cfgs_built': 0}


class Node:
  __slots__ = ('id', 'kind', 'ast', 'expr', 'owner')

  def __init__(self, nid, kind, node=None, expr=None, owner=None):
    self.id = nid
    self.kind = kind    # entry exit raise stmt return raisestmt test for with handler break continue
    self.ast = node     # the statement (for headers: the compound statement)
    self.expr = expr    # for 'test': the test expression; for 'for': the iter expression
    self.owner = owner

  @property
  def lineno(self):
    n = self.expr if self.expr is not None else self.ast
    return getattr(n, 'lineno', 0)

  def text(self):
    if self.kind == 'test':
      return 'if/while ' + norm(self.expr)
    if self.kind == 'for':
      return 'for %s in %s' % (norm(self.ast.target), norm(self.ast.iter))
    if self.kind == 'with':
      return 'with ' + ', '.join(norm(i) for i in self.ast.items)
    if self.kind == 'handler':
      return 'except ' + (norm(self.ast.type) if self.ast.type is not None else '')
    if self.ast is not None:
      if isinstance(self.ast, (ast.FunctionDef, ast.AsyncFunctionDef, ast.ClassDef)):
        return 'def ' + self.ast.name
      return norm(self.ast)
    return self.kind

  def __repr__(self):
    return '<N%d %s L%d %s>' % (self.id, self.kind, self.lineno, self.text()[:50])


class CFG:

  def __init__(self, func_node):
    STATS['cfgs_built'] += 1
    self.func = func_node
    self.nodes = []
    self.succ = collections.defaultdict(list)   # node -> [(node, label)]
    self.pred = collections.defaultdict(list)
    self.entry = self._new('entry')
    self.exit = self._new('exit')
    self.raise_exit = self._new('raise')
    self.stmt_node = {}      # id(ast stmt) -> Node (header node for compound statements)
    self._loops = []         # stack of (header, after_collector)
    self._handlers = []      # stack of lists of handler entry nodes
    outs = self._block(func_node.body, [(self.entry, 'next')])
    for n, lab in outs:
      self._edge(n, self.exit, lab if lab != 'next' else 'fall')

  # -- construction -----------------------------------------------------------
  def _new(self, kind, node=None, expr=None):
    n = Node(len(self.nodes), kind, node, expr)
    self.nodes.append(n)
    return n

  def _edge(self, a, b, label):
    self.succ[a].append((b, label))
    self.pred[b].append((a, label))

  def _connect(self, ins, node):
    for a, lab in ins:
      self._edge(a, node, lab)

  def _exc_edges(self, node):
    if self._handlers:
      for h in self._handlers[-1]:
        self._edge(node, h, 'exc')

  def _block(self, stmts, ins):
    """Adds the statements; `ins` is a list of (node, label) dangling edges.
    Returns the dangling out edges."""
    for st in stmts:
      ins = self._stmt(st, ins)
    return ins

  def _stmt(self, st, ins):
    if isinstance(st, ast.If):
      t = self._new('test', st, st.test)
      self.stmt_node[id(st)] = t
      self._connect(ins, t)
      self._exc_edges(t)
      outs = self._block(st.body, [(t, 'true')])
      if st.orelse:
        outs = outs + self._block(st.orelse, [(t, 'false')])
      else:
        outs = outs + [(t, 'false')]
      return outs
    if isinstance(st, ast.While):
      t = self._new('test', st, st.test)
      self.stmt_node[id(st)] = t
      self._connect(ins, t)
      self._exc_edges(t)
      breaks = []
      self._loops.append((t, breaks))
      body_outs = self._block(st.body, [(t, 'true')])
      self._loops.pop()
      for a, lab in body_outs:
        self._edge(a, t, 'back')
      outs = [(t, 'false')]
      if st.orelse:
        outs = self._block(st.orelse, outs)
      return outs + breaks
    if isinstance(st, (ast.For, ast.AsyncFor)):
      h = self._new('for', st, st.iter)
      self.stmt_node[id(st)] = h
      self._connect(ins, h)
      self._exc_edges(h)
      breaks = []
      self._loops.append((h, breaks))
      body_outs = self._block(st.body, [(h, 'iter')])
      self._loops.pop()
      for a, lab in body_outs:
        self._edge(a, h, 'back')
      outs = [(h, 'exhausted')]
      if st.orelse:
        outs = self._block(st.orelse, outs)
      return outs + breaks
    if isinstance(st, (ast.With, ast.AsyncWith)):
      w = self._new('with', st)
      self.stmt_node[id(st)] = w
      self._connect(ins, w)
      self._exc_edges(w)
      return self._block(st.body, [(w, 'next')])
    if isinstance(st, ast.Try) or type(st).__name__ == 'TryStar':
      handlers = [self._new('handler', h) for h in st.handlers]
      self._handlers.append(handlers)
      body_outs = self._block(st.body, ins)
      self._handlers.pop()
      if st.orelse:
        body_outs = self._block(st.orelse, body_outs)
      outs = list(body_outs)
      for hn, h in zip(handlers, st.handlers):
        self._exc_edges(hn)
        outs += self._block(h.body, [(hn, 'next')])
      if st.finalbody:
        outs = self._block(st.finalbody, outs)
      return outs
    if isinstance(st, ast.Return):
      n = self._new('return', st)
      self.stmt_node[id(st)] = n
      self._connect(ins, n)
      self._exc_edges(n)
      self._edge(n, self.exit, 'return')
      return []
    if isinstance(st, ast.Raise):
      n = self._new('raisestmt', st)
      self.stmt_node[id(st)] = n
      self._connect(ins, n)
      if self._handlers:
        self._exc_edges(n)
      else:
        self._edge(n, self.raise_exit, 'raise')
      return []
    if isinstance(st, ast.Break):
      n = self._new('break', st)
      self.stmt_node[id(st)] = n
      self._connect(ins, n)
      if not self._loops:
        raise Undecided('break outside loop')
      self._loops[-1][1].append((n, 'break'))
      return []
    if isinstance(st, ast.Continue):
      n = self._new('continue', st)
      self.stmt_node[id(st)] = n
      self._connect(ins, n)
      if not self._loops:
        raise Undecided('continue outside loop')
      self._edge(n, self._loops[-1][0], 'continue')
      return []
    if isinstance(st, ast.Match):
      raise Undecided('match statement not supported by the CFG builder')
    # simple statement (incl. nested def/class as a definition)
    n = self._new('stmt', st)
    self.stmt_node[id(st)] = n
    self._connect(ins, n)
    self._exc_edges(n)
    return [(n, 'next')]

  # -- queries ---------------------------------------------------------------
  def node_of(self, stmt):
    return self.stmt_node[id(stmt)]

  def successors(self, n, edge_ok=None):
    for m, lab in self.succ[n]:
      if edge_ok is None or edge_ok(n, m, lab):
        yield m, lab

  def reachable(self, src, edge_ok=None, stop=None):
    """Set of nodes reachable from src (src included). Nodes satisfying `stop`
    are reached but not expanded."""
    seen = {src}
    work = [src]
    while work:
      n = work.pop()
      if stop is not None and n is not src and stop(n):
        continue
      for m, lab in self.successors(n, edge_ok):
        if m not in seen:
          seen.add(m)
          work.append(m)
    return seen

  def path_avoiding(self, src, dst_pred, avoid, edge_ok=None):
    """Shortest path (list of (node, label-taken-to-reach)) from src to a node
    satisfying dst_pred that passes no node satisfying `avoid` (src exempt).
    Returns None when every path is blocked."""
    STATS['path_queries'] += 1
    prev = {src: None}
    q = collections.deque([src])
    while q:
      n = q.popleft()
      if n is not src and dst_pred(n):
        path = []
        cur = n
        while cur is not None:
          p = prev[cur]
          path.append((cur, p[1] if p else None))
          cur = p[0] if p else None
        return list(reversed(path))
      if n is not src and avoid(n):
        continue
      for m, lab in self.successors(n, edge_ok):
        if m not in prev:
          prev[m] = (n, lab)
          q.append(m)
    return None

  def iteration_skipping(self, header, must, edge_ok=None):
    """A path that starts an iteration of the loop `header` (its 'iter'/'true' edge) and comes back to
    the header without passing any node of `must` (and without leaving the loop), or None."""
    STATS['path_queries'] += 1
    starts = [m for m, lab in self.succ[header] if lab in ('iter', 'true')]
    must = set(must)
    for s0 in starts:
      if s0 in must:
        continue
      if s0 is header:
        return [(header, None), (header, 'back')]
      prev = {s0: None}
      q = collections.deque([s0])
      while q:
        n = q.popleft()
        for m, lab in self.succ[n]:
          if lab == 'exc' or (edge_ok is not None and not edge_ok(n, m, lab)):
            continue
          if m is header:
            path = [(header, lab)]
            cur = n
            while cur is not None:
              path.append((cur, None))
              cur = prev[cur]
            path.append((header, None))
            return list(reversed(path))
          if m in must or m in prev or m in (self.exit, self.raise_exit):
            continue
          prev[m] = n
          q.append(m)
    return None

  def dominators(self, edge_ok=None):
    """node -> set of dominators (iterative; the graphs are tiny)."""
    STATS['dominator_computations'] += 1
    nodes = [n for n in self.reachable(self.entry, edge_ok)]
    allset = set(nodes)
    dom = {n: set(allset) for n in nodes}
    dom[self.entry] = {self.entry}
    preds = {n: [a for a, lab in self.pred[n] if a in allset and (edge_ok is None or edge_ok(a, n, lab))] for n in nodes}
    changed = True
    while changed:
      changed = False
      for n in nodes:
        if n is self.entry:
          continue
        ps = preds[n]
        new = set.intersection(*(dom[p] for p in ps)) if ps else set()
        new = new | {n}
        if new != dom[n]:
          dom[n] = new
          changed = True
    return dom

  def dominates(self, a, b, edge_ok=None):
    return a in self.dominators(edge_ok).get(b, set())

  def back_edges(self):
    return [(a, b) for a in self.nodes for b, lab in self.succ[a] if lab in ('back', 'continue')]

  def loop_body_nodes(self, header):
    """Nodes inside the loop whose header is `header` (natural loop)."""
    body = {header}
    work = [a for a, lab in self.pred[header] if lab in ('back', 'continue')]
    while work:
      n = work.pop()
      if n in body:
        continue
      body.add(n)
      work.extend(a for a, lab in self.pred[n])
    return body

  def enumerate_paths(self, src, dst_pred, edge_ok=None, max_paths=20000, back_limit=1):
    """All paths src -> (first node satisfying dst_pred), each back edge taken at
    most `back_limit` times. Yields lists of (node, label)."""
    count = 0
    # prune: only walk through nodes from which a destination is reachable
    dsts = [n for n in self.nodes if dst_pred(n)]
    can = set(dsts)
    work = list(dsts)
    while work:
      m = work.pop()
      for a, lab in self.pred[m]:
        if a not in can and (edge_ok is None or edge_ok(a, m, lab)):
          can.add(a)
          work.append(a)
    if src not in can:
      return
    steps = 0
    stack = [(src, [(src, None)], collections.Counter())]
    while stack:
      steps += 1
      if steps > 200 * max_paths + 100000:
        raise Undecided('path enumeration exceeded its budget in %s' % getattr(self.func, 'name', '?'))
      n, path, used = stack.pop()
      if n is not src and dst_pred(n):
        count += 1
        STATS['paths_enumerated'] += 1
        yield path
        if count >= max_paths:
          return
        continue
      for m, lab in self.successors(n, edge_ok):
        if m not in can:
          continue
        if lab in ('back', 'continue'):
          if used[(n.id, m.id)] >= back_limit:
            continue
          u2 = used.copy()
          u2[(n.id, m.id)] += 1
        else:
          u2 = used
        stack.append((m, path + [(m, lab)], u2))


# -- guards under assumptions -------------------------------------------------
def dominating_conditions(g, node, doms=None, edge_ok=None):
  """[(test expression, truth value, test node)] for the tests dominating `node` exactly one of whose outcomes can
  lead to `node` (without passing the test again): the conditions that hold whenever `node` executes.  Covers both the
  nested-if form and the guard form (`if not c: continue`)."""
  edge_ok = edge_ok or no_exc
  doms = doms or g.dominators(edge_ok)
  out = []
  for t in doms.get(node, ()):
    if t.kind != 'test' or t is node:
      continue
    reach = {}
    for m, lab in g.succ[t]:
      if lab in ('true', 'false'):
        r = g.reachable(m, lambda a, b, l, t=t: edge_ok(a, b, l) and b is not t and a is not t)
        reach[lab] = (node in r) or (m is node)
    live = [k for k, v in reach.items() if v]
    if len(live) == 1:
      out.append((t.expr, live[0] == 'true', t))
  out.sort(key=lambda x: x[2].id)
  return out


def decide_test(expr, facts, resolve=None):
  """Three-valued evaluation of a test expression under `facts`.

  facts: dict normalised-expression-text -> 'none' | 'notnone' | True | False.
  resolve: optional callable Name-node -> expression node (single reaching
  definition) used to look through local aliases.
  Returns True, False or None (unknown).
  """
  def look(e, _depth=0):
    k = norm(e)
    if k in facts:
      return facts[k]
    if resolve is not None and _depth < 3 and isinstance(e, (ast.Name, ast.Attribute, ast.Subscript)):
      try:
        r = resolve(e)
      except Exception:
        r = None
      if r is not None and r is not e and norm(r) != k:
        return look(r, _depth + 1)
    return None

  def ev(e):
    if isinstance(e, ast.BoolOp):
      vals = [ev(v) for v in e.values]
      if isinstance(e.op, ast.And):
        if any(v is False for v in vals):
          return False
        if all(v is True for v in vals):
          return True
        return None
      if any(v is True for v in vals):
        return True
      if all(v is False for v in vals):
        return False
      return None
    if isinstance(e, ast.UnaryOp) and isinstance(e.op, ast.Not):
      v = ev(e.operand)
      return None if v is None else (not v)
    if isinstance(e, ast.Compare) and len(e.ops) == 1:
      op, rhs = e.ops[0], e.comparators[0]
      if isinstance(op, (ast.Is, ast.IsNot, ast.Eq, ast.NotEq)) and isinstance(rhs, ast.Constant) and rhs.value is None:
        f = look(e.left)
        if f in ('none', 'notnone'):
          isnone = (f == 'none')
          return isnone if isinstance(op, (ast.Is, ast.Eq)) else (not isnone)
        return None
    if isinstance(e, ast.BinOp) and isinstance(e.op, (ast.BitAnd, ast.BitOr)):
      # `a | b` used as a logical connective on booleans
      l, r = ev(e.left), ev(e.right)
      if isinstance(e.op, ast.BitAnd):
        if l is False or r is False:
          return False
        if l is True and r is True:
          return True
        return None
      if l is True or r is True:
        return True
      if l is False and r is False:
        return False
      return None
    f = look(e)
    if f is True or f is False:
      return f
    if f is None and resolve is not None and isinstance(e, ast.Name) and not getattr(e, '_flag_seen', False):
      # a named condition: range_specified = (control_geos_range is not None)
      try:
        r = resolve(e)
      except Exception:
        r = None
      if isinstance(r, (ast.Compare, ast.BoolOp, ast.UnaryOp)) and norm(r) != norm(e):
        return ev(r)
    return None
  return ev(expr)


def edge_filter_under(cfg, facts, resolve_at=None, extra=None):
  """Edge predicate that removes branch edges contradicted by `facts`.

  resolve_at: callable (node, Name) -> expr used for alias look-through.
  """
  verdict = {}
  for n in cfg.nodes:
    if n.kind == 'test':
      res = (lambda nm, n=n: resolve_at(n, nm)) if resolve_at else None
      verdict[n] = decide_test(n.expr, facts, res)

  def ok(a, b, lab):
    if extra is not None and not extra(a, b, lab):
      return False
    if a.kind == 'test' and lab in ('true', 'false'):
      v = verdict.get(a)
      if v is True and lab == 'false':
        return False
      if v is False and lab == 'true':
        return False
    return True
  return ok


def no_exc(a, b, lab):
  return lab != 'exc'
