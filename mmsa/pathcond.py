"""Path conditions: enumerate CFG paths and split their guards into literals."""
import ast
import itertools

from mmsa import cfg as cfgmod
from mmsa.core import norm

MAX_DNF = 256


def literals(expr, truth):
  """DNF of `expr == truth` as a list of conjunctions; a conjunction is a list of
  (atom_expr, bool).  and/or/not and the bitwise connectives on comparisons are
  split; everything else is an atom."""
  if isinstance(expr, ast.UnaryOp) and isinstance(expr.op, ast.Not):
    return literals(expr.operand, not truth)
  is_and = isinstance(expr, ast.BoolOp) and isinstance(expr.op, ast.And)
  is_or = isinstance(expr, ast.BoolOp) and isinstance(expr.op, ast.Or)
  vals = expr.values if isinstance(expr, ast.BoolOp) else None
  if isinstance(expr, ast.BinOp) and isinstance(expr.op, (ast.BitAnd, ast.BitOr)) and \
      all(isinstance(v, (ast.Compare, ast.BoolOp, ast.UnaryOp, ast.BinOp, ast.Call)) for v in (expr.left, expr.right)):
    is_and = isinstance(expr.op, ast.BitAnd)
    is_or = not is_and
    vals = [expr.left, expr.right]
  if is_and or is_or:
    conj = (is_and and truth) or (is_or and not truth)
    parts = [literals(v, truth) for v in vals]
    if conj:
      out = [[]]
      for p in parts:
        out = [a + b for a in out for b in p]
        if len(out) > MAX_DNF:
          return [[(expr, truth)]]
      return out
    out = []
    for p in parts:
      out += p
    return out if len(out) <= MAX_DNF else [[(expr, truth)]]
  # chained comparison a < b < c  ==  a < b and b < c
  if isinstance(expr, ast.Compare) and len(expr.ops) > 1:
    parts = []
    left = expr.left
    for op, right in zip(expr.ops, expr.comparators):
      parts.append(ast.Compare(left=left, ops=[op], comparators=[right]))
      left = right
    return literals(ast.BoolOp(op=ast.And(), values=parts), truth)
  # None in (a, b)  ==  a is None or b is None        (a tuple / list display; None compares equal only to None)
  if isinstance(expr, ast.Compare) and len(expr.ops) == 1 and isinstance(expr.ops[0], (ast.In, ast.NotIn)) \
      and isinstance(expr.left, ast.Constant) and expr.left.value is None and isinstance(expr.comparators[0], (ast.Tuple, ast.List)) \
      and 0 < len(expr.comparators[0].elts) <= 4 and not any(isinstance(x, ast.Starred) for x in expr.comparators[0].elts):
    parts = [ast.Compare(left=x, ops=[ast.Is()], comparators=[ast.Constant(value=None)]) for x in expr.comparators[0].elts]
    want = truth if isinstance(expr.ops[0], ast.In) else not truth
    return literals(ast.BoolOp(op=ast.Or(), values=parts) if len(parts) > 1 else parts[0], want)
  # (A if c else B) is None  ==  (c and A is None) or (not c and B is None)
  if isinstance(expr, ast.Compare) and len(expr.ops) == 1 and isinstance(expr.ops[0], (ast.Is, ast.IsNot)) and isinstance(expr.left, ast.IfExp) \
      and isinstance(expr.comparators[0], ast.Constant) and expr.comparators[0].value is None:
    ie = expr.left
    mk = lambda x: ast.Compare(left=x, ops=[expr.ops[0]], comparators=[ast.Constant(value=None)])
    split = ast.BoolOp(op=ast.Or(), values=[ast.BoolOp(op=ast.And(), values=[ie.test, mk(ie.body)]),
                                              ast.BoolOp(op=ast.And(), values=[ast.UnaryOp(op=ast.Not(), operand=ie.test), mk(ie.orelse)])])
    return literals(split, truth)
  # None is None / <constant> is None / int(x) is None
  if isinstance(expr, ast.Compare) and len(expr.ops) == 1 and isinstance(expr.ops[0], (ast.Is, ast.IsNot)) \
      and isinstance(expr.comparators[0], ast.Constant) and expr.comparators[0].value is None:
    l = expr.left
    isnone = None
    if isinstance(l, ast.Constant):
      isnone = l.value is None
    elif isinstance(l, ast.Call) and isinstance(l.func, ast.Name) and l.func.id in ('int', 'float', 'str', 'bool', 'len', 'list', 'tuple', 'set', 'dict'):
      isnone = False
    if isnone is not None:
      val = isnone if isinstance(expr.ops[0], ast.Is) else not isnone
      return [[]] if val == truth else []
  return [[(expr, truth)]]


def lit_key(e, t):
  """Canonical (text, truth) of a literal: `X is not None` -> (`X is None`, not t), `a != b` -> (`a == b`, not t)."""
  if isinstance(e, ast.Compare) and len(e.ops) == 1:
    op = e.ops[0]
    if isinstance(op, ast.IsNot):
      return (norm(ast.Compare(left=e.left, ops=[ast.Is()], comparators=e.comparators)), not t)
    if isinstance(op, ast.NotEq):
      return (norm(ast.Compare(left=e.left, ops=[ast.Eq()], comparators=e.comparators)), not t)
    if isinstance(op, ast.NotIn):
      return (norm(ast.Compare(left=e.left, ops=[ast.In()], comparators=e.comparators)), not t)
  return (norm(e), t)


_NEG = {ast.Lt: ast.GtE, ast.GtE: ast.Lt, ast.Gt: ast.LtE, ast.LtE: ast.Gt, ast.Eq: ast.NotEq, ast.NotEq: ast.Eq,
        ast.Is: ast.IsNot, ast.IsNot: ast.Is, ast.In: ast.NotIn, ast.NotIn: ast.In}
_SWAP = {ast.Lt: ast.Gt, ast.Gt: ast.Lt, ast.LtE: ast.GtE, ast.GtE: ast.LtE, ast.Eq: ast.Eq, ast.NotEq: ast.NotEq}
_SYM = {ast.Lt: '<', ast.Gt: '>', ast.LtE: '<=', ast.GtE: '>=', ast.Eq: '==', ast.NotEq: '!=', ast.Is: 'is', ast.IsNot: 'is not',
        ast.In: 'in', ast.NotIn: 'not in'}


def rel_forms(e, t):
  """All spellings of the relation asserted by literal (e, t): `not a < b` -> {'a >= b', 'b <= a'}; a non-comparison
  gives {'e'} or {'not e'}."""
  if isinstance(e, ast.Compare) and len(e.ops) == 1 and type(e.ops[0]) in _NEG:
    op = type(e.ops[0]) if t else _NEG[type(e.ops[0])]
    a, b = norm(e.left), norm(e.comparators[0])
    out = {'%s %s %s' % (a, _SYM[op], b)}
    if op in _SWAP:
      out.add('%s %s %s' % (b, _SYM[_SWAP[op]], a))
    return out
  return {norm(e) if t else 'not ' + norm(e)}


def asserted_forms(e, taken):
  """Spellings of every relation certainly asserted when test `e` has outcome `taken` (negations pushed inwards;
  a disjunction asserts nothing certain)."""
  dnf = literals(e, taken)
  if len(dnf) != 1:
    return set()
  out = set()
  for atom, t in dnf[0]:
    out |= rel_forms(atom, t)
  return out


def never_true(e):
  """Literals that cannot hold: identity with a freshly created float/int/str/list object."""
  if isinstance(e, ast.Compare) and len(e.ops) == 1 and isinstance(e.ops[0], ast.Is):
    for side in (e.left, e.comparators[0]):
      if isinstance(side, ast.Call) and isinstance(side.func, ast.Name) and side.func.id in ('float', 'list', 'dict', 'set', 'object'):
        return True
  return False


def consistent(conj):
  seen = {}
  for e, t in conj:
    if t and never_true(e):
      return False
    if isinstance(e, ast.Constant) and bool(e.value) != t:
      return False        # a literal test (`... or True`, a table entry substituted by unrolling) taken the impossible way
    if isinstance(e, ast.Compare) and len(e.ops) == 1 and isinstance(e.left, ast.Constant) and isinstance(e.comparators[0], ast.Constant):
      a_, b_, op_ = e.left.value, e.comparators[0].value, e.ops[0]
      val_ = None
      try:
        if isinstance(op_, ast.Eq):
          val_ = a_ == b_
        elif isinstance(op_, ast.NotEq):
          val_ = a_ != b_
        elif isinstance(op_, (ast.Is, ast.IsNot)) and (a_ is None or b_ is None or isinstance(a_, bool) or isinstance(b_, bool)):
          val_ = (a_ is b_) if isinstance(op_, ast.Is) else (a_ is not b_)
        elif isinstance(op_, (ast.Lt, ast.LtE, ast.Gt, ast.GtE)) and isinstance(a_, (int, float)) and isinstance(b_, (int, float)):
          val_ = {ast.Lt: a_ < b_, ast.LtE: a_ <= b_, ast.Gt: a_ > b_, ast.GtE: a_ >= b_}[type(op_)]
      except Exception:
        val_ = None
      if val_ is not None and bool(val_) != t:
        return False      # a comparison of two constants (a result code threaded into a branch) taken the impossible way
    if (not t) and isinstance(e, ast.Compare) and len(e.ops) == 1 and isinstance(e.ops[0], ast.IsNot) \
        and never_true(ast.Compare(left=e.left, ops=[ast.Is()], comparators=e.comparators)):
      return False        # `x is not <fresh object>` is always true
    k, v = lit_key(e, t)
    if seen.setdefault(k, v) != v:
      return False
  return True


class PathFacts:
  """Facts asserted along one CFG path: DNF over literals (expanded expressions).
  Disjuncts asserting a literal both ways are dropped; a path whose DNF becomes
  empty is infeasible."""

  def __init__(self, path, rd, keep=()):
    self.path = path
    dnf = [[]]
    self.tests = []
    # path-local environment: name -> (last definition on this path, environment at that definition); only when the
    # path starts at the function entry (otherwise earlier definitions on the path are unknown)
    env = {} if rd is not None else None     # only names defined on the path itself are entered: their last definition is known
    for i, (n, lab) in enumerate(path):
      if n.kind == 'test' and i + 1 < len(path):
        taken = path[i + 1][1]
        if taken not in ('true', 'false'):
          continue
        e = rd.expand(n, n.expr, keep=keep, pathenv=env)[0] if rd is not None else n.expr
        self.tests.append((n, e, taken == 'true'))
        lits = literals(e, taken == 'true')
        dnf = [a + b for a in dnf for b in lits if consistent(a + b)]
        if len(dnf) > MAX_DNF:
          dnf = dnf[:MAX_DNF]
      if env is not None:
        snapshot = None
        for d in rd.gen.get(n, ()):
          if snapshot is None:
            snapshot = dict(env)
          env[d.name] = (d, snapshot)
    self.dnf = dnf
    self.env = env or {}
    self.feasible = bool(dnf)

  def every_case_has(self, pred):
    """True iff in every disjunct some literal satisfies pred(expr, truth)."""
    return all(any(pred(e, t) for e, t in conj) for conj in self.dnf)

  def text(self):
    return ' OR '.join('(' + ' and '.join(('' if t else 'not ') + norm(e) for e, t in c) + ')' for c in self.dnf[:4])


def paths_to(g, dst_pred, edge_ok=cfgmod.no_exc, src=None, back_limit=1, max_paths=5000):
  return list(g.enumerate_paths(src or g.entry, dst_pred, edge_ok, max_paths=max_paths, back_limit=back_limit))
