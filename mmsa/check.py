"""CLI: python3-vt -m mmsa.check <ID> --tier quick|thorough [--repo DIR] [--replay FILE]

Exit 0: no violation beyond the committed known findings.
Exit 1: a VIOLATION line was printed.
Exit 2: ANALYSIS-ERROR / UNDECIDED (never accompanied by a VIOLATION line).
"""
import argparse
import importlib
import json
import os
import sys
import traceback

from mmsa import core, report


def run_property(prop, tier, root, write=True, only_key=None, selftest=True):
  """Returns (exit_code, output_lines, Report)."""
  mod = importlib.import_module('mmsa.props.%s' % prop.lower())
  repo = core.Repo(root)
  seed = int(os.environ.get('VERIF_SEED', '0') or 0)
  from mmsa import cfg as _cfg
  for k_ in _cfg.STATS:
    _cfg.STATS[k_] = 0
  rep = report.Report(prop, tier, repo, seed)
  try:
    mod.run(repo, rep, tier)
  except core.AnalysisError as e:
    rep.undecided('analysis', type(e).__name__, str(e))
  if tier == 'thorough' and selftest and only_key is None:
    from mmsa import selftest as st
    try:
      rep.selftest = st.run(prop, root)
    except core.AnalysisError as e:
      rep.selftest = {'failed': ['self-validation could not run: %s' % e]}
  code, lines = rep.finish(mod.EXPLANATION, mod.RULE_TEXT, write=write, only_key=only_key)
  return code, lines, rep


def main(argv=None):
  ap = argparse.ArgumentParser()
  ap.add_argument('prop')
  ap.add_argument('--tier', default=os.environ.get('VERIF_TIER') or 'quick', choices=['quick', 'thorough'])
  ap.add_argument('--repo', default=os.environ.get('MMSA_REPO', '/repo'))
  ap.add_argument('--replay')
  ap.add_argument('--no-write', action='store_true')
  a = ap.parse_args(argv)
  try:
    only = None
    if a.replay:
      with open(a.replay) as f:
        r = json.load(f)
      only = (r['rule'], r['function'], r['construct'])
    code, lines, _ = run_property(a.prop.upper(), a.tier, a.repo, write=not a.no_write, only_key=only)
    for l in lines:
      print(l)
    return code
  except Exception:  # checker bug or unreadable tree: never a VIOLATION
    print('ANALYSIS-ERROR property=%s checker failed:' % a.prop)
    traceback.print_exc(file=sys.stdout)
    return 2


if __name__ == '__main__':
  sys.exit(main())
