"""Dimension (unit) analysis: exponent of the response unit U carried by numeric expressions.

dim(e) is an int (0 = pure number, 1 = response unit, 2 = squared, ...), POLY for
literal zero/inf/nan (compatible with any dimension) or None (unknown).
Mismatches (adding or comparing quantities of different dimension, in
particular a response-scaled quantity with a non-zero numeric constant) are
recorded: they are exactly the places where multiplying all responses by c
changes the outcome.
"""
import ast
from fractions import Fraction

from mmsa import au
from mmsa.core import norm, walk_no_nested
from mmsa.types import FuncCtx

POLY = 'poly'
SAME_AS_ARG = {'std', 'mean', 'sum', 'cumsum', 'abs', 'max', 'min', 'median', 'array', 'flatten', 'reshape', 'round', 'float', 'nanmean',
               'asarray', 'squeeze', 'copy', 'deepcopy', 'percentile', 'quantile', 'diff', 'sort', 'nansum', 'amax', 'amin', 'absolute', 'list', 'tuple'}
PURE = {'len', 'int', 'bool', 'range', 'corrcoef', 'ppf', 'cdf', 'sf', 'pdf', 'isnan', 'isfinite', 'any', 'all', 'arange', 'ones', 'zeros', 'comb',
        'f', 't', 'norm', 'log', 'log10', 'exp', 'tanh', 'arctanh', 'floor', 'ceil', 'sign', 'isclose', 'allclose', 'finfo', 'str', 'format'}
# unit of design-parameter fields (C12: budget range is scaled with the responses)
PARAM_DIM = {'budget_range': 1}


def unify(a, b):
  """Join for + - and comparisons: returns (dim, mismatch?)"""
  if a is None or b is None:
    return (a if b is None else b) if (a is None or b is None) and not (a is None and b is None) else None, False
  if a == POLY:
    return b, False
  if b == POLY:
    return a, False
  if a == b:
    return a, False
  return None, True


class Dims:

  def __init__(self, repo, types, seeds=None):
    self.repo, self.T = repo, types
    self.seeds = seeds or {}
    self.mismatches = []     # (function, node, text, da, db)
    self._memo = {}
    self._busy = set()
    self._sites = None
    self.universe = None

  def seed_param(self, f, name):
    return self.seeds.get((f.qualname, name), self.seeds.get(('*', name)))

  def dim(self, f, e, at=None, depth=60, record=True):
    if depth <= 0 or e is None:
      return None
    ctx = FuncCtx.of(f)
    at = at or ctx.node_at(e)
    if isinstance(e, ast.Constant):
      v = e.value
      if isinstance(v, bool) or v is None or isinstance(v, str):
        return None
      if isinstance(v, (int, float)):
        if v == 0 or v != v or v in (float('inf'), float('-inf')):
          return POLY
        return 0
      return None
    if isinstance(e, ast.UnaryOp):
      return self.dim(f, e.operand, at, depth - 1, record)
    if isinstance(e, ast.BinOp):
      l, r = self.dim(f, e.left, at, depth - 1, record), self.dim(f, e.right, at, depth - 1, record)
      if isinstance(e.op, (ast.Add, ast.Sub)):
        d, bad = unify(l, r)
        if bad and record:
          self.mismatches.append((f, e, norm(e), l, r))
        return d
      if isinstance(e.op, (ast.Mult, ast.MatMult)):
        if l == POLY or r == POLY:
          return POLY
        if l is None or r is None:
          return None
        return l + r
      if isinstance(e.op, (ast.Div, ast.FloorDiv)):
        if l == POLY:
          return POLY
        if l is None or r is None or r == POLY:
          return None
        return l - r
      if isinstance(e.op, ast.Pow):
        ok, k = au.const(e.right)
        if l == POLY:
          return POLY
        if ok and isinstance(k, (int, float)) and l is not None:
          return l * Fraction(k).limit_denominator(8)
        return None
      return None
    if isinstance(e, ast.IfExp):
      a, b = self.dim(f, e.body, at, depth - 1, record), self.dim(f, e.orelse, at, depth - 1, record)
      return unify(a, b)[0]
    if isinstance(e, ast.Subscript):
      v = e.value
      if isinstance(v, ast.Attribute) and self._is_params(f, v.value, at):
        return PARAM_DIM.get(v.attr, 0)
      if isinstance(v, ast.Name) and at is not None:
        d = ctx.rd.single_def(at, v.id)
        if d is not None and d.how == 'assign' and isinstance(d.value, ast.Attribute) and self._is_params(f, d.value.value, d.node):
          return PARAM_DIM.get(d.value.attr, 0)
      return self.dim(f, v, at, depth - 1, record)
    if isinstance(e, ast.Attribute):
      if self._is_params(f, e.value, at):
        return PARAM_DIM.get(e.attr, 0)
      s = self.seeds.get(('attr', norm(e)))
      if s is not None:
        return s
      if 'finfo(' in norm(e) or norm(e) in ('np.pi', 'math.pi', 'np.e', 'math.e', 'sys.float_info.epsilon'):
        return 0
      base = self.T.type_of(f, e.value, at)
      if base is not None:
        s = self.seeds.get(('field', base.qualname, e.attr))
        if s is not None:
          return s
        if e.attr in base.getters:
          return self.returns(base.getters[e.attr], depth - 1)
        d_ = self.field(base, e.attr, depth - 1)
        if d_ is None and base.attrs.get(e.attr) is not None:
          # a class-level constant (never stored through self): the unit of its literal value
          ok_, v_ = au.const(base.attrs[e.attr])
          if ok_ and isinstance(v_, (int, float)) and not isinstance(v_, bool):
            return POLY if (v_ == 0 or v_ != v_ or v_ in (float('inf'), float('-inf'))) else 0
        return d_
      return None
    if isinstance(e, ast.Call):
      fn = e.func
      name = fn.attr if isinstance(fn, ast.Attribute) else (fn.id if isinstance(fn, ast.Name) else None)
      t = self.T.callee(f, e, at)
      if t and t[0] == 'func':
        return self.returns(t[1], depth - 1)
      if name == 'var' and (e.args or isinstance(fn, ast.Attribute)):
        d = self.dim(f, e.args[0] if e.args else fn.value, at, depth - 1, record)
        return None if d in (None, POLY) else 2 * d
      if name in ('dot', 'inner', 'vdot', 'matmul', 'multiply', 'outer', 'cov') and (len(e.args) == 2 or (len(e.args) == 1 and isinstance(fn, ast.Attribute))):
        a_, b_ = (e.args[0], e.args[1]) if len(e.args) == 2 else (fn.value, e.args[0])
        da_, db_ = self.dim(f, a_, at, depth - 1, record), self.dim(f, b_, at, depth - 1, record)
        if da_ == POLY or db_ == POLY:
          return POLY
        return None if da_ is None or db_ is None else da_ + db_
      if name == 'sqrt' and e.args:
        d = self.dim(f, e.args[0], at, depth - 1, record)
        return None if d is None else (POLY if d == POLY else Fraction(d) / 2)
      if name in SAME_AS_ARG:
        if e.args:
          return self.dim(f, e.args[0], at, depth - 1, record)
        if isinstance(fn, ast.Attribute):
          return self.dim(f, fn.value, at, depth - 1, record)
      if name in PURE:
        return 0
      if name in ('linregress',):
        return None
      return None
    if isinstance(e, ast.Name):
      if at is None:
        return None
      ds = ctx.rd.defs_at(at, e.id)
      if not ds:
        return None
      acc = None
      first = True
      for d in ds:
        key = (f.qualname, d.node.id, e.id)
        if key in self._busy:
          continue
        self._busy.add(key)
        try:
          if d.how == 'assign' and d.value is not None:
            x = self.dim(f, d.value, d.node, depth - 1, False)
          elif d.how == 'unpack' and d.index is not None and d.value is not None:
            x = self.unpack_dim(f, d, depth - 1)
          elif d.how == 'param':
            x = self.param_dim(f, e.id, depth - 1)
          elif d.how == 'iter':
            x = self.elem_dim(f, d.value, d.node, depth - 1)
          else:
            x = None
        finally:
          self._busy.discard(key)
        if first:
          acc, first = x, False
        else:
          acc = unify(acc, x)[0] if (acc is not None and x is not None) else None
      return acc
    return None

  def elem_dim(self, f, it, at, depth):
    if isinstance(it, ast.Call) and isinstance(it.func, ast.Name) and it.func.id == 'range':
      return 0
    return None

  def _is_params(self, f, e, at):
    c = self.T.type_of(f, e, at)
    return c is not None and c.qualname == 'tbrmmdesignparameters.TBRMMDesignParameters'

  def unpack_dim(self, f, d, depth):
    from mmsa.kinds import Kinds
    if not hasattr(self, '_K'):
      self._K = Kinds(self.repo, self.T)
      self._K.may = True      # a unit that *can* reach the use is enough for a scale-dependence witness
    el = self._K.tuple_elems(f, d.value, d.node, 8)
    if el is not None and -len(el) <= d.index < len(el):
      return self.dim(el[d.index][0], el[d.index][1], None, depth - 1, False)
    return None

  def returns(self, g, depth=40):
    key = ('ret', g.qualname)
    if key in self._memo:
      return self._memo[key]
    if key in self._busy or depth <= 0:
      return None
    self._busy.add(key)
    acc, first = None, True
    for s in walk_no_nested(g.node):
      if isinstance(s, ast.Return) and s.value is not None and not au.is_const(s.value, None):
        x = self.dim(g, s.value, None, depth - 1, False)
        acc, first = (x, False) if first else ((unify(acc, x)[0] if acc is not None and x is not None else None), False)
    self._busy.discard(key)
    self._memo[key] = acc
    return acc

  def field(self, cls, name, depth=40):
    key = ('field', cls.qualname, name)
    if key in self._memo:
      return self._memo[key]
    if key in self._busy or depth <= 0:
      return None
    self._busy.add(key)
    acc, first = None, True
    for g in cls.all_functions():
      sn = g.params[0] if g.params else None
      for s in walk_no_nested(g.node):
        if isinstance(s, ast.Assign) and not au.is_const(s.value, None):
          for t in s.targets:
            if isinstance(t, ast.Attribute) and isinstance(t.value, ast.Name) and t.value.id == sn and t.attr == name:
              x = self.dim(g, s.value, None, depth - 1, False)
              acc, first = (x, False) if first else ((unify(acc, x)[0] if acc is not None and x is not None else None), False)
    self._busy.discard(key)
    self._memo[key] = acc
    return acc

  def call_sites(self):
    if self._sites is None:
      self._sites = {}
      for g in (self.universe or {}).values():
        for callee, site, n in self.T.callees_of(g):
          if isinstance(site, ast.Call):
            self._sites.setdefault(callee.qualname, []).append((g, site, n))
    return self._sites

  def param_dim(self, f, name, depth):
    s = self.seed_param(f, name)
    if s is not None:
      return s
    sites = self.call_sites().get(f.qualname, [])
    if not sites or depth <= 0:
      return None
    if name not in f.params:
      return None
    idx = f.params.index(name)
    off = 1 if f.kind in ('method', 'getter', 'setter') else 0
    acc, first = None, True
    for g, call, n in sites:
      a = call.args[idx - off] if len(call.args) > idx - off >= 0 else au.kwarg(call, name)
      if a is None:
        return None
      x = self.dim(g, a, n, depth - 1, False)
      if x is None:
        continue
      acc, first = (x, False) if first else (unify(acc, x)[0], False)
    return acc
