"""Path-wise abstract evaluation of validating code.

A validator (constructor, __post_init__, setter) accepts an input iff control reaches its normal exit.  Each normal-exit
path carries a DNF of the literal tests taken along it (pathcond.PathFacts).  A caller supplies
  * `classify(expr) -> (key, polarity) | None`: which abstract fact a literal test decides, and
  * a list of abstract *bad* states (dict key -> bool) that must be rejected.
A bad state is ACCEPTED when some normal-exit path has a disjunct made only of classified literals, all compatible with
the state: the path is a witness that an input in that state passes (positive evidence -> VIOLATION).  It is UNKNOWN when
a compatible disjunct contains literals the classifier does not understand (-> UNDECIDED), REJECTED otherwise."""
import ast

from mmsa import cfg as cfgmod, dataflow, pathcond
from mmsa.core import Undecided, norm


class Outcome:
  def __init__(self, status, path_text='', unknown=()):
    self.status = status           # 'rejected' | 'accepted' | 'unknown'
    self.path_text = path_text
    self.unknown = list(unknown)


def normal_exit_paths(func_node, max_paths=4000, keep=()):
  g = cfgmod.CFG(func_node)
  rd = dataflow.Reaching(g)
  out = []
  for path in g.enumerate_paths(g.entry, lambda n: n is g.exit, cfgmod.no_exc, max_paths=max_paths, back_limit=0):
    pf = pathcond.PathFacts(path, rd, keep=keep)
    if pf.feasible:
      pf.cfg = g
      out.append(pf)
  if len(out) >= max_paths:
    raise Undecided('more than %d normal-exit paths' % max_paths)
  return g, rd, out


def const_truth(e):
  """Truth value of a test that is constant after expansion (`'msg' is not None`, `None is None`, a literal)."""
  if isinstance(e, ast.Constant):
    return bool(e.value)
  if isinstance(e, (ast.JoinedStr, ast.Dict, ast.List, ast.Tuple, ast.Set)) and not isinstance(e, ast.JoinedStr):
    return bool(getattr(e, 'elts', None) or getattr(e, 'keys', None))
  if isinstance(e, ast.Compare) and len(e.ops) == 1 and isinstance(e.ops[0], (ast.Is, ast.IsNot)):
    l, r = e.left, e.comparators[0]
    fresh = (ast.JoinedStr, ast.Dict, ast.List, ast.Tuple, ast.Set, ast.BinOp, ast.ListComp, ast.SetComp, ast.DictComp)

    def kind(x):
      if isinstance(x, ast.Constant):
        return 'none' if x.value is None else 'value'
      if isinstance(x, fresh):
        return 'value'
      if isinstance(x, ast.Call) and isinstance(x.func, ast.Name) and (x.func.id[:1].isupper() or x.func.id in ('set', 'list', 'dict', 'tuple', 'str', 'frozenset')):
        return 'value'         # a constructor call never returns None
      if isinstance(x, ast.Call) and isinstance(x.func, ast.Attribute) and x.func.attr in ('format', 'join'):
        return 'value'
      return None
    kl, kr = kind(l), kind(r)
    if kl and kr and 'none' in (kl, kr):
      same = kl == kr
      return same if isinstance(e.ops[0], ast.Is) else not same
  return None


def opaque_calls(pf):
  """Bare call statements on the path whose callee is neither a container mutator nor a library routine: they may
  validate (and raise) out of sight, so a path containing one is no witness of acceptance."""
  out = []
  harmless = {'append', 'add', 'update', 'extend', 'insert', 'setdefault', 'sort', 'warn', 'info', 'debug', 'warning', 'discard', 'remove', 'clear', 'pop',
              'set_index', 'reset_index', 'fill', 'seed', 'heappush', 'heappushpop'}
  for n, _lab in pf.path:
    st = getattr(n, 'ast', None)
    if n.kind == 'stmt' and isinstance(st, ast.Expr) and isinstance(st.value, ast.Call):
      fn = st.value.func
      name = fn.attr if isinstance(fn, ast.Attribute) else fn.id if isinstance(fn, ast.Name) else ''
      if name not in harmless and name not in ('print', 'setattr', 'super'):
        out.append(norm(st.value)[:60])
  return out


def loop_caveats(pf):
  """Loops on the path whose body can reject (contains a raise): the path shows at most one pass through the loop (or
  none), so it does not witness that the remaining iterations let the input through."""
  g = getattr(pf, 'cfg', None)
  out = []
  if g is None:
    return out
  for n, _lab in pf.path:
    if n.kind in ('for', 'while'):
      body = g.loop_body_nodes(n)
      if any(m.kind == 'raisestmt' for m in body):
        out.append('the loop at line %s checks one element per pass; the path follows at most one pass' % getattr(n, 'lineno', '?'))
  return out


def decide_states(paths, classify, states):
  """states: list of (label, dict key->bool). Returns dict label -> Outcome (worst over the states sharing the label)."""
  rank = {'rejected': 0, 'unknown': 1, 'accepted': 2}
  res = {}
  for label, state in states:
    best = Outcome('rejected')
    for pf in paths:
      for conj in pf.dnf:
        unknown, clash = [], False
        for e, t in conj:
          c = const_truth(e)
          c = (c, True) if c is not None else classify(e)
          if c is None:
            unknown.append(('' if t else 'not ') + norm(e)[:60])
            continue
          key, pol = c
          if key is True or key is False:      # a literal with a constant truth value
            if (key == pol) != t:
              clash = True
              break
            continue
          if key in state and state[key] != (pol == t):
            clash = True
            break
        if clash:
          continue
        if not unknown:
          unknown = ['call %s may reject' % c_ for c_ in opaque_calls(pf)]
        if not unknown:
          unknown = loop_caveats(pf)
        o = Outcome('unknown', pf.text()[:200], unknown) if unknown else Outcome('accepted', pf.text()[:200] or 'the path without any test')
        if rank[o.status] > rank[best.status]:
          best = o
    cur = res.get(label)
    if cur is None or rank[best.status] > rank[cur.status]:
      res[label] = best
  return res


def _len_cmp(e):
  """`len(S) <op> k` / `k <op> len(S)` -> (S_expr, truth of 'S is empty' when the comparison holds) or None."""
  if not (isinstance(e, ast.Compare) and len(e.ops) == 1):
    return None
  l, op, r = e.left, e.ops[0], e.comparators[0]
  flip = {ast.Lt: ast.Gt, ast.Gt: ast.Lt, ast.LtE: ast.GtE, ast.GtE: ast.LtE, ast.Eq: ast.Eq, ast.NotEq: ast.NotEq}

  def is_len(x):
    return isinstance(x, ast.Call) and isinstance(x.func, ast.Name) and x.func.id == 'len' and len(x.args) == 1 and not x.keywords

  def const(x):
    return x.value if isinstance(x, ast.Constant) and isinstance(x.value, (int, float)) and not isinstance(x.value, bool) else None
  if is_len(r) and const(l) is not None and type(op) in flip:
    l, r, op = r, l, flip[type(op)]()
  if not (is_len(l) and const(r) is not None):
    return None
  k = const(r)
  table = {(ast.Eq, 0): True, (ast.NotEq, 0): False, (ast.Gt, 0): False, (ast.GtE, 1): False, (ast.Lt, 1): True, (ast.LtE, 0): True}
  v = table.get((type(op), k))
  if v is None:
    return None
  return l.args[0], v


class SetFacts:
  """Classifier for emptiness / overlap tests over named sets. `names` maps normalised expression text to a short set
  name; keys produced: '<name>:empty' and 'overlap:<a>,<b>' (names sorted)."""

  def __init__(self, names):
    self.names = dict(names)

  def _set(self, e):
    t = norm(e)
    if t in self.names:
      return self.names[t]
    if isinstance(e, ast.Call) and isinstance(e.func, ast.Name) and e.func.id in ('set', 'frozenset', 'list', 'tuple', 'sorted') and len(e.args) == 1:
      return self._set(e.args[0])
    return None

  def _overlap(self, e):
    """expression denoting the intersection of two named sets -> key"""
    a = b = None
    if isinstance(e, ast.BinOp) and isinstance(e.op, ast.BitAnd):
      a, b = self._set(e.left), self._set(e.right)
    elif isinstance(e, ast.Call) and isinstance(e.func, ast.Attribute) and e.func.attr == 'intersection' and len(e.args) == 1:
      a, b = self._set(e.func.value), self._set(e.args[0])
    elif isinstance(e, ast.Call) and norm(e.func) in ('operator.and_', 'and_', 'set.intersection', 'frozenset.intersection') and len(e.args) == 2:
      a, b = self._set(e.args[0]), self._set(e.args[1])
    elif isinstance(e, ast.Call) and isinstance(e.func, ast.Name) and e.func.id in ('set', 'frozenset', 'list', 'sorted', 'tuple') and len(e.args) == 1:
      return self._overlap(e.args[0])
    elif isinstance(e, (ast.SetComp, ast.ListComp, ast.GeneratorExp)) and len(e.generators) == 1 and isinstance(e.generators[0].target, ast.Name) \
        and isinstance(e.elt, ast.Name) and e.elt.id == e.generators[0].target.id and len(e.generators[0].ifs) == 1:
      c = e.generators[0].ifs[0]
      if isinstance(c, ast.Compare) and len(c.ops) == 1 and isinstance(c.ops[0], ast.In) and isinstance(c.left, ast.Name) and c.left.id == e.elt.id:
        a, b = self._set(e.generators[0].iter), self._set(c.comparators[0])
    if a is None or b is None or a == b:
      return None
    return 'overlap:%s,%s' % tuple(sorted((a, b)))

  def __call__(self, e):
    if isinstance(e, ast.Constant):
      return (bool(e.value), True)
    # truthiness of a set / of an intersection
    s = self._set(e)
    if s is not None:
      return ('%s:empty' % s, False)
    ov = self._overlap(e)
    if ov is not None:
      return (ov, True)
    if isinstance(e, ast.Call) and isinstance(e.func, ast.Name) and e.func.id in ('len', 'bool') and len(e.args) == 1:
      return self(e.args[0])
    lc = _len_cmp(e)
    if lc is not None:
      inner, empty = lc
      s = self._set(inner)
      if s is not None:
        return ('%s:empty' % s, empty)
      ov = self._overlap(inner)
      if ov is not None:
        return (ov, not empty)
      return None
    if isinstance(e, ast.Compare) and len(e.ops) == 1 and isinstance(e.ops[0], (ast.Eq, ast.NotEq)):
      l, r = e.left, e.comparators[0]
      for x, y in ((l, r), (r, l)):
        if isinstance(y, ast.Call) and isinstance(y.func, ast.Name) and y.func.id in ('set', 'frozenset') and not y.args:
          s = self._set(x)
          pol = isinstance(e.ops[0], ast.Eq)
          if s is not None:
            return ('%s:empty' % s, pol)
          ov = self._overlap(x)
          if ov is not None:
            return (ov, not pol)
    if isinstance(e, ast.Call) and isinstance(e.func, ast.Attribute) and e.func.attr == 'isdisjoint' and len(e.args) == 1:
      a, b = self._set(e.func.value), self._set(e.args[0])
      if a is not None and b is not None and a != b:
        return ('overlap:%s,%s' % tuple(sorted((a, b))), False)
    if isinstance(e, ast.Call) and isinstance(e.func, ast.Name) and e.func.id == 'any' and len(e.args) == 1 and isinstance(e.args[0], (ast.GeneratorExp, ast.ListComp)):
      ge = e.args[0]
      if len(ge.generators) == 1 and not ge.generators[0].ifs and isinstance(ge.generators[0].target, ast.Name):
        c = ge.elt
        if isinstance(c, ast.Compare) and len(c.ops) == 1 and isinstance(c.ops[0], ast.In) and isinstance(c.left, ast.Name) and c.left.id == ge.generators[0].target.id:
          a, b = self._set(ge.generators[0].iter), self._set(c.comparators[0])
          if a is not None and b is not None and a != b:
            return ('overlap:%s,%s' % tuple(sorted((a, b))), True)
    return None
