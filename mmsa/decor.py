"""Load-time expansion of repository-defined function decorators.

A function wrapped by a decorator that is itself defined in the same module

    def deco(fn):                       def factory(a, b):
      @functools.wraps(fn)                def decorate(fn):
      def wrapper(*args, **kw):             @functools.wraps(fn)
        BODY  (calls fn(*args, **kw))       def wrapper(*args, **kw): BODY
      return wrapper                        return wrapper
                                          return decorate

is the function with the ORIGINAL signature whose body is BODY, with the factory parameters replaced by the arguments of
the decorator expression and `fn(*args, **kw)` replaced by a call of the undecorated original (kept under the name
`<name>__wrapped`).  After this rewrite the ordinary inliner sees two plain functions; the rules never see a decorator.
Only shapes whose equivalence is immediate are expanded; everything else is left alone (and the rules treat the decorated
function as an unfollowed callee).  functools.wraps only copies metadata and is dropped.
"""
import ast
import copy

WRAPS = ('functools.wraps', 'wraps')
KEEP_OUTER = ('property', 'staticmethod', 'classmethod')


def _txt(e):
  try:
    return ast.unparse(e)
  except Exception:       # pragma: no cover
    return ''


def _strip_doc(body):
  return [s for s in body if not (isinstance(s, ast.Expr) and isinstance(s.value, ast.Constant) and isinstance(s.value.value, str))]


def _decorate_shape(fd):
  """(fn parameter name, wrapper FunctionDef) when fd is `def d(fn): [@wraps(fn)] def w(...): ...; return w`."""
  a = fd.args
  if a.vararg or a.kwarg or a.kwonlyargs or a.posonlyargs or len(a.args) != 1:
    return None
  body = _strip_doc(fd.body)
  if len(body) != 2 or not isinstance(body[0], ast.FunctionDef) or not isinstance(body[1], ast.Return):
    return None
  w = body[0]
  if not (isinstance(body[1].value, ast.Name) and body[1].value.id == w.name):
    return None
  fn = a.args[0].arg
  for d in w.decorator_list:
    if not (isinstance(d, ast.Call) and _txt(d.func) in WRAPS and len(d.args) == 1 and isinstance(d.args[0], ast.Name) and d.args[0].id == fn):
      return None
  if any(isinstance(x, (ast.Yield, ast.YieldFrom, ast.Global, ast.Nonlocal)) for x in ast.walk(w)):
    return None
  return fn, w


def _factory_shape(fd):
  """(factory parameter names, defaults, fn name, wrapper) when fd is `def f(p...): def decorate(fn): ...; return decorate`."""
  a = fd.args
  if a.vararg or a.kwarg or a.posonlyargs:
    return None
  body = _strip_doc(fd.body)
  if len(body) != 2 or not isinstance(body[0], ast.FunctionDef) or not isinstance(body[1], ast.Return):
    return None
  inner = body[0]
  if not (isinstance(body[1].value, ast.Name) and body[1].value.id == inner.name) or inner.decorator_list:
    return None
  sh = _decorate_shape(inner)
  if sh is None:
    return None
  params = [x.arg for x in a.args + a.kwonlyargs]
  defaults = {}
  for p, d in zip(reversed(a.args), reversed(a.defaults)):
    defaults[p.arg] = d
  for p, d in zip(a.kwonlyargs, a.kw_defaults):
    if d is not None:
      defaults[p.arg] = d
  return params, defaults, sh[0], sh[1]


def _simple(e):
  return isinstance(e, ast.Constant) or (isinstance(e, (ast.Name, ast.Attribute)) and all(isinstance(x, (ast.Name, ast.Attribute, ast.Load)) for x in ast.walk(e))) \
      or (isinstance(e, ast.Tuple) and all(_simple(x) for x in e.elts)) \
      or (isinstance(e, ast.UnaryOp) and isinstance(e.operand, ast.Constant))


class _Sub(ast.NodeTransformer):
  def __init__(self, mapping):
    self.mapping = mapping
  def visit_Name(self, n):
    if isinstance(n.ctx, ast.Load) and n.id in self.mapping:
      return copy.deepcopy(self.mapping[n.id])
    return n


def _expand_one(g, deco, defs, in_class, level=0):
  """New (outer, wrapped) FunctionDefs for g decorated by `deco` (the last entry of its decorator list), or None."""
  def lookup(e):
    if isinstance(e, ast.Name):
      return defs.get(e.id)
    if isinstance(e, ast.Attribute) and isinstance(e.value, ast.Name):
      return defs.get('%s.%s' % (e.value.id, e.attr))       # helpers.decorator, through an imported module of the package
    return None
  if not isinstance(deco, ast.Call) and lookup(deco) is not None:
    sh = _decorate_shape(lookup(deco))
    if sh is None:
      return None
    fn, w = sh
    binding = {}
  elif isinstance(deco, ast.Call) and lookup(deco.func) is not None:
    sh = _factory_shape(lookup(deco.func))
    if sh is None:
      return None
    params, defaults, fn, w = sh
    if any(isinstance(a_, ast.Starred) for a_ in deco.args) or any(k.arg is None for k in deco.keywords) or len(deco.args) > len(params):
      return None
    binding = dict(defaults)
    for p, a_ in zip(params, deco.args):
      binding[p] = a_
    for k in deco.keywords:
      if k.arg not in params:
        return None
      binding[k.arg] = k.value
    if set(params) - set(binding) or not all(_simple(v) for v in binding.values()):
      return None
  else:
    return None
  ga, wa = g.args, w.args
  if ga.vararg or ga.kwarg or ga.kwonlyargs or ga.posonlyargs or wa.kwonlyargs or wa.posonlyargs or wa.defaults:
    return None
  gparams = [x.arg for x in ga.args]
  wparams = [x.arg for x in wa.args]
  if len(wparams) > len(gparams) or (not wa.vararg and len(wparams) != len(gparams)):
    return None
  # names: the wrapper's explicit parameters become g's leading parameters; the locals of the wrapper must not clash with g's
  rename = {wp: gp for wp, gp in zip(wparams, gparams)}
  rest = gparams[len(wparams):]
  var, kw = (wa.vararg.arg if wa.vararg else None), (wa.kwarg.arg if wa.kwarg else None)
  wlocals = {x.id for x in ast.walk(w) if isinstance(x, ast.Name) and isinstance(x.ctx, ast.Store)}
  if wlocals & (set(gparams) | set(binding)) or set(binding) & set(gparams) or fn in gparams:
    return None
  wrapped_name = g.name + '__wrapped' + (str(level) if level else '')
  body = copy.deepcopy(_strip_doc(w.body))
  ok = [True]
  is_method = in_class and gparams and not any(_txt(d) == 'staticmethod' for d in g.decorator_list)

  def call_of_original(c):
    """fn(<explicit...>, *args, **kw) -> the undecorated original on g's own parameters."""
    pos = [a_ for a_ in c.args if not isinstance(a_, ast.Starred)]
    stars = [a_ for a_ in c.args if isinstance(a_, ast.Starred)]
    dstars = [k for k in c.keywords if k.arg is None]
    if [k for k in c.keywords if k.arg is not None]:
      return None
    if [_txt(p) for p in pos] != wparams:
      return None
    if var is not None:
      if len(stars) != 1 or _txt(stars[0].value) != var:
        return None
    elif stars:
      return None
    if kw is not None:
      if len(dstars) != 1 or _txt(dstars[0].value) != kw:
        return None
    elif dstars:
      return None
    names = [ast.Name(id=p, ctx=ast.Load()) for p in gparams]
    if is_method:
      return ast.Call(func=ast.Attribute(value=names[0], attr=wrapped_name, ctx=ast.Load()), args=names[1:], keywords=[])
    if in_class:
      return None       # a static method of a class: the class name is not known here
    return ast.Call(func=ast.Name(id=wrapped_name, ctx=ast.Load()), args=names, keywords=[])

  class _T(ast.NodeTransformer):
    def visit_Call(self, c):
      if isinstance(c.func, ast.Name) and c.func.id == fn:
        new = call_of_original(c)
        if new is None:
          ok[0] = False
          return c
        return new
      self.generic_visit(c)
      return c
    def visit_Name(self, n):
      if isinstance(n.ctx, ast.Load):
        if n.id in binding:
          return copy.deepcopy(binding[n.id])
        if n.id in rename:
          return ast.Name(id=rename[n.id], ctx=ast.Load())
        if n.id in (fn, var, kw):
          ok[0] = False        # the function object or the packed arguments used as values
      elif n.id in rename or n.id in binding:
        ok[0] = False
      return n
    def visit_FunctionDef(self, n):
      ok[0] = False            # nested defs inside the wrapper: not expanded
      return n
    visit_Lambda = visit_FunctionDef
  t = _T()
  body = [t.visit(s) for s in body]
  if not ok[0] or not body:
    return None
  outer = ast.FunctionDef(name=g.name, args=copy.deepcopy(g.args), body=body, decorator_list=list(g.decorator_list[:-1]),
                          returns=None, type_comment=None, lineno=g.lineno, col_offset=g.col_offset)
  if hasattr(ast.FunctionDef, 'type_params') or 'type_params' in ast.FunctionDef._fields:
    outer.type_params = []
  doc = [s for s in g.body[:1] if isinstance(s, ast.Expr) and isinstance(s.value, ast.Constant) and isinstance(s.value.value, str)]
  outer.body = doc + outer.body
  wrapped = copy.copy(g)
  wrapped.name = wrapped_name
  wrapped.decorator_list = [d for d in g.decorator_list[:-1] if _txt(d) in ('staticmethod', 'classmethod')]
  for s in outer.body:
    ast.copy_location(s, g) if not hasattr(s, 'lineno') else None
  ast.fix_missing_locations(outer)
  return outer, wrapped


def expand_module(tree, imported=None):
  """Rewrite decorated functions of `tree` in place; returns the list of 'name <- decorator' strings expanded.
  `imported`: local name (or 'module.name') -> FunctionDef of a decorator defined in another module of the package
  (the wrapper must then read nothing of its own module besides builtins: checked by the caller)."""
  defs = dict(imported or {})
  defs.update({s.name: s for s in tree.body if isinstance(s, ast.FunctionDef)})
  done = []

  def in_block(stmts, in_class):
    out = []
    for s in stmts:
      if isinstance(s, ast.ClassDef):
        s.body = in_block(s.body, True)
        out.append(s)
        continue
      if isinstance(s, ast.FunctionDef) and s.decorator_list:
        cur, extra = s, []
        for level in range(3):
          if not cur.decorator_list:
            break
          d = cur.decorator_list[-1]
          r = _expand_one(cur, d, defs, in_class, level)
          if r is None:
            break
          outer, wrapped = r
          done.append('%s <- @%s' % (s.name, _txt(d)[:60]))
          extra.append(wrapped)
          cur = outer
        out.extend(extra)
        out.append(cur)
        continue
      out.append(s)
    return out
  tree.body = in_block(tree.body, False)
  if done:
    for n in ast.walk(tree):
      for ch in ast.iter_child_nodes(n):
        ch._parent = n
    tree._parent = None
  return done


def merge_branch_defs(tree):
  """if C: PRE1; def g(a, b): B1          if C: PRE1
     else: PRE2; def g(c, d): B2    ->    else: PRE2
                                          def g(a, b):
                                            if C: B1
                                            else: B2[c, d := a, b]
  (a closure chosen once per call of the enclosing function instead of a test at each call).  Only when C reads nothing
  that can change between the definition and the calls: plain names with a single assignment that precedes the `if`,
  parameters never re-bound, attribute chains whose last attribute is stored nowhere in the enclosing function; no calls
  in C; the `if` is not inside a loop.  Returns the names merged."""
  done = []

  def simple_def(d):
    if not isinstance(d, ast.FunctionDef):
      return False
    a = d.args
    return not d.decorator_list and not (a.vararg or a.kwarg or a.kwonlyargs or a.posonlyargs or a.defaults)

  def stable(test, F, st):
    if any(isinstance(x, (ast.Call, ast.NamedExpr, ast.Lambda, ast.Await, ast.Yield, ast.YieldFrom)) for x in ast.walk(test)):
      return False
    if any(isinstance(x, (ast.Global, ast.Nonlocal)) for x in ast.walk(F)):
      return False
    params = {a.arg for a in F.args.posonlyargs + F.args.args + F.args.kwonlyargs} | ({F.args.vararg.arg} if F.args.vararg else set()) | ({F.args.kwarg.arg} if F.args.kwarg else set())
    stores = {}
    for x in ast.walk(F):
      if isinstance(x, ast.Name) and isinstance(x.ctx, (ast.Store, ast.Del)):
        stores.setdefault(x.id, []).append(x)
      elif isinstance(x, (ast.FunctionDef, ast.ClassDef)) and x is not F:
        stores.setdefault(x.name, []).append(x)
    attr_stores = {x.attr for x in ast.walk(F) if isinstance(x, ast.Attribute) and isinstance(x.ctx, (ast.Store, ast.Del))}
    for x in ast.walk(test):
      if isinstance(x, ast.Name):
        ss = stores.get(x.id, [])
        if x.id in params:
          if ss:
            return False
        elif len(ss) > 1 or (len(ss) == 1 and not (getattr(ss[0], 'lineno', 10 ** 9) < st.lineno)):
          return False
      elif isinstance(x, ast.Attribute) and x.attr in attr_stores:
        return False
      elif isinstance(x, ast.Subscript):
        return False
    return True

  def rename(body, mapping):
    class R(ast.NodeTransformer):
      def visit_Name(self, n):
        if n.id in mapping:
          return ast.copy_location(ast.Name(id=mapping[n.id], ctx=n.ctx), n)
        return n
    return [R().visit(copy.deepcopy(s)) for s in body]

  def try_merge(st, F):
    b1, b2 = st.body, st.orelse
    if not b1 or not b2:
      return None
    d1, d2 = b1[-1], b2[-1]
    if not (simple_def(d1) and simple_def(d2) and d1.name == d2.name and len(d1.args.args) == len(d2.args.args)):
      return None
    name = d1.name
    for rest in (b1[:-1], b2[:-1]):
      for s in rest:
        for x in ast.walk(s):
          if isinstance(x, (ast.FunctionDef, ast.Lambda, ast.ClassDef, ast.Return, ast.Yield, ast.YieldFrom)):
            return None
          if isinstance(x, ast.Name) and x.id == name:
            return None
    if not stable(st.test, F, st):
      return None
    p1 = [a.arg for a in d1.args.args]
    p2 = [a.arg for a in d2.args.args]
    body2 = _strip_doc(d2.body)
    if any(isinstance(x, (ast.FunctionDef, ast.Lambda, ast.ListComp, ast.SetComp, ast.DictComp, ast.GeneratorExp)) for s in body2 for x in ast.walk(s)) and p1 != p2:
      return None
    free2 = {x.id for s in body2 for x in ast.walk(s) if isinstance(x, ast.Name)} - set(p2)
    if set(p1) & free2:
      return None
    # the names the test reads must not be shadowed inside the bodies
    tnames = {x.id for x in ast.walk(st.test) if isinstance(x, ast.Name)}
    bound_inside = set(p1) | {x.id for d in (d1, d2) for x in ast.walk(d) if isinstance(x, ast.Name) and isinstance(x.ctx, ast.Store)}
    if tnames & bound_inside:
      return None
    new_body2 = rename(body2, dict(zip(p2, p1))) if p1 != p2 else copy.deepcopy(body2)
    inner = ast.If(test=copy.deepcopy(st.test), body=copy.deepcopy(_strip_doc(d1.body)) or [ast.Pass()], orelse=new_body2 or [ast.Pass()])
    merged = ast.FunctionDef(name=name, args=copy.deepcopy(d1.args), body=[inner], decorator_list=[], returns=None, type_comment=None)
    if 'type_params' in ast.FunctionDef._fields:
      merged.type_params = []
    ast.copy_location(merged, d2)
    ast.copy_location(inner, d2)
    pre1, pre2 = b1[:-1], b2[:-1]
    outl = []
    if pre1 or pre2:
      if pre1:
        outl.append(ast.copy_location(ast.If(test=st.test, body=pre1, orelse=pre2), st))
      else:
        outl.append(ast.copy_location(ast.If(test=ast.UnaryOp(op=ast.Not(), operand=st.test), body=pre2, orelse=[]), st))
    outl.append(merged)
    done.append(name)
    return outl

  def block(stmts, F, in_loop):
    out = []
    for st in stmts:
      if isinstance(st, (ast.FunctionDef, ast.AsyncFunctionDef)):
        st.body = block(st.body, st, False)
        out.append(st)
        continue
      if isinstance(st, ast.ClassDef):
        st.body = block(st.body, None, False)
        out.append(st)
        continue
      loop = in_loop or isinstance(st, (ast.For, ast.While, ast.AsyncFor))
      for fld in ('body', 'orelse', 'finalbody'):
        if hasattr(st, fld) and isinstance(getattr(st, fld), list):
          setattr(st, fld, block(getattr(st, fld), F, loop))
      if isinstance(st, ast.Try):
        for hd in st.handlers:
          hd.body = block(hd.body, F, in_loop)
      if isinstance(st, ast.If) and F is not None and not in_loop:
        m = try_merge(st, F)
        if m is not None:
          out.extend(m)
          continue
      out.append(st)
    return out
  tree.body = block(tree.body, None, False)
  if done:
    ast.fix_missing_locations(tree)
    for n in ast.walk(tree):
      for ch in ast.iter_child_nodes(n):
        ch._parent = n
    tree._parent = None
  return done


_LOG_METHODS = ('debug', 'info', 'warning', 'warn', 'error', 'exception', 'critical', 'log')
_PURE_BUILTINS = ('len', 'str', 'repr', 'sorted', 'list', 'tuple', 'set', 'type', 'format', 'int', 'float', 'round', 'id', 'min', 'max', 'sum', 'bool', 'dict', 'abs')


def drop_logging(tree):
  """Statements that only emit a log record are removed: `LOG.debug('..', a, b)`, `logging.info(..)`, where LOG is a
  module-level name bound to `logging.getLogger(..)`, and `if LOG.isEnabledFor(..):` blocks that contain nothing else.
  Log records are not behaviour the properties speak about; the arguments must be free of calls other than pure
  builtins and attribute / method reads of the form the surrounding code already performs (`x.shape`, `len(x)`), so that
  dropping the statement drops no other effect.  Returns the number of statements removed."""
  loggers = set()
  logging_names = set()
  for st in tree.body:
    if isinstance(st, ast.Import):
      for a in st.names:
        if a.name == 'logging':
          logging_names.add(a.asname or 'logging')
    if isinstance(st, ast.ImportFrom) and st.module == 'absl':
      for a in st.names:
        if a.name == 'logging':
          logging_names.add(a.asname or 'logging')
    if isinstance(st, ast.Assign) and len(st.targets) == 1 and isinstance(st.targets[0], ast.Name) and isinstance(st.value, ast.Call) \
        and _txt(st.value.func).split('.')[-1] == 'getLogger' and _txt(st.value.func).split('.')[0] in (logging_names or {'logging'}):
      loggers.add(st.targets[0].id)
  if not loggers and not logging_names:
    return 0
  n = [0]

  pure_local = {}
  for st in tree.body:
    if isinstance(st, ast.FunctionDef) and not st.decorator_list:
      body = _strip_doc(st.body)
      if len(body) == 1 and isinstance(body[0], ast.Return) and body[0].value is not None:
        pure_local[st.name] = body[0].value

  def harmless(e, depth=2):
    for x in ast.walk(e):
      if isinstance(x, ast.Call):
        f = x.func
        if isinstance(f, ast.Name) and (f.id in _PURE_BUILTINS or f.id in ('getattr', 'isinstance', 'hasattr')):
          continue
        if isinstance(f, ast.Name) and f.id in pure_local and depth > 0 and harmless(pure_local[f.id], depth - 1):
          continue          # a one-line module helper that only reads (formatting values for a message)
        if isinstance(f, ast.Attribute) and f.attr in ('join', 'format', 'keys', 'values', 'items', 'tolist', 'isEnabledFor', 'getEffectiveLevel'):
          continue
        return False
      if isinstance(x, (ast.NamedExpr, ast.Yield, ast.YieldFrom, ast.Await, ast.Lambda)):
        return False
    return True

  def is_log_call(c):
    if not (isinstance(c, ast.Call) and isinstance(c.func, ast.Attribute) and c.func.attr in _LOG_METHODS and isinstance(c.func.value, ast.Name)):
      return False
    if c.func.value.id not in loggers and c.func.value.id not in logging_names:
      return False
    return all(harmless(a) for a in list(c.args) + [k.value for k in c.keywords])

  def is_enabled_test(t):
    if isinstance(t, ast.UnaryOp) and isinstance(t.op, ast.Not):
      return False
    return isinstance(t, ast.Call) and isinstance(t.func, ast.Attribute) and t.func.attr == 'isEnabledFor' and isinstance(t.func.value, ast.Name) \
        and (t.func.value.id in loggers or t.func.value.id in logging_names)

  def block(stmts, is_body_of_def=False):
    out = []
    for st in stmts:
      for fld in ('body', 'orelse', 'finalbody'):
        if hasattr(st, fld) and isinstance(getattr(st, fld), list) and not isinstance(st, ast.ClassDef) or (isinstance(st, ast.ClassDef) and fld == 'body'):
          new = block(getattr(st, fld))
          if not new and fld == 'body':
            new = [ast.copy_location(ast.Pass(), st)]
          setattr(st, fld, new)
      if isinstance(st, ast.Try):
        for hd in st.handlers:
          hd.body = block(hd.body) or [ast.copy_location(ast.Pass(), hd)]
        if not st.handlers and not st.finalbody:
          # try: BODY finally: <only log statements>  ->  BODY
          out.extend(list(st.body) + list(st.orelse))
          n[0] += 1
          continue
      if isinstance(st, ast.Expr) and is_log_call(st.value):
        n[0] += 1
        continue
      if isinstance(st, ast.If) and is_enabled_test(st.test) and not st.orelse and all(isinstance(b, ast.Pass) for b in st.body):
        n[0] += 1
        continue
      out.append(st)
    return out
  tree.body = block(tree.body)
  if n[0]:
    ast.fix_missing_locations(tree)
    for p in ast.walk(tree):
      for ch in ast.iter_child_nodes(p):
        ch._parent = p
    tree._parent = None
  return n[0]


def strip_local_annotations(tree):
  """Inside function bodies:  `x: T = v` -> `x = v`,  `x: T` (no value) is removed.  Variable annotations of locals are
  not evaluated at run time (PEP 526) and change nothing; class-level annotations (dataclass fields) are left alone."""
  n = [0]

  def block(stmts, in_func):
    out = []
    for st in stmts:
      if isinstance(st, (ast.FunctionDef, ast.AsyncFunctionDef)):
        st.body = block(st.body, True) or [ast.copy_location(ast.Pass(), st)]
        out.append(st)
        continue
      if isinstance(st, ast.ClassDef):
        st.body = block(st.body, False) or [ast.copy_location(ast.Pass(), st)]
        out.append(st)
        continue
      for fld in ('body', 'orelse', 'finalbody'):
        if hasattr(st, fld) and isinstance(getattr(st, fld), list):
          new = block(getattr(st, fld), in_func)
          setattr(st, fld, new or ([ast.copy_location(ast.Pass(), st)] if fld == 'body' else []))
      if isinstance(st, ast.Try):
        for hd in st.handlers:
          hd.body = block(hd.body, in_func) or [ast.copy_location(ast.Pass(), hd)]
      if in_func and isinstance(st, ast.AnnAssign) and isinstance(st.target, (ast.Name, ast.Attribute, ast.Subscript)):
        n[0] += 1
        if st.value is None:
          continue
        out.append(ast.copy_location(ast.Assign(targets=[st.target], value=st.value, lineno=st.lineno), st))
        continue
      out.append(st)
    return out
  tree.body = block(tree.body, False)
  if n[0]:
    ast.fix_missing_locations(tree)
    for p in ast.walk(tree):
      for ch in ast.iter_child_nodes(p):
        ch._parent = p
    tree._parent = None
  return n[0]
