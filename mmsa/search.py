"""Shared view of the two search functions: push sites, pushed designs, loops,
interval predicates (constraint checks) and attribute definitions."""
import ast
import re

from mmsa import au, cfg as cfgmod, dataflow, pathcond
from mmsa.core import Undecided, norm, walk_no_nested
from mmsa.types import FuncCtx

MM = 'tbrmatchedmarkets.TBRMatchedMarkets'
DESIGN_FIELDS = ['score', 'treatment_geos', 'control_geos', 'diag']


class Pushed:
  """One `results.push(key, design)` site with the constructor call of the design."""

  def __init__(self, node, push_call, design_node, ctor):
    self.node = node
    self.push_call = push_call
    self.design_node = design_node   # CFG node of `design = TBRMMDesign(...)`
    self.ctor = ctor
    self.args = {}
    for i, a in enumerate(ctor.args):
      if i < len(DESIGN_FIELDS):
        self.args[DESIGN_FIELDS[i]] = a
    for k in ctor.keywords:
      self.args[k.arg] = k.value

  @property
  def T(self):
    return self.args.get('treatment_geos')

  @property
  def C(self):
    return self.args.get('control_geos')


class SearchView:

  def __init__(self, repo, name):
    self.repo = repo
    cls = repo.cls(MM)
    if name not in cls.methods:
      raise Undecided('%s vanished' % name)
    from mmsa import inline
    self.orig = cls.methods[name]
    self.f = inline.inline_function(repo, self.orig, inline.builds_designs)
    self.ctx = FuncCtx.of(self.f)
    self.g, self.rd = self.ctx.g, self.ctx.rd
    self.doms = self.g.dominators(cfgmod.no_exc)
    self.pushed = []
    for n in self.g.nodes:
      if n.kind != 'stmt':
        continue
      for call in au.calls_in(n.ast):
        if isinstance(call.func, ast.Attribute) and call.func.attr == 'push' and len(call.args) >= 2:
          item = call.args[1]
          dn, ctor = n, item
          if isinstance(item, ast.Name):
            def live_def(at, nm):
              """The one definition that can be in force: the unique one, or the only non-None one under an `is not None` guard."""
              d_ = self.rd.single_def(at, nm)
              if d_ is None:
                ds_ = [x for x in self.rd.defs_at(at, nm) if not (x.how == 'assign' and isinstance(x.value, ast.Constant) and x.value.value is None)]
                if len(ds_) == 1 and self.rd.nonnull_at(at, nm):
                  d_ = ds_[0]
              return d_
            d = live_def(n, item.id)
            if d is None or d.how != 'assign':
              # several constructions reach the push (or none is visible): the push is kept as an unresolved one, so that the
              # rules say so per push instead of giving up on the whole search
              self.pushed.append(Pushed.__new__(Pushed))
              p = self.pushed[-1]
              p.node, p.push_call, p.design_node, p.ctor, p.args = n, call, n, item, {}
              continue
            dn, ctor = d.node, d.value
            hops = 0
            while isinstance(ctor, ast.Name) and hops < 4:      # design = result_of_helper = TBRMMDesign(...)
              d2 = live_def(dn, ctor.id)
              if d2 is None or d2.how != 'assign' or d2.value is None:
                break
              dn, ctor, hops = d2.node, d2.value, hops + 1
          if not (isinstance(ctor, ast.Call) and norm(ctor.func).split('.')[-1] == 'TBRMMDesign'):
            self.pushed.append(Pushed.__new__(Pushed))
            p = self.pushed[-1]
            p.node, p.push_call, p.design_node, p.ctor, p.args = n, call, dn, ctor, {}
            continue
          self.pushed.append(Pushed(n, call, dn, ctor))

  def loops_enclosing(self, node):
    """Header nodes of the loops that syntactically enclose `node`, outermost first."""
    hs = []
    cur = node.ast
    par = getattr(cur, '_parent', None)
    while par is not None and par is not self.f.node:
      if isinstance(par, (ast.For, ast.While)) and id(par) in self.g.stmt_node:
        # only when the node is in the loop body, not in its else clause
        if not any(cur is s for s in par.orelse):
          hs.append(self.g.stmt_node[id(par)])
      cur, par = par, getattr(par, '_parent', None)
    hs.reverse()
    return hs

  def loop_binding(self, node, name):
    """Innermost enclosing for-loop header whose target binds `name`."""
    for h in reversed(self.loops_enclosing(node)):
      if h.kind == 'for' and name in {x.id for x in ast.walk(h.ast.target) if isinstance(x, ast.Name)}:
        return h
    return None

  def one_iteration_edges(self, header):
    """Edge predicate for paths that stay within one iteration of `header`."""
    def ok(a, b, lab):
      if lab == 'exc':
        return False
      if b is header:
        return False
      return True
    return ok

  def attr_store_before(self, node, obj, attr):
    """The latest store `obj.attr = rhs` dominating `node` (CFG node), or None."""
    cands = []
    for n in self.doms.get(node, ()):
      if n.kind == 'stmt' and isinstance(n.ast, ast.Assign):
        for t in n.ast.targets:
          if isinstance(t, ast.Attribute) and norm(t.value) == obj and t.attr == attr and n is not node:
            cands.append(n)
    if not cands:
      return None
    best = cands[0]
    for c in cands[1:]:
      if best in self.doms.get(c, ()):
        best = c
    return best

  def expand(self, node, e, keep=()):
    return self.rd.expand(node, e, keep=keep)[0]


# -- interval predicates --------------------------------------------------------------

class Interval:
  """accept  <=>  lo (<|<=) v (<|<=) hi ; missing side is None."""

  def __init__(self, v, lo, hi, closed_lo, closed_hi, accept_when):
    self.v, self.lo, self.hi = v, lo, hi
    self.closed_lo, self.closed_hi = closed_lo, closed_hi
    self.accept_when = accept_when   # truth value of the test expression for which the value is accepted

  def __repr__(self):
    return '%s %s %s %s %s (accept when test is %s)' % (
        norm(self.lo) if self.lo is not None else '-inf', '<=' if self.closed_lo else '<', norm(self.v),
        '<=' if self.closed_hi else '<', norm(self.hi) if self.hi is not None else 'inf', self.accept_when)


def _half(c):
  """A single comparison as (v, side, bound, closed) candidates in both readings:
  returns list of (left_expr, op_class, right_expr)."""
  if isinstance(c, ast.Compare) and len(c.ops) == 1 and isinstance(c.ops[0], (ast.Lt, ast.LtE, ast.Gt, ast.GtE)):
    return (c.left, type(c.ops[0]), c.comparators[0])
  return None


def interval_of(expr):
  """Normalise a two-sided range test. Recognised: `v < lo or v > hi` (also |),
  `lo <= v and v <= hi` (also &), chained `lo <= v <= hi`, with `not` around.
  Returns Interval or None."""
  e, neg = au.strip_not(expr)
  parts, conj = None, None
  if isinstance(e, ast.BoolOp) and len(e.values) == 2:
    parts, conj = e.values, isinstance(e.op, ast.And)
  elif isinstance(e, ast.BinOp) and isinstance(e.op, (ast.BitOr, ast.BitAnd)):
    parts, conj = [e.left, e.right], isinstance(e.op, ast.BitAnd)
  elif isinstance(e, ast.Compare) and len(e.ops) == 2:
    parts = [ast.Compare(left=e.left, ops=[e.ops[0]], comparators=[e.comparators[0]]),
             ast.Compare(left=e.comparators[0], ops=[e.ops[1]], comparators=[e.comparators[1]])]
    conj = True
  if parts is None:
    return None
  hs = [_half(au.strip_not(p)[0]) for p in parts]
  if any(h is None for h in hs) or any(au.strip_not(p)[1] for p in parts):
    return None
  # find the common operand v
  texts = [(norm(h[0]), norm(h[2])) for h in hs]
  common = set(texts[0]) & set(texts[1])
  if len(common) != 1:
    return None
  vt = common.pop()
  lo = hi = None
  closed_lo = closed_hi = None
  vnode = None
  for (l, op, r) in hs:
    if norm(l) == vt:
      vnode, other, vleft = l, r, True
    else:
      vnode, other, vleft = r, l, False
    # orientation: v OP other  (vleft) or other OP v
    lt = op in (ast.Lt, ast.LtE)
    strict = op in (ast.Lt, ast.Gt)
    v_below = (lt and vleft) or ((not lt) and (not vleft))    # the comparison says v < other (or <=)
    if conj:
      # accept-form: v <= other  => other is hi ; v >= other => other is lo
      if v_below:
        hi, closed_hi = other, not strict
      else:
        lo, closed_lo = other, not strict
    else:
      # reject-form: reject if v < other => other is lo, accept v >= other (closed iff strict reject)
      if v_below:
        lo, closed_lo = other, strict
      else:
        hi, closed_hi = other, strict
  if lo is None or hi is None:
    return None
  accept_when = conj
  if neg:
    accept_when = not accept_when
  return Interval(vnode, lo, hi, closed_lo, closed_hi, accept_when)


def helper_interval(repo, view_f, call):
  """Interval of a call to a predicate helper (e.g. self._constraint_not_satisfied(v, lo, hi)),
  obtained by normalising the helper's return expression with arguments substituted."""
  if not (isinstance(call, ast.Call) and isinstance(call.func, ast.Attribute) and isinstance(call.func.value, ast.Name)):
    return None
  cls = view_f.cls
  if cls is None or call.func.attr not in cls.methods:
    return None
  h = cls.methods[call.func.attr]
  rets = [s for s in walk_no_nested(h.node) if isinstance(s, ast.Return) and s.value is not None]
  if len(rets) != 1:
    return None
  params = h.params if h.kind == 'static' else h.params[1:]
  if len(call.args) != len(params) or call.keywords:
    return None
  sub = dict(zip(params, call.args))
  from mmsa.types import FuncCtx
  hctx = FuncCtx.of(h)
  body = hctx.rd.expand(hctx.node_at(rets[0]), rets[0].value, keep=tuple(params))[0]   # look through the helper's locals

  def rep(e):
    if isinstance(e, ast.Name) and e.id in sub:
      return dataflow.clone(sub[e.id])
    return dataflow._map_children(e, rep)
  body = rep(body)
  iv = interval_of(body)
  return iv


def test_interval(repo, f, expr):
  """Interval of a test expression: direct range test, helper call, or
  `X is not None and helper(...)` / `(X is not None) and (...)`. Returns (Interval, guards)
  where guards are the other conjuncts."""
  e, neg = au.strip_not(expr)
  if (isinstance(e, ast.BoolOp) and isinstance(e.op, ast.Or)) or (isinstance(e, ast.BinOp) and isinstance(e.op, ast.BitOr)
                                                                 and not isinstance(e.left, ast.Compare)):
    # De Morgan: `X is None or not reject(v)`  ==  not (`X is not None and reject(v)`)
    vals = list(e.values) if isinstance(e, ast.BoolOp) else [e.left, e.right]
    if any(isinstance(v, ast.Compare) and len(v.ops) == 1 and isinstance(v.ops[0], (ast.Is, ast.IsNot)) for v in vals):
      def negate(v):
        if isinstance(v, ast.Compare) and len(v.ops) == 1 and isinstance(v.ops[0], ast.Is):
          return ast.Compare(left=v.left, ops=[ast.IsNot()], comparators=v.comparators)
        if isinstance(v, ast.Compare) and len(v.ops) == 1 and isinstance(v.ops[0], ast.IsNot):
          return ast.Compare(left=v.left, ops=[ast.Is()], comparators=v.comparators)
        if isinstance(v, ast.UnaryOp) and isinstance(v.op, ast.Not):
          return v.operand
        return ast.UnaryOp(op=ast.Not(), operand=v)
      dual = ast.BoolOp(op=ast.And(), values=[negate(v) for v in vals])
      iv, others = test_interval(repo, f, dual)
      if iv is not None:
        if not neg:
          iv.accept_when = not iv.accept_when
        return iv, others
  conjuncts = [e]
  if isinstance(e, ast.BoolOp) and isinstance(e.op, ast.And):
    conjuncts = list(e.values)
  elif isinstance(e, ast.BinOp) and isinstance(e.op, ast.BitAnd):
    conjuncts = [e.left, e.right]
  found, others = None, []
  for c in conjuncts:
    iv = interval_of(c)
    if iv is None:
      c2, n2 = au.strip_not(c)
      iv = helper_interval(repo, f, c2) if isinstance(c2, ast.Call) else None
      if iv is not None and n2:
        iv.accept_when = not iv.accept_when
    if iv is not None and found is None:
      found = iv
    else:
      others.append(c)
  if found is None:
    iv = interval_of(expr)
    if iv is None:
      # a one-sided test `guard and v > hi` / `v < lo`: half an interval (the missing side is None)
      halves = [(c, _half(au.strip_not(c)[0]), au.strip_not(c)[1]) for c in conjuncts]
      cmp_ = [(c, h, n_) for c, h, n_ in halves if h is not None]
      rest = [c for c, h, n_ in halves if h is None]
      if len(cmp_) == 1 and all(isinstance(r_, ast.Compare) and len(r_.ops) == 1 and isinstance(r_.ops[0], (ast.Is, ast.IsNot)) for r_ in rest):
        c, (l, op, r), n_ = cmp_[0]
        lt = op in (ast.Lt, ast.LtE)
        strict = op in (ast.Lt, ast.Gt)
        # orientation: the side carrying a subscript/attribute of a range is the bound; default: right operand is the bound
        vnode, bound, v_below = l, r, lt
        if isinstance(l, ast.Subscript) and not isinstance(r, ast.Subscript):
          vnode, bound, v_below = r, l, not lt
        # the comparison (true) says v < bound: a *rejecting* test rejects values below `bound` => bound is the lower limit
        rejecting = not n_
        if rejecting:
          iv = Interval(vnode, bound if v_below else None, None if v_below else bound, strict if v_below else None, None if v_below else strict, False)
        else:
          iv = Interval(vnode, None if v_below else bound, bound if v_below else None, None if v_below else not strict, not strict if v_below else None, True)
        if neg:
          iv.accept_when = not iv.accept_when
        return iv, rest
    return (iv, []) if iv is not None else (None, [])
  if len(conjuncts) > 1:
    # test = guard and reject(v): accepted when the whole conjunction has truth `found.accept_when` only if ... keep polarity of the range part
    pass
  if neg:
    found.accept_when = not found.accept_when
  return found, others
