"""C19 — post-analysis screening removes exactly what it reports.

Decided (structure): (R1) the caller's frame is only read through .copy(); every
in-place mutation in TBRDiagnostics acts on an object allocated in the class;
get_data returns a copy.  (R2) what is stored under 'noisy_geos' /
'outlier_dates' is the very value used in the negated isin-filter applied to
the screened data on the geo / date column.  (R3) after every store to the
screened data in fit, every path to the exit re-aggregates
(_create_analysis_data) after the last such store.  (R4) the aggregation pivots
the target summed by (date, period) x group after relabelling exactly the
control and treatment labels.  (R5) the relabelled column is replaced, not
written in place through .loc (dtype-changing in-place overwrite raises in
current pandas).  (R6) noisy-geo detection pairs the i-th label with the i-th
row of the same pivoted table.
Not decided: the statistical detection results and independence of row order
inside pandas/statsmodels.
"""
import ast
import re

from mmsa import au, cfg as cfgmod, dataflow, pathcond
from mmsa.core import Undecided, norm, walk_no_nested

CLS = 'tbrdiagnostics.TBRDiagnostics'
EXPLANATION = (
    'Ownership/effect analysis of every mutation site of TBRDiagnostics (root allocation class), def-use agreement between the '
    'reported lists and the removal filters, must-follow rule on the CFG of fit (re-aggregation after every rebinding of the '
    'screened data), argument table of the pivot, relabel-construct classification and positional-pairing provenance.')
RULE_TEXT = 'one obligation per mutation site, per report/removal pair, per store to the screened data, per aggregation argument'

MUTATORS = ('drop', 'reset_index', 'set_index', 'sort_values', 'sort_index', 'fillna', 'rename', 'replace', 'dropna', 'insert',
            'pop', 'update', 'clip', 'drop_duplicates')


def _root(e):
  while isinstance(e, (ast.Attribute, ast.Subscript, ast.Call)):
    e = e.value if not isinstance(e, ast.Call) else e.func
  return e


def r1_ownership(repo, rep, cls):
  fit = inlined_fit(repo, cls)
  frame = fit.params[1]
  rep.fn(fit)
  # uses of the caller's frame in fit
  uses = [n for n in walk_no_nested(fit.node) if isinstance(n, ast.Name) and n.id == frame and isinstance(n.ctx, ast.Load)]
  n_sites = 0
  for u in uses:
    par = u._parent
    ok = isinstance(par, ast.Attribute) and par.attr == 'copy' and isinstance(par._parent, ast.Call)
    if not ok:
      # read-only uses are fine; aliasing or mutation is not
      st = au.enclosing_stmt(u)
      aliasing = isinstance(st, ast.Assign) and st.value is u
      attr_store = isinstance(st, ast.Assign) and any(norm(_root(t)) == frame and t is not u for t in st.targets)
      mut = isinstance(par, ast.Attribute) and isinstance(par._parent, ast.Call) and (
          par.attr in MUTATORS and au.is_const(au.kwarg(par._parent, 'inplace') or ast.Constant(False), True))
      rep.check(not (aliasing or attr_store or mut), 'R1/ownership', 'caller frame is not aliased or mutated: %s' % norm(st)[:60], fit.qualname,
                norm(st)[:120], 'fit() keeps or mutates the caller\'s DataFrame without copying it (%s): later screening edits the caller\'s data'
                % norm(st)[:100], fit.loc(st))
    n_sites += 1
  stores = [s for s in walk_no_nested(fit.node) if isinstance(s, ast.Assign) and any(norm(t) == 'self._data' for t in s.targets)]
  first = stores[0] if stores else None
  rep.check(first is not None and re.fullmatch(r'%s\.copy\((deep=True)?\)' % frame, norm(first.value)) is not None, 'R1/ownership',
            'screened data starts as a copy of the caller\'s frame', fit.qualname, norm(first)[:100] if first else 'no store',
            'self._data is initialised with %s, not a copy of the input frame' % (norm(first.value)[:60] if first else 'nothing'), fit.loc(first) if first else fit.loc())
  for s in walk_no_nested(fit.node):
    if isinstance(s, (ast.Assign, ast.AugAssign)):
      for t in (s.targets if isinstance(s, ast.Assign) else [s.target]):
        if isinstance(t, (ast.Subscript, ast.Attribute)) and norm(_root(t)) == frame:
          rep.violation('R1/ownership', fit.qualname, norm(s)[:120], 'fit() writes into the caller\'s frame: %s' % norm(s)[:100], fit.loc(s))
  # in-place mutation sites anywhere in the class: receiver must be allocated by the class
  for f in cls.all_functions():
    rep.fn(f)
    g = cfgmod.CFG(f.node)
    rd = dataflow.Reaching(g)
    for n in g.nodes:
      if n.kind != 'stmt':
        continue
      st = n.ast
      sites = []
      if isinstance(st, (ast.Assign, ast.AugAssign)):
        for t in (st.targets if isinstance(st, ast.Assign) else [st.target]):
          if isinstance(t, ast.Subscript) and not norm(t.value).startswith('self._diagnostics'):
            sites.append((t.value, norm(st)))
      for call in au.calls_in(st):
        if isinstance(call.func, ast.Attribute) and call.func.attr in MUTATORS and au.kwarg(call, 'inplace') is not None \
            and au.is_const(au.kwarg(call, 'inplace'), True):
          sites.append((call.func.value, norm(call)))
      for recv, txt in sites:
        base = recv
        while isinstance(base, ast.Attribute) and base.attr in ('loc', 'iloc', 'at', 'iat'):
          base = base.value
        n_sites += 1
        exp_ast = rd.expand(n, base, aliases=True)[0]
        exp = norm(exp_ast)
        fresh = bool(re.search(r'\.copy\(', exp)) or '.pivot_table(' in exp or exp.startswith(('pd.DataFrame(', 'pandas.DataFrame(')) \
            or exp in ('{}', '[]', 'dict()', 'list()', 'set()') or exp.startswith(('{', '['))
        if exp == 'self._analysis_data':
          # allocated by pivot_table in the same function?
          fresh = any(isinstance(s, ast.Assign) and norm(s.targets[0]) == 'self._analysis_data' and '.pivot_table(' in norm(s.value)
                      for s in walk_no_nested(f.node))
        if not fresh:
          # the receiver is the result of a call: pandas/numpy operations that build a new object are fresh; a call whose
          # result may be the receiver itself or a view of it is not decided; only a plain access path of shared state
          # (self._data, self._data[...], a parameter) is known to be shared
          NEW_OBJECT = {'groupby', 'sum', 'mean', 'agg', 'aggregate', 'unstack', 'stack', 'rename', 'reset_index', 'set_index', 'sort_values', 'sort_index', 'merge', 'join',
                        'assign', 'drop', 'dropna', 'fillna', 'astype', 'pivot', 'melt', 'concat', 'reindex', 'to_frame', 'apply', 'transform', 'map', 'where', 'mask',
                        'query', 'head', 'tail', 'filter', 'round', 'abs', 'cumsum', 'diff', 'T', 'transpose', 'copy', 'deepcopy', 'pivot_table', 'crosstab', 'DataFrame', 'Series'}
          cur_, verdict_ = exp_ast, None
          while True:
            if isinstance(cur_, ast.Call):
              nm_ = cur_.func.attr if isinstance(cur_.func, ast.Attribute) else (cur_.func.id if isinstance(cur_.func, ast.Name) else '')
              if nm_ in NEW_OBJECT and au.kwarg(cur_, 'inplace') is None and au.kwarg(cur_, 'copy') is None:
                verdict_ = 'fresh'
              else:
                verdict_ = 'open'
              break
            if isinstance(cur_, (ast.Attribute, ast.Subscript)):
              cur_ = cur_.value
              continue
            break
          if verdict_ == 'fresh':
            fresh = True
          elif verdict_ == 'open':
            rep.undecided('R1/ownership', '%s: %s' % (f.name, txt[:60]), 'the mutated object `%s` is the result of a call whose result may share storage with its receiver' % exp[:60], f.loc(st))
            continue
        rep.check(fresh, 'R1/ownership', '%s: mutated object %s is allocated by the class' % (f.name, exp[:50]), f.qualname, txt[:120],
                  'in-place modification %s acts on %s, which is not a fresh copy: the caller\'s frame (or a shared object) is modified'
                  % (txt[:80], exp[:60]), f.loc(st))
  rep.floor('ownership sites (uses of the input frame + in-place mutations)', n_sites, 3)
  gd = cls.methods.get('get_data')
  if gd is not None:
    rets = [s for s in walk_no_nested(gd.node) if isinstance(s, ast.Return) and s.value is not None and not au.is_const(s.value, None)]
    for r in rets:
      gctx_ = cfgmod.CFG(gd.node)
      grd_ = dataflow.Reaching(gctx_)
      rx_ = grd_.expand(gctx_.node_of(r), r.value, aliases=True)[0] if gctx_.node_of(r) is not None else r.value
      rep.check_term('.copy(' in norm(rx_) or 'deepcopy(' in norm(rx_), rx_, (), 'R1/ownership', 'get_data returns a copy', gd.qualname, norm(r),
                'get_data returns the internal frame itself: the caller can change the screened data', gd.loc(r))


def r2_r3_fit(repo, rep, cls):
  fit = inlined_fit(repo, cls)
  g = cfgmod.CFG(fit.node)
  rd = dataflow.Reaching(g)
  # report/removal pairs
  pairs = 0
  for key, colattr in (('noisy_geos', 'geo'), ('outlier_dates', 'date')):
    rep_nodes = [n for n in g.nodes if n.kind == 'stmt' and isinstance(n.ast, ast.Assign)
                 and any(norm(t) == "self._diagnostics['%s']" % key for t in n.ast.targets)]
    if len(rep_nodes) != 1:
      rep.undecided('R2/report-equals-removal', key, 'expected one store of the report entry, found %d' % len(rep_nodes), fit.loc())
      continue
    rn = rep_nodes[0]
    rv = rn.ast.value
    isins = []
    for n in g.nodes:
      if n.kind == 'stmt':
        for call in au.calls_in(n.ast):
          if isinstance(call.func, ast.Attribute) and call.func.attr == 'isin' and call.args:
            col = norm(call.func.value)
            if re.fullmatch(r'self\._data\[self\._df_names\.%s\]' % colattr, col):
              isins.append((n, call))
    if not isins:
      # no filter in the recognised form: any other membership filter, drop or re-binding of the screened data may do the removal
      other = [norm(c_)[:60] for n_ in g.nodes if n_.kind == 'stmt' for c_ in au.calls_in(n_.ast)
               if isinstance(c_.func, ast.Attribute) and c_.func.attr in ('isin', 'drop', 'query', 'mask', 'where', 'filter')]
      rebinds = [n_ for n_ in g.nodes if n_.kind == 'stmt' and isinstance(n_.ast, ast.Assign) and any(norm(t_) == 'self._data' for t_ in n_.ast.targets) and n_.id > rn.id]
      if other or rebinds:
        rep.undecided('R2/report-equals-removal', key, 'the reported %s are not removed through `self._data[self._df_names.%s].isin(...)`; the screened data are changed by %s, which is not followed'
                      % (key, colattr, (other + [norm(r_.ast)[:60] for r_ in rebinds])[0]), fit.loc(rn.ast))
        continue
    if len(isins) != 1:
      rep.violation('R2/report-equals-removal', fit.qualname, "removal of %s" % key,
                    'no filter `self._data[self._df_names.%s].isin(...)` found for the reported %s: the reported items are not removed from the screened data (or another column is filtered)'
                    % (colattr, key), fit.loc(rn.ast)) if not isins else rep.undecided('R2/report-equals-removal', key, 'several isin filters', fit.loc())
      continue
    fn, call = isins[0]
    pairs += 1
    same = rd.same_value(rn, rv, fn, call.args[0])
    rep.check(same, 'R2/report-equals-removal', "rows removed for '%s' are exactly the reported items" % key, fit.qualname,
              '%s vs isin(%s)' % (norm(rn.ast), norm(call.args[0])),
              "the value reported under '%s' (%s) is not the value used to filter the data (%s)" % (key, norm(rv), norm(call.args[0])), fit.loc(call))
    # the mask is negated and applied to self._data
    mask = fn.ast.targets[0].id if isinstance(fn.ast, ast.Assign) and isinstance(fn.ast.targets[0], ast.Name) else None
    applied = False
    if mask is None and isinstance(fn.ast, ast.Assign) and any(norm(t) == 'self._data' for t in fn.ast.targets):
      # the membership test is written inside the selection itself: self._data = self._data[~self._data[col].isin(values)]
      v0 = au.data_core(fn.ast.value)
      if isinstance(v0, ast.Subscript) and norm(v0.value) in ('self._data', 'self._data.loc'):
        sl0 = v0.slice
        if isinstance(sl0, ast.UnaryOp) and isinstance(sl0.op, ast.Invert) and norm(au.data_core(sl0.operand)) == norm(au.data_core(call)):
          applied = True
        elif norm(au.data_core(sl0)) == norm(au.data_core(call)):
          rep.violation('R2/report-equals-removal', fit.qualname, norm(fn.ast),
                        'the %s membership test selects the rows without negation: the reported rows are kept and all others removed' % key, fit.loc(fn.ast))
          applied = True
        else:
          rep.undecided('R2/report-equals-removal', key, 'the selection `%s` combines the membership test with something else: not followed' % norm(sl0)[:80], fit.loc(fn.ast))
          continue
    for n in g.nodes:
      if n.kind == 'stmt' and isinstance(n.ast, ast.Assign) and any(norm(t) == 'self._data' for t in n.ast.targets):
        v = n.ast.value
        if isinstance(v, ast.Subscript) and norm(v.value) == 'self._data':
          sl = v.slice
          if mask and isinstance(sl, ast.UnaryOp) and isinstance(sl.op, ast.Invert) and norm(sl.operand) == mask \
              and rd.single_def(n, mask) is not None and rd.single_def(n, mask).node is fn \
              and not (isinstance(fn.ast.value, ast.UnaryOp) and isinstance(fn.ast.value.op, ast.Invert)):
            applied = True
          elif mask and norm(sl) == mask and rd.single_def(n, mask) is not None and rd.single_def(n, mask).node is fn \
              and isinstance(fn.ast.value, ast.UnaryOp) and isinstance(fn.ast.value.op, ast.Invert) and any(x_ is call for x_ in ast.walk(fn.ast.value.operand)):
            applied = True          # the mask itself is the negated membership test (keep = ~col.isin(values))
          elif mask and norm(sl) == mask and rd.single_def(n, mask) is not None and rd.single_def(n, mask).node is fn:
            rep.violation('R2/report-equals-removal', fit.qualname, norm(n.ast),
                          'the %s mask is applied without negation: the reported rows are kept and all others removed' % key, fit.loc(n.ast))
            applied = True
    if not applied:
      # removal by row label: self._data.drop(index=self._data.index[mask]) removes every row that SHARES a label with a
      # reported row -- more than the reported rows when the caller's frame has a non-unique index (pd.concat of two frames)
      by_label = []
      from mmsa.types import FuncCtx as _FC
      for h_ in fit.cls.all_functions() if fit.cls is not None else [fit]:
        hc_ = _FC.of(h_)
        for n_ in hc_.g.nodes:
          if n_.kind not in ('stmt', 'return'):
            continue
          for c_ in au.calls_in(n_.ast):
            if isinstance(c_.func, ast.Attribute) and c_.func.attr == 'drop' and 'self._data' in norm(hc_.rd.expand(n_, c_.func.value)[0]):
              for a_ in list(c_.args) + [k_.value for k_ in c_.keywords if k_.arg in (None, 'index', 'labels')]:
                ax_ = hc_.rd.expand(n_, a_)[0]
                if any(isinstance(x_, ast.Attribute) and x_.attr == 'index' for x_ in ast.walk(ax_)):
                  by_label.append(c_)
      if by_label:
        rep.violation('R2/report-equals-removal', fit.qualname, norm(by_label[0])[:120],
                      'the reported %s are removed by row label (`%s`): when the input frame has a non-unique index every row sharing a label with a reported row is removed too, so the screened data are not the input minus the reported rows'
                      % (key, norm(by_label[0])[:80]), fit.loc(by_label[0]))
        continue
      # the removal is not in a recognised form: is the data handed to something that could do it, or filtered in another spelling?
      other_filters = [n_ for n_ in g.nodes if n_.kind == 'stmt' and isinstance(n_.ast, ast.Assign) and any(norm(t_) == 'self._data' for t_ in n_.ast.targets)
                       and 'self._data' in norm(n_.ast.value)]
      if other_filters or au.delegations(repo, fit):
        rep.undecided('R2/report-equals-removal', "negated '%s' mask is applied to the screened data" % key,
                      'self._data is re-bound (%s) but not by the recognised negated-mask subscript' % (norm(other_filters[0].ast)[:60] if other_filters else 'in a helper that is not followed'), fit.loc(fn.ast))
        continue
    rep.check(applied, 'R2/report-equals-removal', "negated '%s' mask is applied to the screened data" % key, fit.qualname,
              'mask %s' % mask, 'the mask of reported %s is never applied (negated) to self._data' % key, fit.loc(fn.ast))
  rep.floor('report/removal pairs', pairs, 2)
  # R3: re-aggregation after the last rebinding of self._data on every path
  stores = [n for n in g.nodes if n.kind == 'stmt' and isinstance(n.ast, ast.Assign) and any(norm(t) == 'self._data' for t in n.ast.targets)]
  reagg = {n for n in g.nodes if n.kind == 'stmt' and any(norm(c.func) == 'self._create_analysis_data' for c in au.calls_in(n.ast))}
  rep.floor('stores to the screened data in fit', len(stores), 3)
  for s in stores:
    p = g.path_avoiding(s, lambda n: n is g.exit, lambda n: n in reagg, cfgmod.no_exc)
    rep.analysed['paths'] += 1
    if p is not None:
      # is some complete path (entry -> store -> exit without re-aggregation) feasible under its own conditions?
      try:
        feasible = None
        for full in g.enumerate_paths(g.entry, lambda n: n is g.exit, cfgmod.no_exc, max_paths=4000, back_limit=0):
          idx = [i for i, (n_, _l) in enumerate(full) if n_ is s]
          if not idx or any(n_ in reagg for n_, _l in full[idx[-1]:]):
            continue
          pf = pathcond.PathFacts(full, rd)
          if pf.feasible:
            feasible = full
            break
        if feasible is None:
          p = None
      except Undecided:
        pass
    if p is not None:
      by_value = [x_ for x_ in ast.walk(fit.node) if isinstance(x_, ast.Attribute) and x_.attr == '_create_analysis_data'
                  and not (isinstance(getattr(x_, '_parent', None), ast.Call) and x_._parent.func is x_)]
      indirect = [c_ for n_, _l in p for c_ in (au.calls_in(n_.ast) if n_.ast is not None and n_.kind == 'stmt' else [])
                  if isinstance(c_.func, ast.Name) and not c_.func.id[:1].isupper() and c_.func.id not in ('len', 'list', 'set', 'sorted', 'print', 'max', 'min')]
      if by_value or indirect:
        rep.undecided('R3/reaggregate', 'store `%s`' % norm(s.ast)[:50], 'the re-aggregation is invoked indirectly (%s): not followed'
                      % (('self._create_analysis_data is handed over as a value' if by_value else 'call of the local callable `%s`' % norm(indirect[0])[:40])), fit.loc(s.ast))
        continue
    rep.check(p is None, 'R3/reaggregate', 'store `%s` is followed by re-aggregation on every path' % norm(s.ast)[:50], fit.qualname,
              norm(s.ast)[:120], 'after `%s` some path reaches the end of fit() without calling _create_analysis_data(): the aggregated series still contain the removed rows (path: %s)'
              % (norm(s.ast)[:60], ' -> '.join('L%d' % n.lineno for n, _ in (p or []) if n.lineno)), fit.loc(s.ast))


def r4_r5_aggregation(repo, rep, cls):
  f = cls.methods.get('_create_analysis_data')
  if f is None:
    raise Undecided('_create_analysis_data vanished')
  rep.fn(f)
  g = cfgmod.CFG(f.node)
  rd = dataflow.Reaching(g)
  piv = None
  for n in g.nodes:
    if n.kind == 'stmt':
      for call in au.calls_in(n.ast):
        if isinstance(call.func, ast.Attribute) and call.func.attr == 'pivot_table':
          piv = (n, call)
  # the labels of the aggregated table (dates) are what the outlier screening reports and what fit() then looks up in the
  # date column of the screened data: a conversion of the key column applied to the aggregation's working copy only
  # (to_datetime, astype, normalisation) makes the reported labels differ from the stored values, so nothing is removed
  CONVERT = ('to_datetime', 'astype', 'to_numeric', 'to_period', 'to_timestamp', 'normalize', 'floor', 'ceil', 'round', 'strftime', 'map', 'apply', 'tz_localize', 'tz_convert')
  for n_ in g.nodes:
    if n_.kind != 'stmt' or not isinstance(n_.ast, ast.Assign):
      continue
    for t_ in n_.ast.targets:
      if not (isinstance(t_, ast.Subscript) and not norm(t_.value).startswith('self.')):
        continue
      key_ = norm(rd.expand(n_, t_.slice)[0])
      if key_ not in ('self._df_names.date', 'self._df_names.geo'):
        continue
      conv = [c_ for c_ in au.calls_in(n_.ast.value) if (c_.func.attr if isinstance(c_.func, ast.Attribute) else getattr(c_.func, 'id', '')) in CONVERT]
      if not conv:
        continue
      same_elsewhere = any(isinstance(x_, ast.Call) and (x_.func.attr if isinstance(x_.func, ast.Attribute) else getattr(x_.func, 'id', '')) in CONVERT
                           and 'self._data' in norm(x_) for m_ in cls.all_functions() if m_ is not f for x_ in ast.walk(m_.node))
      rep.check3(None if same_elsewhere else False, 'R4/aggregation', 'the key columns of the aggregated table hold the values of the screened data', f.qualname, norm(n_.ast)[:120],
                 'the %s column of the working copy is converted with `%s` before the aggregation: the labels of the aggregated table (which the screening reports) are no longer the values stored in self._data, so fit() looks the reported %s up in the unconverted column and removes nothing'
                 % (key_.split('.')[-1], norm(conv[0])[:60], 'dates' if key_.endswith('date') else 'geos'), f.loc(n_.ast),
                 why_open='the same kind of conversion is applied to self._data elsewhere in the class: whether both agree is not decided')
  if piv is None:
    # a two-way split by a Boolean key: groupby([... , data[group] == treatment]) puts every row that is not in the named
    # group into the other class -- rows of neither group (unassigned geos, NaN labels) are then counted as control /
    # treatment, unless the rows were first restricted to the two groups
    for n_ in g.nodes:
      if n_.kind != 'stmt':
        continue
      for call_ in au.calls_in(n_.ast):
        if not (isinstance(call_.func, ast.Attribute) and call_.func.attr == 'groupby' and call_.args):
          continue
        keys_ = rd.expand(n_, call_.args[0], depth=10)[0]
        for k_ in (keys_.elts if isinstance(keys_, (ast.List, ast.Tuple)) else [keys_]):
          core_ = k_
          while isinstance(core_, ast.Call) and isinstance(core_.func, ast.Attribute) and core_.func.attr in ('rename', 'astype', 'to_numpy', 'copy'):
            core_ = core_.func.value
          if isinstance(core_, ast.Compare) and len(core_.ops) == 1 and isinstance(core_.ops[0], (ast.Eq, ast.NotEq)) \
              and re.search(r'_groups\.(treatment|control)', norm(core_.comparators[0])) and re.search(r'_df_names\.group', norm(core_.left)):
            whole_ = norm(rd.expand(n_, call_.func.value, depth=10)[0])
            restricted_ = '.isin(' in whole_ and '_groups.control' in whole_ and '_groups.treatment' in whole_
            rep.check3(True if restricted_ else (False if not au.aliens(core_, ()) else None), 'R4/aggregation', 'the two experiment arms are separated by label, rows of other groups are left out',
                       f.qualname, norm(k_)[:120],
                       'the rows are split by the Boolean key `%s`: every row whose group is not that one (unassigned geos, NaN labels) falls into the other arm and is added to its totals'
                       % norm(k_)[:80], f.loc(call_), why_open='the grouping key reads unresolved names')
            return
    rep.undecided('R4/aggregation', f.name, 'no pivot_table call', f.loc())
    return
  n, call = piv
  POS_ = {'values': 0, 'index': 1, 'columns': 2, 'aggfunc': 3}

  def arg(name):
    v = au.arg(call, POS_[name], name)
    return norm(rd.expand(n, v)[0]) if v is not None else None
  idx, cols, vals, agg = arg('index'), arg('columns'), arg('values'), arg('aggfunc')
  def argx(name):
    v_ = au.arg(call, POS_[name], name)
    return rd.expand(n, v_)[0] if v_ is not None else ast.Constant(value=None)
  rep.check_term(idx is not None and 'self._df_names.date' in idx and 'self._df_names.period' in idx and 'group' not in idx and 'geo' not in idx, argx('index'), (),
            'R4/aggregation', 'rows are (date, period)', f.qualname, 'index=%s' % idx, 'pivot index is %s, not (date, period)' % idx, f.loc(call))
  rep.check_term(cols is not None and re.search(r'self\._df_names\.group', cols) is not None and 'date' not in cols.replace('self._df_names.date, self._df_names.period, ', ''), argx('columns'), (),
            'R4/aggregation', 'columns are the relabelled group', f.qualname, 'columns=%s' % cols, 'pivot columns are %s, not the group label' % cols, f.loc(call))
  rep.check_term(vals is not None and 'self._target' in vals, argx('values'), (), 'R4/aggregation', 'values are the target metric', f.qualname, 'values=%s' % vals,
            'pivot values are %s, not the target' % vals, f.loc(call))
  rep.check_term(agg in ('np.sum', "'sum'", 'numpy.sum', 'sum'), argx('aggfunc'), (), 'R4/aggregation', 'aggregation is the sum', f.qualname, 'aggfunc=%s' % agg,
            'rows are aggregated with %s instead of the sum (per-date totals)' % agg, f.loc(call))
  # relabel construct: exactly control->x, treatment->y, others dropped (NaN label is dropped by the pivot)
  relabel = None
  for m in g.nodes:
    if m.kind == 'stmt' and isinstance(m.ast, ast.Assign):
      t = m.ast.targets[0]
      tgt = norm(t)
      if isinstance(t, ast.Subscript):
        # the column may be named through a local: data[group_col] with group_col = self._df_names.group
        sl = t.slice
        if isinstance(sl, ast.Tuple):
          sl_txt = ', '.join(norm(rd.expand(m, x)[0]) for x in sl.elts)
        else:
          sl_txt = norm(rd.expand(m, sl)[0])
        tgt = '%s[%s]' % (norm(t.value), sl_txt)
      if re.fullmatch(r'\w+\[self\._df_names\.group\]', tgt) or re.fullmatch(r'\w+\.loc\[:, self\._df_names\.group\]', tgt):
        relabel = (m, t)
  if relabel is None:
    rep.undecided('R4/aggregation', f.name, 'group relabelling store not found', f.loc())
    return
  m, t = relabel
  v = norm(rd.expand(m, m.ast.value)[0])
  mm = re.search(r"\.map\(\{(.+?)\}", v)
  if mm:
    body = mm.group(1)
    keys = set(re.findall(r'self\._groups\.(\w+):', body))
    vals_ = re.findall(r":\s*'(\w)'", body)
    rep.check_term(keys == {'control', 'treatment'} and sorted(vals_) == ['x', 'y'] and re.search(r"self\._groups\.control: 'x'", body) is not None, rd.expand(m, m.ast.value)[0], (),
              'R4/aggregation', 'only control->x and treatment->y are relabelled; other groups are dropped', f.qualname, v[:140],
              'group relabelling %s does not map exactly control to x and treatment to y' % v[:120], f.loc(m.ast))
  elif 'np.where(' in v or 'numpy.where(' in v:
    rep.violation('R4/aggregation', f.qualname, v[:160],
                  'groups are relabelled with a two-way np.where: every row that is not control (unassigned or other groups) is summed into the treatment series y',
                  f.loc(m.ast))
  else:
    rep.undecided('R4/aggregation', f.name, 'relabel construct not understood: %s' % v[:100], f.loc(m.ast))
  # R5: dtype-changing in-place overwrite through .loc
  if isinstance(t, ast.Subscript) and norm(t.value).endswith('.loc') and ".map(" in v and re.search(r":\s*'", v):
    rep.violation('R5/inplace-dtype', f.qualname, norm(m.ast)[:140],
                  'string labels are written into the existing (numeric) group column through .loc: pandas refuses the dtype-changing in-place assignment (TypeError), so fit() fails on numeric group labels',
                  f.loc(m.ast))
  else:
    rep.ok('R5/inplace-dtype', 'relabelled group column replaces the old column', loc=f.loc(m.ast))


def r6_pairing(repo, rep, cls):
  f = cls.methods.get('_detect_noisy_geos')
  if f is None:
    raise Undecided('_detect_noisy_geos vanished')
  rep.fn(f)
  g = cfgmod.CFG(f.node)
  rd = dataflow.Reaching(g)
  n_pairs = 0
  # index contexts: for-loops and comprehensions binding an integer index
  contexts = []     # (index variable, [(cfg node, subtree)])
  for loop in [n for n in g.nodes if n.kind == 'for']:
    contexts.append((norm(loop.ast.target), [(n, n.ast) for n in g.loop_body_nodes(loop) if n.kind == 'stmt']))
  for n in g.nodes:
    if n.kind not in ('stmt', 'return') or n.ast is None or isinstance(n.ast, (ast.FunctionDef, ast.ClassDef)):
      continue
    for comp in ast.walk(n.ast):
      if isinstance(comp, (ast.ListComp, ast.SetComp, ast.DictComp, ast.GeneratorExp)):
        for gen in comp.generators:
          if isinstance(gen.target, ast.Name):
            contexts.append((gen.target.id, [(n, comp)]))
  for iv, parts in contexts:
    rows, labels = [], []
    for n, tree in parts:
      for sub in ast.walk(tree):
        if isinstance(sub, ast.Subscript) and norm(sub.slice) == iv:
          if isinstance(sub.value, ast.Attribute) and sub.value.attr == 'iloc':
            rows.append((n, sub.value.value))
          else:
            labels.append((n, sub.value))
    for (rn, rbase) in rows:
      for (ln, lbase) in labels:
        n_pairs += 1
        le = norm(rd.expand(ln, lbase, depth=1)[0]) if isinstance(lbase, ast.Name) else norm(au.data_core(lbase))       # geos = table.index, or table.index itself
        # label container must be <rbase>.index with rbase denoting the same definition
        m = re.fullmatch(r'(\w+)\.index(?:\.tolist\(\)|\.values|\.to_list\(\))?', le)
        same = False
        if m and isinstance(rbase, ast.Name) and m.group(1) == rbase.id:
          d1 = rd.defs_at(rn, rbase.id)
          dlab = rd.single_def(ln, lbase.id) if isinstance(lbase, ast.Name) else None
          at = dlab.node if dlab is not None else ln
          same = rd.defs_at(at, rbase.id) == d1
        rep.check(same, 'R6/positional-pairing', 'label %s[%s] and row %s.iloc[%s] come from the same table' % (norm(lbase), iv, norm(rbase), iv),
                  f.qualname, '%s[%s] ~ %s.iloc[%s]' % (le, iv, norm(rbase), iv),
                  'the i-th geo label is taken from `%s` while the i-th time series is row i of `%s`: the two orders differ when input rows are not sorted by geo, so the wrong geo is reported and removed'
                  % (le, norm(rbase)), f.loc(ln.ast))
  # zip(labels, rows): the same pairing without an index variable
  def role(node_, e_):
    x_ = rd.expand(node_, e_, depth=1)[0] if isinstance(e_, ast.Name) else e_
    t_ = norm(x_)
    m_ = re.fullmatch(r'(\w+)\.index(?:\.tolist\(\)|\.values|\.to_list\(\)|\.to_numpy\(\))?', t_)
    if m_:
      return ('labels', m_.group(1), t_)
    m_ = re.fullmatch(r'(\w+)(?:\.values|\.to_numpy\([^)]*\)|\.iterrows\(\)|\.itertuples\([^)]*\))?', t_)
    if m_:
      # the table, possibly through a local holding its array
      base_ = m_.group(1)
      d_ = rd.single_def(node_, base_)
      if d_ is not None and d_.how == 'assign' and d_.value is not None:
        m2_ = re.fullmatch(r'(\w+)(?:\.values|\.to_numpy\([^)]*\))', norm(d_.value))
        if m2_:
          base_ = m2_.group(1)
      return ('rows', base_, t_)
    full_ = norm(rd.expand(node_, e_, depth=6, aliases=True)[0])
    if re.search(r'\.unique\(\)|\.drop_duplicates\(', full_):
      return ('appearance', None, full_)
    return (None, None, t_)
  zips = []
  for n in g.nodes:
    trees = []
    if n.kind == 'for' and isinstance(n.ast.iter, ast.Call) and norm(n.ast.iter.func) == 'zip' and len(n.ast.iter.args) == 2:
      trees.append(n.ast.iter)
    if n.kind in ('stmt', 'return') and n.ast is not None and not isinstance(n.ast, (ast.FunctionDef, ast.ClassDef)):
      for comp in ast.walk(n.ast):
        if isinstance(comp, (ast.ListComp, ast.SetComp, ast.DictComp, ast.GeneratorExp)):
          for gen in comp.generators:
            if isinstance(gen.iter, ast.Call) and norm(gen.iter.func) == 'zip' and len(gen.iter.args) == 2:
              trees.append(gen.iter)
    for z in trees:
      zips.append((n, z))
  for n, z in zips:
    ra, rb = role(n, z.args[0]), role(n, z.args[1])
    kinds = {ra[0], rb[0]}
    if kinds == {'labels', 'rows'}:
      n_pairs += 1
      lab, row = (ra, rb) if ra[0] == 'labels' else (rb, ra)
      rep.check(lab[1] == row[1], 'R6/positional-pairing', 'zip pairs the labels and the rows of one table (%s)' % row[1], f.qualname, norm(z)[:100],
                'labels of `%s` are paired by position with rows of `%s`: the two orders differ, so the wrong geo is reported and removed' % (lab[1], row[1]), f.loc(z))
    elif 'appearance' in kinds and 'rows' in kinds:
      n_pairs += 1
      app, row = (ra, rb) if ra[0] == 'appearance' else (rb, ra)
      rep.violation('R6/positional-pairing', f.qualname, norm(z)[:100],
                    'geo labels in order of first appearance in the input rows (`%s`) are paired by position with the rows of the table `%s`, which are in sorted label order: '
                    'when the input rows are not sorted by geo the wrong geo is reported and removed' % (app[2][:60], row[1]), f.loc(z))
    elif kinds & {'labels', 'rows', 'appearance'}:
      rep.undecided('R6/positional-pairing', norm(z)[:60], 'one side of the positional pairing is not recognised as labels or rows of a table', f.loc(z))
  rep.floor('positional label/row pairings', n_pairs, 1)
  # the geo-by-date table itself must be built by label (pivot), on every path: stacking per-geo values in row order
  # makes the series depend on the order of the input rows
  n_tab = 0
  for n in g.nodes:
    if n.kind != 'stmt' or not isinstance(n.ast, ast.Assign):
      continue
    txt = norm(rd.expand(n, n.ast.value, depth=3)[0])
    if 'pivot_table(' in norm(n.ast.value) or 'pivot(' in norm(n.ast.value) or ('groupby(' in norm(n.ast.value) and 'unstack(' in norm(n.ast.value)):
      n_tab += 1
      rep.ok('R6/label-based-table', 'geo-by-date table built by label: %s' % norm(n.ast.value)[:60], loc=f.loc(n.ast))
    elif re.search(r'(np|numpy)\.(vstack|stack|array|column_stack|row_stack)\(', norm(n.ast.value)) and re.search(r'groupby\(|for \w+(, \w+)? in ', txt) \
        and re.search(r'\.to_numpy\(\)|\.values\b|\.tolist\(\)', txt):
      n_tab += 1
      rep.violation('R6/label-based-table', f.qualname, norm(n.ast)[:140],
                    'the geo-by-date table is assembled by stacking the values of each geo in input row order (`%s`): the columns are labelled with sorted dates but the values are not aligned by date, so shuffling the rows changes which geos are reported'
                    % norm(n.ast.value)[:100], f.loc(n.ast))
  rep.floor('constructions of the geo-by-date table', n_tab, 1)


KEEP_AS_CALLS = {'_create_analysis_data', '_detect_noisy_geos', '_detect_outliers', '_correlation_test', '_correlation_bound', '_min_correlation_threshold'}


def inlined_fit(repo, cls):
  from mmsa import inline
  fit = cls.methods.get('fit')
  if fit is None:
    raise Undecided('TBRDiagnostics.fit vanished')
  return inline.inline_function(repo, fit, lambda h: h.name.startswith('_') and h.name not in KEEP_AS_CALLS)


def run(repo, rep, tier):
  cls = repo.cls(CLS)
  r1_ownership(repo, rep, cls)
  r2_r3_fit(repo, rep, cls)
  r4_r5_aggregation(repo, rep, cls)
  r6_pairing(repo, rep, cls)
  from mmsa import tbrrules
  tbrrules.kwarg_subdict_rule(repo, rep, 'R4/aggregation')
