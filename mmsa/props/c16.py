"""C16 — eligibility tables are validated and partitioned correctly.

Decided: (R1) the right-hand sides of GeoAssignments.__init__, evaluated as
Boolean functions of the three membership atoms (c, t, x) on all 8 rows, give
exactly the class the documentation assigns to each row: the seven classes
partition the legal rows and the all-zero row is in none (complete: finite
algebra).  (R2) storing the validated table is dominated by the six rejecting
guards, each leaving by `raise ValueError`, the input is copied first and IDs
are canonicalised to str before uniqueness is tested.  (R3) subset selection
narrows by label in the given order, positional labels are taken after the
narrowing, index mode without a subset raises ValueError, and the three
membership sets come from their own columns.  (R4) the optional subset is
tested with `is None`, not truthiness.
Not decided: what pandas accepts as a column of 0/1 values (dtype coercions).
"""
import ast
import os
import re

from mmsa import au, boolset, cfg as cfgmod, dataflow
from mmsa.core import Undecided, norm, walk_no_nested

EXPLANATION = (
    'Exact truth-table evaluation (8 rows) of the set algebra in GeoAssignments.__init__ against the documented row table; '
    'dominator analysis of the validation chain of GeoEligibility.__init__ (six guard classes recognised on alias-expanded '
    'conditions, exception type resolved); ordering/dominance rules for subset and index selection; None-vs-empty rule.')
RULE_TEXT = 'one obligation per (class field, row), per guard class, per selection clause; all are non-trivial'

# documented table (geoeligibility.GeoEligibility.__init__ docstring): (control, treatment, exclude) -> class
DOC_ROWS = {
    (0, 0, 1): 'x_fixed',   # geo must be excluded
    (0, 1, 0): 't_fixed',   # geo must be assigned to treatment
    (1, 0, 0): 'c_fixed',   # geo must be assigned to control
    (1, 1, 1): 'ctx',       # can be excluded, or included in either control or treatment
    (0, 1, 1): 'tx',        # only to treatment, or excluded
    (1, 0, 1): 'cx',        # only to control, or excluded
    (1, 1, 0): 'ct',        # either control or treatment but never excluded
}
CLASSES = ['c_fixed', 't_fixed', 'x_fixed', 'ct', 'cx', 'ctx', 'tx']


def class_functions(repo, extra_atoms=()):
  """(env, field -> truth table mask over atoms (c, t, x), init) of the unrestricted constructor path."""
  env, outcomes, init = class_outcomes(repo, extra_atoms)
  general = [flds for H, flds in outcomes if H == env.TRUE]
  if not general:
    raise Undecided('GeoAssignments.__init__ has no unconditional path')
  return env, general[0], init


def class_outcomes(repo, extra_atoms=()):
  """[(row mask allowed on the path, field -> truth table mask)] per path of GeoAssignments.__init__."""
  cls = repo.cls('geoeligibility.GeoAssignments')
  init = cls.methods.get('__init__')
  if init is None:
    raise Undecided('GeoAssignments.__init__ vanished (dataclass-generated constructor cannot be evaluated)')
  params = init.params
  if len(params) != 4:
    raise Undecided('GeoAssignments.__init__ signature changed: %s' % params)
  selfn = params[0]
  env = boolset.Env(['c', 't', 'x'] + list(extra_atoms))
  local = {params[1]: env.atom('c'), params[2]: env.atom('t'), params[3]: env.atom('x')}
  fields = {}

  def lookup(e):
    if isinstance(e, ast.Name):
      if e.id in local:
        return local[e.id]
      raise Undecided('unknown name %s in GeoAssignments.__init__' % e.id)
    if isinstance(e, ast.Attribute) and isinstance(e.value, ast.Name) and e.value.id == selfn:
      if e.attr in fields:
        return fields[e.attr]
      raise Undecided('field %s read before it is set' % e.attr)
    return None

  def universal(e, taken):
    """Row mask allowed when test `e` has outcome `taken`: tests about whole sets restrict the generic element only in
    their universal direction (A.isdisjoint(B) true: no element in both; false: nothing known pointwise)."""
    neg = False
    while isinstance(e, ast.UnaryOp) and isinstance(e.op, ast.Not):
      e, neg = e.operand, not neg
    holds = taken != neg
    if isinstance(e, ast.Call) and isinstance(e.func, ast.Attribute) and len(e.args) == 1 and e.func.attr in ('isdisjoint', 'issubset', 'issuperset'):
      A, B = boolset.eval_set(env, e.func.value, lookup), boolset.eval_set(env, e.args[0], lookup)
      if not holds:
        return env.TRUE
      if e.func.attr == 'isdisjoint':
        return env.neg(A & B)
      return env.implies(A, B) if e.func.attr == 'issubset' else env.implies(B, A)
    if isinstance(e, ast.Compare) and len(e.ops) == 1 and isinstance(e.ops[0], (ast.LtE, ast.GtE)):
      A, B = boolset.eval_set(env, e.left, lookup), boolset.eval_set(env, e.comparators[0], lookup)
      if not holds:
        return env.TRUE
      return env.implies(A, B) if isinstance(e.ops[0], ast.LtE) else env.implies(B, A)
    # truthiness of a set expression: `if c & t:` ... else-branch means the set is empty
    try:
      A = boolset.eval_set(env, e, lookup)
    except Undecided:
      raise Undecided('branch condition not understood in GeoAssignments.__init__: %s' % norm(e))
    if A is None:
      raise Undecided('branch condition not understood in GeoAssignments.__init__: %s' % norm(e))
    return env.TRUE if holds else env.neg(A)

  g = cfgmod.CFG(init.node)
  outcomes = []
  for path in g.enumerate_paths(g.entry, lambda n: n is g.exit, cfgmod.no_exc, back_limit=0):
    local.clear()
    local.update({params[1]: env.atom('c'), params[2]: env.atom('t'), params[3]: env.atom('x')})
    fields.clear()
    H = env.TRUE
    for i, (n, lab) in enumerate(path):
      st = n.ast
      if n.kind in ('entry', 'exit', 'return'):
        continue
      if n.kind == 'test':
        taken = path[i + 1][1] == 'true'
        H &= universal(n.expr, taken)
        continue
      if n.kind != 'stmt' or (isinstance(st, ast.Expr) and isinstance(st.value, ast.Constant)) or isinstance(st, ast.Pass):
        if n.kind == 'stmt':
          continue
        raise Undecided('statement not understood in GeoAssignments.__init__: %s' % n.text())
      if isinstance(st, (ast.FunctionDef, ast.ClassDef)):
        continue        # a local helper: its calls have been inlined where it is used
      if not isinstance(st, ast.Assign):
        raise Undecided('statement not understood in GeoAssignments.__init__: %s' % norm(st))
      # pairs (target, value): chained assignment a = b = v and parallel assignment x, y = v, w
      pairs = []
      for t in st.targets:
        if isinstance(t, (ast.Tuple, ast.List)) and isinstance(st.value, (ast.Tuple, ast.List)) and len(t.elts) == len(st.value.elts):
          pairs += list(zip(t.elts, st.value.elts))
        elif isinstance(t, (ast.Tuple, ast.List)):
          raise Undecided('unpacking not understood in GeoAssignments.__init__: %s' % norm(st)[:80])
        else:
          pairs.append((t, st.value))
      vals = [boolset.eval_set(env, dataflow.fold(dataflow.clone(v_)), lookup) for _, v_ in pairs]      # right-hand sides first
      for (t, _), v in zip(pairs, vals):
        if isinstance(t, ast.Name):
          local[t.id] = v
        elif isinstance(t, ast.Attribute) and isinstance(t.value, ast.Name) and t.value.id == selfn:
          fields[t.attr] = v
        else:
          raise Undecided('target not understood: %s' % norm(t))
    outcomes.append((H, dict(fields)))
  if not outcomes:
    raise Undecided('GeoAssignments.__init__ has no normal path')
  return env, outcomes, init


def r1_partition(repo, rep):
  env, outcomes, init = class_outcomes(repo)
  rep.fn(init)
  c, t, x = env.atom('c'), env.atom('t'), env.atom('x')
  n = 0
  for H, fields in outcomes:
    under = '' if H == env.TRUE else ' on the path where only rows %s can occur' % sorted(env.table(H & (c | t | x), ['c', 't', 'x']))
    for name, want in (('c', c), ('t', t), ('x', x), ('all', c | t | x)):
      if name not in fields:
        rep.violation('R1/partition', init.qualname, 'self.%s never set' % name, 'GeoAssignments never sets %s%s' % (name, under), init.loc())
        continue
      n += 1
      rep.check(fields[name] & H == want & H, 'R1/partition', 'field %s is %s%s' % (name, {'all': 'c|t|x'}.get(name, name), under), init.qualname,
                'self.%s' % name, 'GeoAssignments.%s is not %s%s: rows %s' % (name, name, under, sorted(env.table(fields[name] & H))), init.loc())
    for cls_name in CLASSES:
      if cls_name not in fields:
        rep.violation('R1/partition', init.qualname, 'self.%s never set' % cls_name, 'GeoAssignments never sets class %s%s' % (cls_name, under), init.loc())
        continue
      rows = env.table(fields[cls_name] & H, ['c', 't', 'x'])
      want = {r for r, k in DOC_ROWS.items() if k == cls_name} & env.table(H, ['c', 't', 'x'])
      n += 1
      rep.check(rows == want, 'R1/partition', 'class %s holds exactly row %s%s' % (cls_name, sorted(want), under), init.qualname,
                'self.%s%s' % (cls_name, under),
                'class %s contains eligibility rows %s but the documented table assigns it %s%s: geos are classified wrongly'
                % (cls_name, sorted(rows), sorted(want), under), init.loc())
    # partition facts (follow from the above but stated on their own)
    have = [fields[k] & H for k in CLASSES if k in fields]
    union = 0
    disjoint = True
    for i, a_ in enumerate(have):
      union |= a_
      for b_ in have[i + 1:]:
        if a_ & b_:
          disjoint = False
    legal = (c | t | x) & H
    rep.check(disjoint and union == legal, 'R1/partition', 'seven classes are pairwise disjoint and cover exactly the legal rows%s' % under,
              init.qualname, 'class algebra%s' % under, 'the seven classes do not partition the legal rows%s' % under, init.loc())
  rep.floor('class/field formulas evaluated', n, 11)
  rep.extra['exhaustive_rows'] = 8
  rep.extra['constructor_paths'] = len(outcomes)


GUARDS = [
    ('geo-column', lambda t: re.search(r"'geo' not in .*columns", t) or re.search(r"'geo' in .*columns", t)),
    ('duplicate-columns', lambda t: 'columns.duplicated()' in t or re.search(r'columns\)?\.is_unique', t)),
    ('value-columns', lambda t: ('issubset' in t or 'issuperset' in t or '<=' in t or '>=' in t or 'not in' in t or ' - ' in t or '.difference(' in t)
     and 'columns' in t and "'control'" in t and "'treatment'" in t and "'exclude'" in t),
    ('duplicate-ids', lambda t: re.search(r"(\['geo'\]|\.geo)\.duplicated\(\)", t) or re.search(r"(\['geo'\]|\.geo)\.is_unique", t)
     or re.search(r"(\['geo'\]|\.geo)\.nunique\(\)", t)),
    ('zero-one', lambda t: '{0, 1}' in t or '[0, 1]' in t or '(0, 1)' in t),
    ('zero-row', lambda t: re.search(r'\.sum\(axis=1\) == 0', t) or re.search(r'\.any\(axis=1\)', t) or re.search(r'\.max\(axis=1\) == 0', t)),
]


def _result_test(e):
  """`v is None`, `v is not None`, `v`, `not v` for a plain local v."""
  if isinstance(e, ast.UnaryOp) and isinstance(e.op, ast.Not):
    e = e.operand
  if isinstance(e, ast.Name):
    return True
  return isinstance(e, ast.Compare) and len(e.ops) == 1 and isinstance(e.ops[0], (ast.Is, ast.IsNot)) and isinstance(e.left, ast.Name) \
      and isinstance(e.comparators[0], ast.Constant) and e.comparators[0].value is None


def r2_validation(repo, rep):
  cls = repo.cls('geoeligibility.GeoEligibility')
  f = cls.methods.get('__init__')
  if f is None:
    raise Undecided('GeoEligibility.__init__ vanished')
  rep.fn(f)
  g = cfgmod.CFG(f.node)
  rd = dataflow.Reaching(g)
  from mmsa.types import module_consts
  rd.consts = module_consts(f.module)
  selfn, dfp = f.params[0], f.params[1]
  stores = [n for n in g.nodes if n.kind == 'stmt' and isinstance(n.ast, ast.Assign)
            and any(norm(t) == '%s.data' % selfn for t in n.ast.targets)]
  if len(stores) != 1:
    raise Undecided('expected one store to self.data, found %d' % len(stores))
  store = stores[0]
  dom = g.dominators(cfgmod.no_exc)[store]
  # guards: test nodes one of whose branches leads straight to a raise
  guards = []
  for n in g.nodes:
    if n.kind != 'test':
      continue
    for m, lab in g.succ[n]:
      if lab in ('true', 'false'):
        # does that branch necessarily raise?
        reach = g.reachable(m, cfgmod.no_exc)
        if g.exit not in reach and store not in reach and g.raise_exit in reach:
          raises = [r for r in reach if r.kind == 'raisestmt']
          guards.append((n, lab, raises))
  classes = {}
  for n, lab, raises in guards:
    txt = norm(rd.expand(n, n.expr, keep=(dfp,))[0])
    kind = None
    for name, pred in GUARDS:
      if pred(txt):
        kind = name
        break
    for r in raises:
      exn = au.raised_class(repo, f, r.ast)
      rep.check3(None if exn is None else exn == 'ValueError', 'R2/validation', 'guard `%s` rejects with ValueError' % norm(n.expr)[:60], f.qualname,
                 norm(r.ast)[:120], 'malformed eligibility table is rejected with %s, not ValueError' % exn, f.loc(r.ast),
                 why_open='the raised object `%s` is not followed to the construction of an exception' % norm(r.ast.exc)[:60])
    if kind:
      classes.setdefault(kind, []).append((n, lab))
  # known-bad shapes of the 0/1 test: a numeric range test (min/max, < 0, > 1) admits fractions and NaN
  if 'zero-one' not in classes:
    for n, lab, raises in guards:
      txt = norm(rd.expand(n, n.expr, keep=(dfp,))[0])
      lower0 = any(k in txt for k in ('>= 0', '< 0', '0 <=', '0 >'))
      upper1 = any(k in txt for k in ('<= 1', '> 1', '1 >=', '1 <'))
      if ('.min()' in txt and '.max()' in txt and lower0 and upper1) or ('.between(0, 1' in txt) \
          or (lower0 and upper1 and ('control' in txt or 'value_columns' in txt)):
        rep.violation('R2/validation', f.qualname, txt[:140],
                      'the entries are validated with the numeric range test `%s`: values strictly between 0 and 1 (and NaN) pass, so tables with entries outside {0, 1} are accepted' % txt[:100],
                      f.loc(n.expr))
        classes['zero-one'] = [(n, lab)]
  # the 0/1 test must see the entries as given: a value-changing conversion of the eligibility columns (integer cast,
  # rounding, clipping, filling, to_numeric with coercion) before the acceptance maps 0.5 or '1' to a legal code
  LOSSY = ('astype', 'round', 'clip', 'fillna', 'abs', 'replace', 'to_numeric', 'floor', 'ceil', 'trunc', 'rint')
  for n in g.nodes:
    if n.kind != 'stmt' or not isinstance(n.ast, ast.Assign) or store not in g.reachable(n, cfgmod.no_exc):
      continue
    vx = rd.expand(n, n.ast.value, keep=(dfp,))[0]
    calls_ = [c_ for c_ in ast.walk(vx) if isinstance(c_, ast.Call) and (c_.func.attr if isinstance(c_.func, ast.Attribute) else getattr(c_.func, 'id', '')) in LOSSY]
    if not calls_:
      continue
    tgt_txt = ' '.join(norm(rd.expand(n, t_, keep=(dfp,))[0]) if not isinstance(t_, ast.Name) else t_.id for t_ in n.ast.targets) + ' ' + norm(vx)
    touches_values = any(k_ in tgt_txt for k_ in ("'control'", "'treatment'", "'exclude'", '.control', '.treatment', '.exclude'))
    for c_ in calls_:
      nm_ = c_.func.attr if isinstance(c_.func, ast.Attribute) else c_.func.id
      arg_txt = ' '.join(norm(a_) for a_ in list(c_.args) + [k.value for k in c_.keywords])
      benign_cast = nm_ == 'astype' and any(k_ in arg_txt for k_ in ("'str'", 'str', "'object'", "'category'"))
      if touches_values and not benign_cast:
        rep.violation('R2/validation', f.qualname, norm(n.ast)[:140],
                      'the eligibility columns are converted with `%s` before the table is accepted (`%s`): entries outside {0, 1} (0.5, 1.9, \'1\', NaN) are mapped to legal codes instead of being rejected'
                      % (norm(c_)[-60:], norm(n.ast)[:80]), f.loc(n.ast))
  missing = [name for name, _ in GUARDS if name not in classes]
  n_dom = sum(1 for n, lab, r in guards if n in dom or any(h.kind == 'for' and n in g.loop_body_nodes(h) for h in dom))
  def on_every_path(n0):
    """The guard dominates the acceptance, or sits in a loop that does and is executed in each of its iterations
    (a check applied to every column / row in turn)."""
    if n0 in dom:
      return True
    for h in dom:
      if h.kind == 'for' and n0 in g.loop_body_nodes(h) and g.iteration_skipping(h, [n0]) is None:
        return True
    return False
  for name, _ in GUARDS:
    if name in classes:
      n0 = classes[name][0][0]
      ok_ = on_every_path(n0)
      if not ok_ and _result_test(n0.expr):
        # `r = <offenders> ... if r is not None: raise` under the real condition (left behind by an inlined helper that
        # reports through its result): whether the inner test can fail is a fact about the value, not about the paths
        rep.undecided('R2/validation', 'guard %s dominates acceptance (self.data = ...)' % name,
                      'the rejection is spelled as a test of a computed result (`%s`) under another condition: whether that result test can fail is not decided' % norm(n0.expr)[:60],
                      f.loc(n0.expr))
        continue
      rep.check(ok_, 'R2/validation', 'guard %s dominates acceptance (self.data = ...)' % name, f.qualname,
                'guard %s: %s' % (name, norm(n0.expr)), 'the %s check does not lie on every path to the acceptance of the table' % name,
                f.loc(n0.expr))
  if missing:
    local_frames = {dfp} | {t_.id for n_ in g.nodes if n_.kind == 'stmt' and isinstance(n_.ast, ast.Assign) for t_ in n_.ast.targets if isinstance(t_, ast.Name)}
    helpers = au.unfollowed_calls(repo, f, local_frames)
    if helpers:
      rep.undecided('R2/validation', 'guards ' + ', '.join(missing), 'no guard of this kind in the constructor itself, but it hands the table to `%s`, which is not followed: the guard may live there'
                    % helpers[0][1], f.loc(helpers[0][0]))
    elif n_dom < len(GUARDS):
      rep.violation('R2/validation', f.qualname, 'missing guard(s): ' + ', '.join(missing),
                    'only %d rejecting guards dominate the acceptance of the table; no guard of kind %s was found — such tables are accepted'
                    % (n_dom, ', '.join(missing)), f.loc(store.ast))
    else:
      rep.undecided('R2/validation', 'guards ' + ', '.join(missing), 'no guard of this kind recognised although %d guards dominate the store' % n_dom, f.loc())
  if not (missing and helpers):
    rep.floor('rejecting guards in GeoEligibility.__init__', len(guards), 6)
  # the caller's table is never edited in place: every write effect (attribute/item store, inplace=True call) lands on an
  # object that is a fresh copy (receiver resolved through aliases and re-bindings)
  from mmsa.props import c10
  _, _, effs = c10.function_effects(f)
  bad = [e for e, recv, c in effs if c == 'param:' + dfp]
  n_writes = sum(1 for e, recv, c in effs if c in ('fresh', 'param:' + dfp))
  rep.check(not bad, 'R2/validation', 'the caller\'s table is copied before it is modified (%d in-place edits, all on a copy)' % n_writes,
            f.qualname, 'df = df.copy() missing', 'GeoEligibility.__init__ modifies the caller\'s DataFrame in place (%s) without copying it first'
            % '; '.join(norm(e.stmt)[:50] for e in bad[:3]), f.loc(bad[0].stmt) if bad else f.loc())
  # canonicalisation to str dominates the uniqueness guard and the store
  def tgt_text(n_):
    t_ = n_.ast.targets[0]
    if isinstance(t_, ast.Subscript):          # df[_GEO] with a module constant naming the column
      return norm(t_.value) + '[' + norm(rd.expand(n_, t_.slice)[0]) + ']'
    return norm(t_)
  canon = [n for n in g.nodes if n.kind == 'stmt' and isinstance(n.ast, ast.Assign)
           and re.search(r"(\.geo|\['geo'\])$", tgt_text(n)) and re.search(r"astype\(('str'|str)\)", norm(n.ast.value))]
  if not canon and any(isinstance(c_, ast.Call) and isinstance(c_.func, ast.Attribute) and c_.func.attr in ('astype', 'map', 'apply') and re.search(r"\bstr\b", norm(c_))
                       for c_ in ast.walk(f.node)):
    # value form: no column store, the conversion sits in the expression that becomes the stored index.  The uniqueness
    # test must then run on converted values as well: decide by the (closed) term its subject denotes.
    def str_conv(e_):
      for c_ in ast.walk(e_):
        if isinstance(c_, ast.Call) and isinstance(c_.func, ast.Attribute) and c_.func.attr in ('astype', 'map', 'apply') \
            and any(norm(a_) in ('str', "'str'", "'string'", 'pd.StringDtype()') for a_ in list(c_.args) + [k.value for k in c_.keywords]):
          return True
        if isinstance(c_, ast.Call) and isinstance(c_.func, ast.Name) and c_.func.id == 'str':
          return True
      return False
    stored_conv = None
    for n_ in g.nodes:
      if n_.kind == 'stmt' and isinstance(n_.ast, ast.Assign) and any(isinstance(t_, ast.Attribute) and t_.attr == 'index' for t_ in n_.ast.targets):
        stored_conv = stored_conv or (n_ if str_conv(rd.expand(n_, n_.ast.value, keep=(dfp,))[0]) else None)
      if n_.kind == 'stmt':
        for c_ in au.calls_in(n_.ast):
          if isinstance(c_.func, ast.Attribute) and c_.func.attr in ('set_index', 'set_axis', 'reindex') and c_.args and str_conv(rd.expand(n_, c_.args[0], keep=(dfp,))[0]):
            stored_conv = stored_conv or n_
    decided = False
    for n0, lab in classes.get('duplicate-ids', []):
      gx = rd.expand(n0, n0.expr, keep=(dfp,))[0]
      subjects = [c_.func.value for c_ in ast.walk(gx) if isinstance(c_, ast.Call) and isinstance(c_.func, ast.Attribute) and c_.func.attr in ('duplicated', 'nunique', 'value_counts')]
      subjects += [a_.value for a_ in ast.walk(gx) if isinstance(a_, ast.Attribute) and a_.attr == 'is_unique']
      if not subjects or stored_conv is None:
        continue
      decided = True
      for sx in subjects:
        conv = str_conv(sx)
        closed = not au.aliens(sx, {dfp})
        rep.check3(True if conv else (False if closed else None), 'R2/canonical-ids', 'duplicate detection runs on string IDs', f.qualname, norm(sx)[:120],
                   'duplicate geo IDs are looked for in `%s`, the IDs as given, while the stored index is converted to str (`%s`): 1 and "1" pass as distinct and collapse afterwards'
                   % (norm(sx)[:80], norm(stored_conv.ast)[:80]), f.loc(n0.expr), why_open='the subject of the uniqueness test reads names that are not resolved')
    if not decided:
      rep.undecided('R2/canonical-ids', 'geo IDs are strings', 'a conversion to str exists, but not as an assignment to the geo column in the recognised form', f.loc())
  elif not canon and any(isinstance(c_, ast.Call) and isinstance(c_.func, ast.Attribute) and c_.func.attr in ('astype', 'map', 'apply') and re.search(r"\bstr\b", norm(c_))
                         for c_ in ast.walk(f.module.tree)):
    # absence must hold everywhere the conversion could live: a helper of the module (reached through a table of stages,
    # a decorator, a callback) does convert to str
    rep.undecided('R2/canonical-ids', 'geo IDs are strings', 'no conversion to str in the constructor itself, but a function of the module converts to str: how it is reached is not followed', f.loc())
  elif not canon:
    rep.violation('R2/canonical-ids', f.qualname, 'no astype(str) on the geo column',
                  'geo IDs are not converted to strings: IDs that differ only by type are treated as different geos', f.loc())
  else:
    cn = canon[0]
    for name in ('duplicate-ids',):
      for n0, lab in classes.get(name, []):
        rep.check(cn in g.dominators(cfgmod.no_exc)[n0], 'R2/canonical-ids', 'IDs are strings before uniqueness is tested',
                  f.qualname, norm(n0.expr), 'duplicate geo IDs are tested before the IDs are converted to str: 1 and "1" pass as distinct and collapse afterwards',
                  f.loc(n0.expr))
        # the duplicated() computation itself must also come after
        for nm in dataflow.names_loaded(n0.expr):
          d = rd.single_def(n0, nm)
          if d is not None and d.how == 'assign' and 'duplicated' in norm(d.value):
            rep.check(cn in g.dominators(cfgmod.no_exc)[d.node], 'R2/canonical-ids', 'duplicate detection runs on string IDs', f.qualname,
                      norm(d.node.ast), 'the duplicate-ID set is computed before the IDs are converted to str', f.loc(d.node.ast))
    rep.check(cn in dom, 'R2/canonical-ids', 'IDs are strings in the stored table', f.qualname, norm(cn.ast),
              'conversion of geo IDs to str does not dominate the stored table', f.loc(cn.ast))


def _positional_columns(repo, rep, cls, f):
  """A reader that takes the eligibility columns of the stored table by position (`.to_numpy()[:, j]`, `.values[:, j]`,
  `.iloc[:, j]`) relies on the constructor having put them in the order control, treatment, exclude: the constructor must
  select the columns by a literal list in that order.  A selection whose order follows the caller's frame
  (`columns.intersection(..)`, a filter over `df.columns`) permutes the classes for tables with another column order."""
  pos = None
  for sub in ast.walk(f.node):
    if isinstance(sub, ast.Subscript) and isinstance(sub.slice, ast.Tuple) and len(sub.slice.elts) == 2 \
        and not (isinstance(sub.slice.elts[1], ast.Constant) and isinstance(sub.slice.elts[1].value, str)) \
        and not isinstance(sub.slice.elts[1], (ast.List, ast.Slice)) and isinstance(sub.slice.elts[0], ast.Slice):
      base = sub.value
      ctx_ = None
      txt = norm(base)
      # follow one local (possible = df.to_numpy() == 1)
      if isinstance(base, ast.Name):
        defs_ = [a_ for a_ in walk_no_nested(f.node) if isinstance(a_, ast.Assign) and len(a_.targets) == 1 and norm(a_.targets[0]) == base.id]
        txt = ' '.join(norm(a_.value) for a_ in defs_)
      if re.search(r'\.to_numpy\(\)|\.values\b|\.iloc\b|np\.(asarray|array)\(', txt) or isinstance(base, ast.Attribute) and base.attr == 'iloc':
        pos = sub
        break
  if pos is None:
    return
  init = cls.methods.get('__init__')
  if init is None:
    return
  ordered = False
  input_order = None
  WANT = ("'control'", "'treatment'", "'exclude'")
  g0 = cfgmod.CFG(init.node)
  rd0 = dataflow.Reaching(g0)
  from mmsa.types import module_consts
  rd0.consts = module_consts(init.module)
  stored_names = {norm(a_.value) for a_ in walk_no_nested(init.node) if isinstance(a_, ast.Assign) and any(norm(t_) == '%s.data' % init.params[0] for t_ in a_.targets)
                  and isinstance(a_.value, ast.Name)}
  for n_ in g0.nodes:
    if n_.kind != 'stmt' or not isinstance(n_.ast, ast.Assign):
      continue
    if not (len(n_.ast.targets) == 1 and isinstance(n_.ast.targets[0], ast.Name) and n_.ast.targets[0].id in stored_names):
      continue        # only selections that build the table that is stored
    v_ = n_.ast.value
    for sub in ast.walk(v_):
      if isinstance(sub, ast.Subscript):
        sl = sub.slice.elts[1] if isinstance(sub.slice, ast.Tuple) and len(sub.slice.elts) == 2 else sub.slice
        slx = rd0.expand(n_, sl, keep=tuple(init.params))[0]
        t_ = norm(slx)
        if isinstance(slx, (ast.List, ast.Tuple, ast.BinOp)) and all(w_ in t_ for w_ in WANT) and t_.index(WANT[0]) < t_.index(WANT[1]) < t_.index(WANT[2]) \
            and not any(isinstance(y_, (ast.Call, ast.ListComp, ast.GeneratorExp)) and 'columns' in norm(y_) for y_ in ast.walk(slx)):
          ordered = True
        elif re.search(r'columns\.(intersection|isin|difference)\(|for \w+ in \w+\.columns|\.columns\[', t_) or re.search(r'\.filter\(|\.reindex\(', norm(sub.value)):
          input_order = (n_, t_)
  if ordered:
    rep.ok('R3/selection', 'the columns read by position in %s are put in the order control, treatment, exclude by the constructor' % f.name, loc=f.loc(pos))
  elif input_order is not None:
    rep.violation('R3/selection', f.qualname, 'columns by position: %s' % norm(pos)[:80],
                  '%s takes the eligibility columns by position (`%s`), but the constructor selects them with `%s`, whose order follows the caller\'s frame: for a table whose columns are not in the order control, treatment, exclude every geo lands in a permuted class'
                  % (f.name, norm(pos)[:50], input_order[1][:70]), f.loc(pos))
  else:
    rep.undecided('R3/selection', 'columns read by position in %s' % f.name,
                  '`%s` relies on the column order of the stored table; no selection by a literal ordered list was found in the constructor' % norm(pos)[:50], f.loc(pos))


def r3_selection(repo, rep):
  cls = repo.cls('geoeligibility.GeoEligibility')
  f = cls.methods.get('get_eligible_assignments')
  if f is None:
    raise Undecided('get_eligible_assignments vanished')
  rep.fn(f)
  g = cfgmod.CFG(f.node)
  rd = dataflow.Reaching(g)
  params = f.params
  if len(params) < 3:
    raise Undecided('signature changed')
  geos, indices = params[1], params[2]
  _positional_columns(repo, rep, cls, f)
  # R4: None vs empty
  truthy = []
  for sub in walk_no_nested(f.node):
    tests = []
    if isinstance(sub, (ast.If, ast.While, ast.IfExp)):
      tests.append(sub.test)
    if isinstance(sub, ast.BoolOp):
      tests += sub.values
    if isinstance(sub, ast.UnaryOp) and isinstance(sub.op, ast.Not):
      tests.append(sub.operand)
    for t in tests:
      while isinstance(t, ast.UnaryOp) and isinstance(t.op, ast.Not):
        t = t.operand
      if isinstance(t, ast.BoolOp):
        continue
      if isinstance(t, ast.Name) and t.id == geos:
        truthy.append(sub)
      if isinstance(t, ast.Call) and norm(t) == 'len(%s)' % geos:
        truthy.append(sub)
  rep.check(not truthy, 'R4/none-vs-empty', 'the optional subset is tested with `is None`', f.qualname,
            '; '.join(sorted({norm(t)[:60] for t in truthy})),
            'the subset argument is tested by truthiness: the empty ordered subset is treated like None (all geos) instead of selecting nothing',
            f.loc(truthy[0]) if truthy else f.loc())
  nonetests = [s for s in walk_no_nested(f.node) if isinstance(s, ast.Compare) and norm(s.left) == geos and
               isinstance(s.ops[0], (ast.Is, ast.IsNot)) and au.is_const(s.comparators[0], None)]
  if not nonetests and not truthy:
    rep.undecided('R4/none-vs-empty', 'get_eligible_assignments', 'no test of the subset argument found', f.loc())
  # narrowing node and reset_index node
  narrow = [n for n in g.nodes if n.kind == 'stmt' and isinstance(n.ast, ast.Assign)
            and re.search(r'\.loc\[%s\]$' % re.escape(geos), norm(n.ast.value))]
  reindex = [n for n in g.nodes if n.kind == 'stmt' and isinstance(n.ast, ast.Assign) and 'reindex(%s' % geos in norm(n.ast.value)]
  narrow = narrow + reindex
  resets = [n for n in g.nodes if n.kind == 'stmt' and 'reset_index(' in norm(n.ast)]
  # the narrowing to the subset gives the rows the *given order*; a path that answers in index mode without it must be
  # taken only when the given order is the table order.  A bypass condition that reads the subset only through
  # order-insensitive operations (set(), len(), sorted(), membership) cannot tell a permutation of the table from the table
  # itself: the permuted request takes the same path and is answered in table order
  bypass_reads_order = False
  if narrow:
    rd_b = dataflow.Reaching(g)
    res_b = lambda node, e_: rd_b.expand(node, e_)[0]
    ef_b = cfgmod.edge_filter_under(g, {geos: 'notnone', indices: True}, resolve_at=res_b, extra=cfgmod.no_exc)
    byp = g.path_avoiding(g.entry, lambda n_: n_ is g.exit, lambda n_: n_ in narrow, ef_b)
    if byp is not None:
      from mmsa import pathcond as _pc
      pf_ = _pc.PathFacts(byp, rd_b, keep=(geos, indices))
      conds_ = [e_ for conj_ in pf_.dnf[:1] for e_, t_ in conj_]
      reads = [c_ for c_ in conds_ if any(isinstance(x_, ast.Name) and x_.id == geos for x_ in ast.walk(c_))]
      reads = [c_ for c_ in reads if not re.fullmatch(r'%s is (not )?None' % re.escape(geos), norm(c_))]

      order_blind = lambda c_: au.order_blind(c_, geos) is not False
      if os.environ.get('MMSA_DEBUG_C16'):
        print('DEBUG reads', [(norm(c_), au.order_blind(c_, geos)) for c_ in reads], au.aliens(ast.Tuple(elts=reads, ctx=ast.Load()), {geos, indices}))
      if reads and all(order_blind(c_) for c_ in reads) and not au.aliens(ast.Tuple(elts=reads, ctx=ast.Load()), {geos, indices}):
        rep.violation('R3/selection', f.qualname, 'narrowing bypassed under ' + ' and '.join(norm(c_)[:60] for c_ in reads),
                      'in index mode the narrowing to the given subset is skipped when `%s`: that condition reads the subset only through order-insensitive operations, so a full list of geos in any other order than the table\'s is answered with positions of the table order, not of the given order'
                      % ' and '.join(norm(c_)[:80] for c_ in reads), f.loc(narrow[0].ast))
        return
      if reads:
        bypass_reads_order = True       # the skip depends on the request in an order-sensitive way: not decided here
  if len(narrow) != 1 or len(resets) != 1:
    rep.undecided('R3/selection', 'get_eligible_assignments', 'expected one label narrowing and one reset_index (found %d, %d)' % (len(narrow), len(resets)), f.loc())
    return
  nn, rn = narrow[0], resets[0]
  dom = g.dominators(cfgmod.no_exc)
  rd_sel = dataflow.Reaching(g)
  res_at = lambda node, e_: rd_sel.expand(node, e_)[0]
  # the narrowing need not dominate the reset syntactically: it must lie on every path to it on which a subset is given
  nn_before = nn in dom[rn] or g.path_avoiding(g.entry, lambda n_: n_ is rn, lambda n_: n_ is nn,
                                               cfgmod.edge_filter_under(g, {geos: 'notnone', indices: True}, resolve_at=res_at, extra=cfgmod.no_exc)) is None
  rep.check3(True if nn_before else (None if bypass_reads_order else False), 'R3/selection', 'positional labels are taken after narrowing to the subset', f.qualname, norm(rn.ast),
             'reset_index() is not preceded by the narrowing to the subset on every path: indices refer to positions in the full table, not in the given order',
             f.loc(rn.ast), why_open='the narrowing is skipped under a condition that compares the request with the table in an order-sensitive way: whether it implies equal order is not decided')
  rep.check('drop=True' not in norm(rn.ast), 'R3/selection', 'reset_index keeps a fresh 0..n-1 index', f.qualname, norm(rn.ast), '', f.loc(rn.ast), nontrivial=False)
  # under facts: geos is None & indices -> raise ValueError ; geos not None & indices -> reset ; geos not None -> narrow
  rd_sel = dataflow.Reaching(g)
  res_at = lambda node, e_: rd_sel.expand(node, e_)[0]

  def outcome(facts):
    ok = cfgmod.edge_filter_under(g, facts, resolve_at=res_at, extra=cfgmod.no_exc)
    reach = g.reachable(g.entry, ok)
    return reach

  def open_tests(facts, reach):
    """Tests on the reachable part that read the arguments but are not decided under the facts: the case split the rule
    relies on is incomplete there."""
    out = []
    for n in reach:
      if n.kind != 'test':
        continue
      ex_ = res_at(n, n.expr)
      names_ = {x.id for x in ast.walk(ex_) if isinstance(x, ast.Name)}
      if names_ & {k for k in facts} and cfgmod.decide_test(n.expr, facts, lambda nm, n=n: res_at(n, nm)) is None:
        out.append(norm(n.expr)[:50])
    return out
  r1 = outcome({geos: 'none', indices: True})
  ok_r1 = g.exit not in r1 and any(n.kind == 'raisestmt' for n in r1)
  op1 = open_tests({geos: 'none', indices: True}, r1)
  rep.check3(True if ok_r1 else (None if op1 else False), 'R3/selection', 'index mode without a subset raises',
             f.qualname, 'indices=True, geos=None', 'index mode without a subset does not raise on every path', f.loc(),
             why_open='the test `%s` is not decided for geos=None, indices=True' % (op1[0] if op1 else ''))
  for n in r1:
    if n.kind == 'raisestmt':
      exn = norm(n.ast.exc.func) if isinstance(n.ast.exc, ast.Call) else norm(n.ast.exc)
      rep.check(exn == 'ValueError', 'R3/selection', 'that rejection is a ValueError', f.qualname, norm(n.ast)[:100],
                'index mode without subset raises %s instead of ValueError' % exn, f.loc(n.ast))
  r2 = outcome({geos: 'notnone', indices: True})
  rets = [n for n in r2 if n.kind == 'return']
  okpath = bool(rets) and all(g.path_avoiding(g.entry, lambda n: n.kind == 'return', lambda n: n is rn,
                                               cfgmod.edge_filter_under(g, {geos: 'notnone', indices: True}, resolve_at=res_at, extra=cfgmod.no_exc)) is None for _ in [0])
  op2 = open_tests({geos: 'notnone', indices: True}, r2)
  rep.check3(True if okpath else (None if op2 else False), 'R3/selection', 'with a subset and indices=True every path narrows and resets the index', f.qualname,
             'indices=True, geos given', 'with indices=True some path returns without positional relabelling', f.loc(),
             why_open='the test `%s` is not decided for a given subset and indices=True' % (op2[0] if op2 else ''))
  okn = g.path_avoiding(g.entry, lambda n: n.kind == 'return', lambda n: n is nn,
                        cfgmod.edge_filter_under(g, {geos: 'notnone'}, resolve_at=res_at, extra=cfgmod.no_exc)) is None
  op3 = open_tests({geos: 'notnone'}, outcome({geos: 'notnone'}))
  op3 = [t_ for t_ in op3 if geos in t_ or 'subset' in t_]
  rep.check3(True if okn else (None if op3 else False), 'R3/selection', 'with a subset every path narrows to it', f.qualname, 'geos given',
             'some path with a subset given returns assignments of the un-narrowed table', f.loc(),
             why_open='the test `%s` is not decided for a given subset' % (op3[0] if op3 else ''))
  r3 = g.path_avoiding(g.entry, lambda n: n.kind == 'return', lambda n: n is rn,
                       cfgmod.edge_filter_under(g, {indices: False}, resolve_at=res_at, extra=cfgmod.no_exc))
  rep.check(r3 is not None, 'R3/selection', 'without indices the geo IDs are kept', f.qualname, 'indices=False',
            'ID mode relabels positionally on every path', f.loc())
  # the three sets come from their own columns, compared with 1, and are passed in (c, t, x) order
  rets = [n for n in g.nodes if n.kind == 'return' and n.ast.value is not None]
  init = repo.cls('geoeligibility.GeoAssignments').methods['__init__']
  want = dict(zip(init.params[1:4], ('control', 'treatment', 'exclude')))
  for r in rets:
    call = r.ast.value
    if not (isinstance(call, ast.Call) and norm(call.func).endswith('GeoAssignments')):
      rep.undecided('R3/selection', 'return', 'does not construct GeoAssignments directly: %s' % norm(call)[:60], f.loc(r.ast))
      continue
    args = {}
    for i, a in enumerate(call.args):
      if i < 3:
        args[init.params[1 + i]] = a
    for k in call.keywords:
      args[k.arg] = k.value
    for pname, col in want.items():
      if pname not in args:
        rep.undecided('R3/selection', 'GeoAssignments argument %s' % pname, 'missing', f.loc(call))
        continue
      txt = norm(rd.expand(r, args[pname], keep=(geos,))[0])
      cols = set(re.findall(r"'(control|treatment|exclude)'", txt))
      good = cols == {col} and (re.search(r"== 1\b", txt) or re.search(r"\b1 == ", txt) or re.search(r"\.eq\(1\)", txt)) and '.index[' in txt
      # recognised wrong: another column, or a comparison with another constant / relation on the right column
      wrong = bool(cols) and (cols != {col} or re.search(r"(==|!=|>=|<=|>|<) (?!1\b)\d", txt) or re.search(r"(!=|>=|<=|>|<) 1\b", txt) or re.search(r"\b\d+ (!=|>=|<=|>|<) ", txt))
      if not good and not wrong:
        rep.undecided('R3/selection', 'GeoAssignments argument %s' % pname, 'its construction is not visible here: %s' % txt[:60], f.loc(call))
        continue
      rep.check(bool(good), 'R3/selection', 'set %s = labels of rows with %s == 1' % (pname, col), f.qualname,
                '%s=%s' % (pname, txt), 'membership set %s is built from %s, not from the labels of rows whose %s entry equals 1'
                % (pname, txt, col), f.loc(call))


def run(repo, rep, tier):
  r1_partition(repo, rep)
  r2_validation(repo, rep)
  r3_selection(repo, rep)
