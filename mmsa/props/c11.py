"""C11 — count_max_designs equals the size of the enumerated design space.

Decided (translation validation between siblings, no enumeration): (R1) the
placement table — for each eligibility class, which of {treatment, control,
neither} a geo can occupy in a generated design — is derived from the
generators' own set algebra by Boolean abstraction and equals the documented
meaning of the classes; (R2) count_max_designs is normalised to
sum over index variables of a product of exact binomials, guarded by
n_trt in S_T and n_ctl in S_C(n_trt); the index ranges, binomial arguments and
the two linear forms equal the form generated from the placement table (one
index per two-way class, two nested indices for the three-way class, forced
classes contribute their full count); (R3) S_T and S_C are produced by the
same size functions the generators use, which respect the size ranges and the
geo-ratio filter (C02 rules), and the generators yield sets of exactly the
requested size.
Not decided: the arithmetic identity for concrete class-count vectors.
"""
import ast
import re

import sympy

from mmsa import au, cfg as cfgmod, dataflow, pathcond, search, sym
from mmsa.core import Undecided, norm, walk_no_nested
from mmsa.props import c01, c02
from mmsa.types import FuncCtx

EXPLANATION = (
    'Translation validation: the loop nest of count_max_designs is extracted into a normal form (index ranges, exact binomial factors, '
    'linear forms, membership guards) and compared symbolically with the normal form generated from a placement table that is itself '
    'computed from the generators by Boolean abstraction; the size sets are shown to come from the same two size functions.')
RULE_TEXT = 'one obligation per class of the placement table, per loop/binomial/linear form of the count and per size-function clause'

EXPECTED_PLACEMENT = {
    'c_fixed': {(0, 1)}, 't_fixed': {(1, 0)}, 'x_fixed': {(0, 0)},
    'ct': {(1, 0), (0, 1)}, 'cx': {(0, 1), (0, 0)}, 'tx': {(1, 0), (0, 0)}, 'ctx': {(1, 0), (0, 1), (0, 0)},
}


FREE_SETS = set()


def placement_table(repo, rep):
  """class -> set of (in_treatment, in_control) outcomes of the generators."""
  cls = repo.cls(search.MM)
  ft, fc = cls.methods.get('treatment_group_generator'), cls.methods.get('control_group_generator')
  if ft is None or fc is None:
    raise Undecided('generators vanished')
  ty = c01._yields(ft)
  cy = c01._yields(fc)
  table = {k: set() for k in EXPECTED_PLACEMENT}
  FREE_SETS.clear()
  for tn, tyv in ty:
    for cn, cyv in cy:
      # evaluate T in the treatment generator's context, then C in the control generator with param := T
      sct = c01.SetCtx(repo, ft)
      T = sct.ev(tn, tyv.value)
      scc = c01.SetCtx(repo, fc)
      # share atoms: re-evaluate T inside scc's environment by giving the treatment context the same env object
      sct2 = c01.SetCtx(repo, ft)
      sct2.env, sct2.cls, sct2.names, sct2.free = scc.env, scc.cls, scc.names, scc.free
      T2 = sct2.ev(tn, tyv.value)
      tp = fc.params[1]
      C = scc.ev(cn, cyv.value, bind={tp: T2})
      env = scc.env
      # sets the evaluation could not follow to the eligibility classes (a cache entry, a field, a helper's result) are
      # free variables: placements computed with them say nothing about the program
      FREE_SETS.update(k_ for ctx_ in (sct, sct2, scc) for k_ in getattr(ctx_, 'names', {}) if str(k_).startswith('var:'))
      for k in table:
        rows = env.table(scc.cls[k] & scc.legal if k != 'x_fixed' else scc.cls[k], env.atoms)
        for r in range(env.rows):
          if (scc.cls[k] >> r) & 1:
            table[k].add((int((T2 >> r) & 1), int((C >> r) & 1)))
  return table


def r1_placement(repo, rep):
  table = placement_table(repo, rep)
  cls_ = repo.cls(search.MM)
  n_y = sum(1 for fn_ in ('treatment_group_generator', 'control_group_generator') if cls_.methods.get(fn_) is not None
            for x_ in walk_no_nested(cls_.methods[fn_].node) if isinstance(x_, (ast.Yield, ast.YieldFrom)))
  n_seen = sum(len(c01._yields(cls_.methods[fn_])) for fn_ in ('treatment_group_generator', 'control_group_generator') if cls_.methods.get(fn_) is not None)
  for k, want in sorted(EXPECTED_PLACEMENT.items()):
    got = table.get(k)
    if got != want and FREE_SETS:
      rep.undecided('R1/placement', 'class %s' % k, 'the yielded groups read sets that are not followed back to the eligibility classes (%s): the placements computed with them are not the program\'s'
                    % ', '.join(sorted(FREE_SETS))[:120], '')
      continue
    if got != want and (not got or (got < want and n_seen < n_y)):
      rep.undecided('R1/placement', 'class %s' % k, 'only %d of the %d yields of the generators are in a form whose value is followed (placements found: %s)' % (n_seen, n_y, sorted(got)), '')
      continue
    rep.check(got == want, 'R1/placement', 'class %s can be placed in %s' % (k, sorted(want)), 'tbrmatchedmarkets.TBRMatchedMarkets.control_group_generator',
              'placement of class %s: %s' % (k, sorted(got)),
              'the generators place a geo of class %s in (treatment, control) combinations %s, but its eligibility row allows exactly %s: the enumerated space differs from the eligibility semantics'
              % (k, sorted(got), sorted(want)), '')
  return table


def extract_nest(repo, rep):
  cls = repo.cls(search.MM)
  f = cls.methods.get('count_max_designs')
  if f is None:
    raise Undecided('count_max_designs vanished')
  rep.fn(f)
  ctx = FuncCtx.of(f)
  g, rd = ctx.g, ctx.rd
  # class count symbols
  counts = {}
  for n in g.nodes:
    if n.kind == 'stmt' and isinstance(n.ast, ast.Assign) and isinstance(n.ast.targets[0], ast.Name):
      m = re.fullmatch(r'len\(self\.geo_assignments\.(\w+)\)', norm(n.ast.value))
      if m:
        counts[n.ast.targets[0].id] = m.group(1)
  # accumulate statement
  rets = [n for n in g.nodes if n.kind == 'return' and n.ast.value is not None]
  total = norm(rets[0].ast.value) if len(rets) == 1 else None
  accs = []
  for n in g.nodes:
    if n.kind != 'stmt':
      continue
    if isinstance(n.ast, ast.AugAssign) and isinstance(n.ast.op, ast.Add) and norm(n.ast.target) == total:
      accs.append((n, n.ast.value))
    elif isinstance(n.ast, ast.Assign) and len(n.ast.targets) == 1 and norm(n.ast.targets[0]) == total \
        and isinstance(n.ast.value, ast.BinOp) and isinstance(n.ast.value.op, ast.Add):
      # total = total + product
      if norm(n.ast.value.left) == total:
        accs.append((n, n.ast.value.right))
      elif norm(n.ast.value.right) == total:
        accs.append((n, n.ast.value.left))
  if len(accs) != 1 or total is None:
    raise Undecided('count_max_designs: expected one `total += product` statement returning the total')
  acc, summand = accs[0]
  ctx.summand = summand
  init = [n for n in g.nodes if n.kind == 'stmt' and isinstance(n.ast, ast.Assign) and norm(n.ast.targets[0]) == total and n is not acc]
  loops = []
  cur = acc.ast
  par = getattr(cur, '_parent', None)
  while par is not None and par is not f.node:
    if isinstance(par, ast.For):
      loops.append(par)
    elif isinstance(par, (ast.While, ast.Try, ast.With)):
      raise Undecided('count_max_designs: unexpected %s in the nest' % type(par).__name__)
    cur, par = par, getattr(par, '_parent', None)
  loops.reverse()
  # the conditions under which the summand is added: nested ifs and `if not c: continue` guards alike
  conds = []
  for e, taken, tnode in cfgmod.dominating_conditions(g, acc):
    for atom, tv in (pathcond.literals(e, taken)[0] if len(pathcond.literals(e, taken)) == 1 else [(e, taken)]):
      k, v = pathcond.lit_key(atom, tv)
      if isinstance(atom, ast.Compare) and len(atom.ops) == 1 and isinstance(atom.ops[0], ast.NotIn):
        atom, tv = ast.Compare(left=atom.left, ops=[ast.In()], comparators=atom.comparators), not tv
      conds.append((atom, tv, tnode))
  return f, ctx, counts, acc, init, loops, conds


def class_symbol(k):
  return sym.symbol('n_' + k, True)


def r2_exact(repo, rep):
  """Every binomial of count_max_designs is an exact integer (scipy comb(..., exact=True) or math.comb)."""
  cls = repo.cls(search.MM)
  f = cls.methods.get('count_max_designs')
  if f is None:
    raise Undecided('count_max_designs vanished')
  ctx = FuncCtx.of(f)
  g, rd = ctx.g, ctx.rd
  n = 0
  for c in au.calls_in(f.node):
    fn = au.lib_name(f.module, c.func) or norm(c.func)
    node = ctx.node_at(c)
    if node is not None and isinstance(c.func, ast.Name):
      fn2 = rd.expand(node, c.func)[0]
      fn = au.lib_name(f.module, fn2) or norm(fn2)
    if fn == 'math.comb':
      n += 1
      rep.ok('R2/exact', 'binomial %s is an integer (math.comb)' % norm(c)[:40], loc=f.loc(c))
    elif fn.endswith('special.comb') or fn.endswith('.comb') or fn == 'comb' or fn.endswith('binom'):
      n += 1
      ex = au.kwarg(c, 'exact')
      rep.check(ex is not None and au.is_const(ex, True), 'R2/exact', 'binomial %s is computed exactly (integer)' % norm(c)[:40], f.qualname, norm(c)[:80],
                'the binomial %s is computed in floating point (exact=True missing): the count is no longer exact once values exceed 2**53' % norm(c)[:60], f.loc(c))
  rep.floor('binomial call sites in count_max_designs', n, 4)


def r2_normal_form(repo, rep, table):
  f, ctx, counts, acc, init, loops, conds = extract_nest(repo, rep)
  g, rd = ctx.g, ctx.rd
  rep.check(len(init) == 1 and au.is_const(init[0].ast.value, 0), 'R2/normal-form', 'the count starts at 0', f.qualname,
            '; '.join(norm(n.ast) for n in init), 'the accumulator does not start at 0', f.loc())

  def leaf(e):
    t = norm(e)
    m = re.fullmatch(r'len\(self\.geo_assignments\.(\w+)\)', t)
    if m:
      return class_symbol(m.group(1))
    if isinstance(e, ast.Name):
      if e.id in counts:
        return class_symbol(counts[e.id])
      if e.id in idx_names:
        return sym.symbol(e.id)
    return None

  idx_names = {norm(l.target) for l in loops}
  # index ranges
  ranges = {}
  for l in loops:
    it = l.iter
    v = norm(l.target)
    if not (isinstance(it, ast.Call) and norm(it.func) == 'range' and len(it.args) in (1, 2)):
      raise Undecided('count_max_designs: loop over %s is not a range' % norm(it))
    if len(it.args) == 2 and not au.is_const(it.args[0], 0):
      raise Undecided('count_max_designs: range with non-zero start')
    stop = rd.expand(g.node_of(l), it.args[-1], keep=tuple(idx_names))[0]
    ranges[v] = sympy.simplify(sym.to_sym(stop, leaf) - 1)      # inclusive upper bound E
  # binomial factors in the product
  prod = rd.expand(acc, ctx.summand, keep=tuple(idx_names))[0]
  factors = []

  def collect(e):
    if isinstance(e, ast.BinOp) and isinstance(e.op, ast.Mult):
      collect(e.left)
      collect(e.right)
    else:
      factors.append(e)
  collect(prod)
  combs = {}
  unmodelled = False
  for fac in factors:
    if not (isinstance(fac, ast.Call) and len(fac.args) >= 2):
      if isinstance(fac, ast.Constant) and isinstance(fac.value, (int, float)) and fac.value != 1:
        rep.violation('R2/normal-form', f.qualname, 'factor ' + norm(fac)[:80],
                      'the summand is multiplied by the constant %s: the count is not the number of designs' % norm(fac), f.loc(acc.ast))
        continue
      # a factor that is itself accumulated elsewhere (factored sums, lookup tables): a different algorithm, not decided here
      rep.undecided('R2/normal-form', 'count_max_designs', 'the summand contains the factor `%s`, which is not a binomial coefficient of a loop index: the count is computed by an algorithm this rule does not model' % norm(fac)[:60], f.loc(acc.ast))
      unmodelled = True
      continue
    N = sympy.simplify(sym.to_sym(fac.args[0], leaf))
    k = norm(fac.args[1])
    combs.setdefault(k, []).append(N)
  # expected structure from the placement table
  two_way = {k: v for k, v in table.items() if len(v) == 2}
  three_way = {k: v for k, v in table.items() if len(v) == 3}
  forced = {k: v for k, v in table.items() if len(v) == 1}
  # assign loop variables to classes by their range
  role = {}
  used = set()
  for v, E in ranges.items():
    for k in list(two_way) + list(three_way):
      if sympy.simplify(E - class_symbol(k)) == 0 and (k, 'first') not in used:
        role[v] = (k, 'first')
        used.add((k, 'first'))
        break
  for v, E in ranges.items():
    if v in role:
      continue
    for k in three_way:
      firsts = [w for w, r in role.items() if r == (k, 'first')]
      if firsts and sympy.simplify(E - (class_symbol(k) - sym.symbol(firsts[0]))) == 0:
        role[v] = (k, 'second')
        used.add((k, 'second'))
  if not unmodelled:
    want_roles = {(k, 'first') for k in two_way} | {(k, 'first') for k in three_way} | {(k, 'second') for k in three_way}
    rep.check(set(role.values()) == want_roles and len(role) == len(ranges), 'R2/normal-form',
              'one index per two-way class and two nested indices for the three-way class, each over 0..available', f.qualname,
              'loops: ' + ', '.join('%s in 0..%s' % (v, E) for v, E in sorted(ranges.items())),
              'the loop indices %s do not correspond to the classes of the placement table (expected %s): some placements are not counted or counted twice'
              % ({v: str(E) for v, E in ranges.items()}, sorted(want_roles)), f.loc(loops[0]) if loops else f.loc())
    for v, E in sorted(ranges.items()):
      got = combs.get(v, [])
      rep.check(len(got) == 1 and sympy.simplify(got[0] - E) == 0, 'R2/normal-form', 'index %s carries the factor C(%s, %s)' % (v, E, v), f.qualname,
                'factor for %s: %s' % (v, [str(x) for x in got]),
                'the number of ways to choose %s geos is counted as %s instead of C(%s, %s)' % (v, ['C(%s,%s)' % (x, v) for x in got], E, v), f.loc(acc.ast))
    extra = set(combs) - set(ranges)
    rep.check(not extra, 'R2/normal-form', 'no binomial over a non-index', f.qualname, 'extra factors %s' % sorted(extra), 'extra binomial factors %s' % sorted(extra), f.loc(acc.ast))
  # the treatment size used anywhere in the count: a sum with coefficient 1 on the "in treatment" index of every class that
  # can go to treatment must also contain every class that is forced into treatment (positively recognised, whatever the
  # rest of the algorithm looks like)
  forced_t = sum(class_symbol(k) for k, v in forced.items() if next(iter(v))[0] == 1)
  trt_idx = [v for v, (k, pos) in role.items() if pos == 'first' and any(o[0] == 1 for o in table[k])]
  if len(trt_idx) >= 2:
    for n_ in g.nodes:
      if n_.kind == 'stmt' and isinstance(n_.ast, ast.Assign) and len(n_.ast.targets) == 1 and isinstance(n_.ast.targets[0], ast.Name):
        try:
          L = sympy.expand(sym.to_sym(rd.expand(n_, n_.ast.value, keep=tuple(idx_names))[0], leaf))
        except (Undecided, Exception):
          continue
        if not all(L.coeff(sym.symbol(v)) == 1 for v in trt_idx):
          continue
        rest = sympy.expand(L - sum(sym.symbol(v) for v in trt_idx))
        if any(rest.has(sym.symbol(v)) for v in idx_names):
          continue
        rep.check(sympy.simplify(rest - forced_t) == 0, 'R2/guards', 'treatment size %s = forced treatment geos + chosen geos' % n_.ast.targets[0].id, f.qualname,
                  '%s = %s' % (n_.ast.targets[0].id, L),
                  'the treatment group size is computed as `%s`: the geos forced into treatment (%s) are %s, so treatment sizes are matched against the wrong admissible sizes'
                  % (L, forced_t, 'missing' if sympy.simplify(rest) == 0 else 'not counted exactly once'), f.loc(n_.ast))
  # linear forms and guards
  guards = {}
  for test, taken, ifst in conds:
    if isinstance(test, ast.Compare) and len(test.ops) == 1 and isinstance(test.ops[0], ast.In) and taken and isinstance(test.left, ast.Name):
      guards[test.left.id] = (test, ifst)
  lin = {}
  for nm, (test, ifst) in guards.items():
    node = ifst
    ex = rd.expand(node, test.left, keep=tuple(idx_names))[0]
    lin[nm] = (sympy.expand(sym.to_sym(ex, leaf)), norm(rd.expand(node, test.comparators[0], keep=tuple(idx_names) + tuple(guards))[0]), ifst)
  trt = [nm for nm, (e, s, i) in lin.items() if re.fullmatch(r'set\(self\.treatment_group_size_range\(\)\)', s)]
  if len(trt) != 1 and unmodelled:
    return f
  if len(trt) != 1 and ('treatment_group_size_range' in norm(f.node) or au.delegations(repo, f)):
    # the admissible treatment sizes are consulted, but not as a membership guard on the summand (a lookup table keyed by
    # them, a pre-filtered iteration): not the form this rule decides
    rep.undecided('R2/guards', 'the summand is guarded by "treatment size in set(self.treatment_group_size_range())"',
                  'treatment_group_size_range() is consulted in count_max_designs, but not as a membership guard dominating the summand (guards found: %s)'
                  % str({k: v[1][:60] for k, v in lin.items()})[:160], f.loc())
    return f
  if len(trt) != 1:
    rep.violation('R2/guards', f.qualname, 'guards: %s' % {k: v[1] for k, v in lin.items()},
                  'the summand is not guarded by "treatment size in set(self.treatment_group_size_range())": designs of inadmissible treatment sizes are counted', f.loc())
    return f
  tname = trt[0]
  ctl = [nm for nm in lin if nm != tname]
  # the control guard: membership in the per-size set built from _control_group_size_generator(n_trt)
  okc = False
  cname = None
  for nm in ctl:
    s = lin[nm][1]
    if re.fullmatch(r'\w+\[%s\]' % tname, s):
      tab = s.split('[')[0]
      for n_ in g.nodes:
        if n_.kind == 'stmt' and isinstance(n_.ast, ast.Assign) and isinstance(n_.ast.targets[0], ast.Subscript) and norm(n_.ast.targets[0].value) == tab:
          key = norm(n_.ast.targets[0].slice)
          val = norm(rd.expand(n_, n_.ast.value, keep=(key,))[0])
          if val == 'set(self._control_group_size_generator(%s))' % key:
            okc, cname = True, nm
    elif s == 'set(self._control_group_size_generator(%s))' % tname:
      okc, cname = True, nm
  if not okc and unmodelled:
    return f
  rep.check(okc, 'R2/guards', 'control size is tested against the sizes admissible for the treatment size', f.qualname,
            'guards: %s' % {k: v[1] for k, v in lin.items()},
            'the summand is not guarded by "control size in set(self._control_group_size_generator(treatment size))": pairs with inadmissible size combinations are counted', f.loc())
  if not okc:
    return f
  # expected linear forms
  def contrib(side):
    tot = 0
    for k, v in forced.items():
      (a, b) = next(iter(v))
      if (a, b)[side] == 1:
        tot += class_symbol(k)
    return tot
  ntrt, nctl = lin[tname][0], lin[cname][0]
  exp_t, exp_c = contrib(0), contrib(1)
  ok_forms = True
  why = []
  rest_t, rest_c = sympy.expand(ntrt - exp_t), sympy.expand(nctl - exp_c)
  for v, (k, pos) in role.items():
    sv = sym.symbol(v)
    ct_, cc_ = rest_t.coeff(sv), rest_c.coeff(sv)
    opts = table[k]
    if len(opts) == 2 and (0, 0) in opts:
      side = 0 if (1, 0) in opts else 1
      want = (1, 0) if side == 0 else (0, 1)
      if (ct_, cc_) != want:
        ok_forms = False
        why.append('index %s of class %s contributes (%s, %s) to (treatment, control) sizes, expected %s' % (v, k, ct_, cc_, want))
    elif len(opts) == 2:
      # {T, C}: v to one side, n_k - v to the other
      if not ((ct_, cc_) in ((1, -1), (-1, 1))):
        ok_forms = False
        why.append('index %s of class %s must go to one group and its complement to the other (coefficients %s, %s)' % (v, k, ct_, cc_))
    else:
      if not ((ct_, cc_) in ((1, 0), (0, 1))):
        ok_forms = False
        why.append('index %s of class %s contributes (%s, %s)' % (v, k, ct_, cc_))
  # after removing index terms, the remainder must be the complement term of the {T,C} classes
  rem_t, rem_c = rest_t, rest_c
  for v in role:
    sv = sym.symbol(v)
    rem_t = sympy.expand(rem_t - rem_t.coeff(sv) * sv)
    rem_c = sympy.expand(rem_c - rem_c.coeff(sv) * sv)
  both = [k for k, o in table.items() if len(o) == 2 and (0, 0) not in o]
  exp_rem = sum(class_symbol(k) for k in both)
  if sympy.simplify(rem_t + rem_c - exp_rem) != 0 or any(sympy.simplify(x) != 0 for x in ()):
    ok_forms = False
    why.append('constant parts of the sizes are (%s, %s); together they must add the full count of the classes %s' % (rem_t, rem_c, both))
  for v, (k, pos) in role.items():
    if len(table[k]) == 3:
      pass
  three = [v for v, (k, p) in role.items() if len(table[k]) == 3]
  if len(three) == 2:
    a, b = [sym.symbol(x) for x in three]
    sides = {(rest_t.coeff(a), rest_c.coeff(a)), (rest_t.coeff(b), rest_c.coeff(b))}
    if sides != {(1, 0), (0, 1)}:
      ok_forms = False
      why.append('the two indices of the three-way class must count treatment and control members respectively')
  rep.check(ok_forms, 'R2/normal-form', 'treatment and control sizes are the linear forms generated from the placement table', f.qualname,
            'n_trt = %s ; n_ctl = %s' % (ntrt, nctl), 'the group sizes used by the count do not match the placement table: %s' % '; '.join(why), f.loc())
  rep.floor('loops of the count', len(ranges), 5)
  return f


def r3_sizes(repo, rep):
  sub = type(rep)(rep.prop, rep.tier, rep.repo)
  c02._prov_done.pop(id(sub), None)
  c02.size_range_function(repo, sub, 'treatment_group_size_range', 'treatment_geos_range', 'treatment_group_size_range')
  c02.size_range_function(repo, sub, '_control_group_size_generator', 'control_geos_range', '_control_group_size_generator')
  c02.generator_exact_size(repo, sub, 'treatment_group_generator', lambda ff, n: ff.params[1], 'treatment_group_generator')
  view = search.SearchView(repo, 'exhaustive_search')
  if view.pushed and view.pushed[0].T is not None:
    c02.provenance_sizes(repo, sub, view, view.pushed[0], 'control_geos_range')
    c02.provenance_sizes(repo, sub, view, view.pushed[0], 'geo_ratio_tolerance')
  for i in sub.instances:
    i.rule = 'R3/' + i.rule.split('/', 1)[1]
    rep.instances.append(i)


def run(repo, rep, tier):
  table = r1_placement(repo, rep)
  r2_exact(repo, rep)
  # a class whose placements were not followed (R1 undecided: yields through a helper) is counted against the placements
  # its eligibility row allows
  table = {k: (v if v and not FREE_SETS else set(EXPECTED_PLACEMENT.get(k, ()))) for k, v in table.items()}
  r2_normal_form(repo, rep, table)
  r3_sizes(repo, rep)
