"""C15 — the canonical data object faithfully represents the input panel.

Decided (structure): (R1) ingestion pipeline of TBRMMData.__init__: IDs cast to
str before the pivot; pivot_table(values=response, index='geo', columns='date',
fill_value=0) and the means/shares/order are computed from that zero-filled
table; rows ordered by means sorted descending; shares = means / sum(means);
(R2) reconciliation: ValueError when a geo that cannot be excluded (all - x,
evaluated on the class algebra) is missing from the data, dominating the
narrowing; narrowed table selected by the common geos; assignable = all -
x_fixed; (R3) the index setter builds assignments, index, row array and share
array from its one argument and the aggregates index them by their argument
(C04.R4); (R4) no set-kinded value is used as a pandas row selector.
Not decided: pandas' numeric results; behaviour with duplicate (geo, date) cells.
"""
import ast
import re

from mmsa import au, boolset, cfg as cfgmod, dataflow
from mmsa.core import Undecided, norm, walk_no_nested
from mmsa.types import FuncCtx

EXPLANATION = (
    'Argument-table and provenance rules over TBRMMData.__init__ (alias-expanded expressions), Boolean evaluation of the '
    '"cannot be excluded" set on the class algebra of GeoAssignments, dominance of the rejection over the narrowing, a set-kind '
    'inference for pandas row selectors, and the single-source rules of the index setter and aggregates.')
RULE_TEXT = 'one obligation per pipeline argument, reconciliation clause, selector site and setter field'


def set_kinded(ctx, node, e, depth=6):
  """True if the expression certainly evaluates to a Python set."""
  if depth <= 0:
    return False
  if isinstance(e, (ast.Set, ast.SetComp)):
    return True
  if isinstance(e, ast.Call):
    fn = norm(e.func)
    if fn in ('set', 'frozenset'):
      return True
    if isinstance(e.func, ast.Attribute) and e.func.attr in ('union', 'intersection', 'difference', 'symmetric_difference') :
      return set_kinded(ctx, node, e.func.value, depth - 1)
    return False
  if isinstance(e, ast.BinOp) and isinstance(e.op, (ast.BitAnd, ast.BitOr, ast.Sub, ast.BitXor)):
    return set_kinded(ctx, node, e.left, depth - 1) or set_kinded(ctx, node, e.right, depth - 1)
  if isinstance(e, ast.Attribute):
    return re.search(r'(geo_assignments|assignments)\.(all|c|t|x|c_fixed|t_fixed|x_fixed|ct|cx|tx|ctx)$', norm(e)) is not None or \
        norm(e) in ('self.geos_in_data', 'self.assignable')
  if isinstance(e, ast.Name) and node is not None:
    ds = ctx.rd.defs_at(node, e.id)
    return bool(ds) and all(d.how == 'assign' and d.value is not None and set_kinded(ctx, d.node, d.value, depth - 1) for d in ds)
  return False


def r4_selectors(repo, rep):
  n = 0
  for q in ('tbrmmdata.TBRMMData', 'geoeligibility.GeoEligibility', 'tbrmatchedmarkets.TBRMatchedMarkets'):
    cls = repo.cls(q)
    for f in cls.all_functions():
      ctx = FuncCtx.of(f)
      for node in ctx.g.nodes:
        for e in ctx.node_exprs(node):
          for sub in walk_no_nested(e):
            sel = None
            if isinstance(sub, ast.Subscript) and isinstance(sub.value, ast.Attribute) and sub.value.attr in ('loc', 'iloc'):
              sel = sub.slice.elts[0] if isinstance(sub.slice, ast.Tuple) and sub.slice.elts else sub.slice
            elif isinstance(sub, ast.Call) and isinstance(sub.func, ast.Attribute) and sub.func.attr in ('reindex', 'take', 'drop') and sub.args:
              sel = sub.args[0]
            if sel is None or isinstance(sel, ast.Slice):
              continue
            n += 1
            bad = set_kinded(ctx, node, sel)
            rep.check(not bad, 'R4/set-selector', '%s: row selector %s is ordered (not a set)' % (f.name, norm(sel)[:40]), f.qualname, norm(sub)[:120],
                      '`%s` selects rows with a Python set (%s): pandas rejects sets as indexers (TypeError) and a set has no defined order'
                      % (norm(sub)[:80], norm(ctx.rd.expand(node, sel)[0])[:60]), f.loc(sub))
  rep.floor('pandas row-selector sites', n, 4)


def r1_r2_init(repo, rep):
  cls = repo.cls('tbrmmdata.TBRMMData')
  f = cls.methods.get('__init__')
  if f is None:
    raise Undecided('TBRMMData.__init__ vanished')
  rep.fn(f)
  ctx = FuncCtx.of(f)
  g, rd = ctx.g, ctx.rd
  frame, resp = f.params[1], f.params[2]
  doms = g.dominators(cfgmod.no_exc)

  def store(field):
    ns = [n for n in g.nodes if n.kind == 'stmt' and isinstance(n.ast, ast.Assign) and any(norm(t) == 'self.%s' % field for t in n.ast.targets)]
    if len(ns) != 1:
      raise Undecided('expected one store to self.%s in TBRMMData.__init__ (found %d)' % (field, len(ns)))
    return ns[0]

  def labels_plain(e):
    """list(X.index), X.index.tolist(), X.index.to_list(), X.index.values -> X.index: the same row labels in the same order."""
    class _L(ast.NodeTransformer):
      def visit_Call(self, c):
        self.generic_visit(c)
        if isinstance(c.func, ast.Name) and c.func.id == 'list' and len(c.args) == 1 and not c.keywords and isinstance(c.args[0], ast.Attribute) and c.args[0].attr == 'index':
          return c.args[0]
        if isinstance(c.func, ast.Attribute) and c.func.attr in ('tolist', 'to_list', 'to_numpy') and not c.args and not c.keywords \
            and isinstance(c.func.value, ast.Attribute) and c.func.value.attr == 'index':
          return c.func.value
        return c
      def visit_Attribute(self, a):
        self.generic_visit(a)
        if a.attr == 'values' and isinstance(a.value, ast.Attribute) and a.value.attr == 'index':
          return a.value
        return a
    return _L().visit(dataflow.clone(e))

  def full(n, e):
    return norm(labels_plain(rd.expand(n, e, depth=12, keep=(resp,), aliases=True)[0]))
  # canonical string IDs before the pivot
  def _xt(n_, e_):
    try:
      return norm(rd.expand(n_, e_, depth=6, keep=(resp,), aliases=True)[0])
    except Exception:
      return norm(e_)
  casts = [n for n in g.nodes if n.kind == 'stmt' and isinstance(n.ast, ast.Assign)
           and (re.search(r"(\.geo|\['geo'\])$", norm(n.ast.targets[0])) or (isinstance(n.ast.targets[0], ast.Subscript) and re.search(r"\['geo'\]$", _xt(n, n.ast.targets[0].slice) and "['%s']" % _xt(n, n.ast.targets[0].slice).strip("'"))))
           and (re.search(r"astype\(('str'|str)\)", norm(n.ast.value)) or re.search(r"astype\(('str'|str)\)", _xt(n, n.ast.value)))]
  pivots = [n for n in g.nodes if n.kind == 'stmt' and 'pivot_table(' in norm(n.ast) or (n.kind == 'stmt' and '.pivot(' in norm(n.ast))]
  if not pivots:
    rep.undecided('R1/ingestion-ids', 'geo IDs are cast to str before the pivot', 'the table is not built by pivot_table / pivot in the constructor: where the row labels come from is not followed', f.loc())
  elif not casts and (any(isinstance(c_, ast.Call) and isinstance(c_.func, ast.Attribute) and c_.func.attr in ('astype', 'map', 'apply') and re.search(r"\bstr\b", norm(c_))
                          for c_ in ast.walk(f.module.tree))
                      or any(isinstance(c_, ast.Call) and isinstance(c_.func, ast.Attribute) and c_.func.attr in ('astype', 'map', 'apply') for c_ in ast.walk(f.node))):
    rep.undecided('R1/ingestion-ids', 'geo IDs are cast to str before the pivot', 'a conversion to str exists in the module, but not as an assignment to the geo column in the recognised form', f.loc())
  else:
    rep.check(bool(casts) and all(casts[0] in doms[p] for p in pivots), 'R1/ingestion-ids', 'geo IDs are cast to str before the pivot', f.qualname,
              'astype(str) / pivot order', 'geo IDs are not converted to strings before the table is pivoted: integer and string IDs give different row labels', f.loc())
  # the pivot call
  pcall = None
  for n in pivots:
    for c in au.calls_in(n.ast):
      if isinstance(c.func, ast.Attribute) and c.func.attr in ('pivot_table', 'pivot'):
        pcall = (n, c)
  if pcall is None:
    rep.undecided('R1/ingestion', 'pivot', 'no pivot_table call', f.loc())
    return
  pn, pc = pcall
  want = {'values': resp, 'index': "'geo'", 'columns': "'date'"}
  for k, v in want.items():
    a = au.arg(pc, {'values': 0, 'index': 1, 'columns': 2}[k], k)
    if a is None:
      rep.check(False, 'R1/ingestion-pivot', 'pivot %s=%s' % (k, v), f.qualname, '%s=missing' % k,
                'the panel is pivoted with %s=missing instead of %s' % (k, v), f.loc(pc))
      continue
    a_x = rd.expand(pn, a, depth=8, keep=(resp,), aliases=True)[0]
    rep.check_term(norm(a) == v or norm(a_x) == v, a_x, (resp,), 'R1/ingestion-pivot', 'pivot %s=%s' % (k, v), f.qualname, '%s=%s' % (k, norm(a)),
                   'the panel is pivoted with %s=%s instead of %s' % (k, norm(a), v), f.loc(pc))
  agg = au.arg(pc, 3, 'aggfunc')
  rep.check(agg is None or norm(agg) in ("'mean'", 'np.mean'), 'R1/ingestion', 'pivot aggregates duplicate cells with the default mean', f.qualname,
            'aggfunc=%s' % (norm(agg) if agg is not None else 'default'), 'unexpected aggfunc %s' % (norm(agg) if agg is not None else ''), f.loc(pc), nontrivial=False)
  # means / order / shares computed from the zero-filled table
  sdf, sshare, sgeos = store('df'), store('geo_share'), store('geos_in_data')
  share_txt = full(sshare, sshare.ast.value)
  df_txt = full(sdf, sdf.ast.value)
  m = re.fullmatch(r'(.+) / sum\((.+)\)', share_txt) or re.fullmatch(r'(.+) / (.+)\.sum\(\)', share_txt) or re.fullmatch(r'(.+) / np\.sum\((.+)\)', share_txt)
  VOC_I = (resp, frame)
  rep.check_term(m is not None and m.group(1) == m.group(2), share_txt, VOC_I, 'R1/ingestion', 'geo_share = means / sum(means)', f.qualname, 'geo_share = ' + share_txt[:140],
                 'geo_share is `%s`, not each geo\'s mean divided by the sum of the means' % share_txt[:120], f.loc(sshare.ast))
  if m is None or m.group(1) != m.group(2):
    rep.undecided('R1/ingestion', 'means / table / row order', 'the share is not of the form means / sum(means): the clauses that start from it are not examined', f.loc(sshare.ast))
  else:
    means = m.group(1)
    mm = re.fullmatch(r'(.+)\.mean\((?:axis=)?1\)\.sort_values\(ascending=False\)', means)
    rep.check_term(mm is not None, means, VOC_I, 'R1/ingestion', 'means are row means sorted in decreasing order', f.qualname, 'means = ' + means[:140],
                   'the geo means are `%s`, not the row means (over dates) sorted descending' % means[:120], f.loc(sshare.ast))
    if mm is not None:
      table = mm.group(1)
      filled = ('fill_value=0' in table and 'pivot_table(' in table) or table.endswith('.fillna(0)')
      rep.check_term(filled, table, VOC_I, 'R1/ingestion', 'means and shares are computed from the zero-filled table (missing cells count as 0)', f.qualname, 'table = ' + table[:160],
                     'the means/shares/order are computed from `%s`, in which missing (geo, date) cells are not zero: geos with missing cells get a mean over observed dates only'
                     % table[:120], f.loc(pc))
      okdf = re.fullmatch(r'(.+)\.loc\[(.+)\.index\]', df_txt) or re.fullmatch(r'(.+)\.reindex\((.+)\.index\)', df_txt)
      rep.check_term(okdf is not None and okdf.group(2) == means and (okdf.group(1) == table), df_txt, VOC_I, 'R1/ingestion', 'rows of df are reordered by decreasing mean', f.qualname,
                     'self.df = ' + df_txt[:160], 'self.df is `%s`: not the zero-filled pivot table with rows in the order of the sorted means' % df_txt[:120], f.loc(sdf.ast))
    gtxt = re.sub(r'^set\(list\((.*)\)\)$', r'set(\1)', full(sgeos, sgeos.ast.value))      # set(list(x)) is set(x)
    rep.check_term(gtxt == 'set(%s.index)' % means, gtxt, VOC_I, 'R1/ingestion', 'geos_in_data = IDs of the table rows', f.qualname, gtxt[:120],
                   'geos_in_data is `%s`' % gtxt[:100], f.loc(sgeos.ast), nontrivial=False)
  # R2 reconciliation, on the set algebra: atoms c, t, x (the eligibility row of a generic geo) and D (the geo is in the data)
  from mmsa.props import c16
  env4, fields4, _ = c16.class_functions(repo, extra_atoms=('D',))
  D = env4.atom('D')
  # locals holding the assignment sets of the eligibility object, whatever they are called
  ga_names = {'geo_assignments'}
  for n_ in g.nodes:
    if n_.kind == 'stmt' and isinstance(n_.ast, ast.Assign) and isinstance(n_.ast.value, ast.Call) and norm(n_.ast.value.func).endswith('.get_eligible_assignments') \
        and not n_.ast.value.args and not n_.ast.value.keywords:
      for t_ in n_.ast.targets:
        if isinstance(t_, ast.Name):
          ga_names.add(t_.id)
  keepr = tuple(sorted(ga_names)) + ('geos_in_data',)

  def lookup4(x):
    if isinstance(x, ast.Attribute) and isinstance(x.value, ast.Name) and x.value.id in ga_names:
      return fields4.get(x.attr)
    if isinstance(x, ast.Name) and x.id == 'geos_in_data':
      return D
    if isinstance(x, ast.Attribute) and norm(x) == 'self.geos_in_data':
      return D
    return None

  def set_of(node, e):
    return boolset.eval_set(env4, rd.expand(node, e, keep=keepr, aliases=True)[0], lookup4)
  in_table = fields4['all']
  want_missing = in_table & env4.neg(fields4['x']) & env4.neg(D)          # rows that forbid exclusion, geo absent from the data
  want_common = in_table & D
  # the guard raising ValueError for missing must-include geos: a test on a set expression whose non-emptiness leads to a raise
  guard = None
  n_guard_candidates = 0
  for n in g.nodes:
    if n.kind != 'test':
      continue
    for lab in ('true', 'false'):
      succ = [m_ for m_, l_ in g.succ[n] if l_ == lab]
      if not succ:
        continue
      reach = g.reachable(succ[0], cfgmod.no_exc)
      if g.exit in reach or not any(r.kind == 'raisestmt' for r in reach):
        continue
      e_, neg_ = au.strip_not(n.expr)
      if (lab == 'true') == neg_:
        continue          # the raising branch is the one where the set is empty: not a "non-empty -> raise" guard
      t_ = norm(rd.expand(n, e_, keep=keepr, aliases=True)[0])
      if 'geos_in_data' not in t_ or not any(nm in t_ for nm in ga_names):
        continue
      n_guard_candidates += 1
      try:
        guard = (n, e_, set_of(n, e_), reach)
      except Undecided:
        pass
  sel, selnode = None, None
  for n in g.nodes:
    if n.kind == 'stmt':
      for sub in walk_no_nested(n.ast):
        if isinstance(sub, ast.Subscript) and re.search(r'geo_eligibility\w*\.data\.loc$', norm(sub.value)):
          sel, selnode = sub, n
  if guard is None and not n_guard_candidates:
    # any raising test that mentions the eligibility geos (subset tests `not A <= B`, walrus forms, helper predicates)
    for n in g.nodes:
      if n.kind != 'test':
        continue
      try:
        t_ = norm(rd.expand(n, n.expr, keep=keepr, aliases=True)[0])
      except Exception:
        t_ = norm(n.expr)
      if not (any(nm in t_ for nm in ga_names) or 'geo_eligibility' in t_):
        continue
      for m_, l_ in g.succ[n]:
        if l_ in ('true', 'false'):
          reach_ = g.reachable(m_, cfgmod.no_exc)
          if g.exit not in reach_ and any(r.kind == 'raisestmt' for r in reach_):
            n_guard_candidates += 1
  if guard is None:
    if n_guard_candidates:
      rep.undecided('R2/reconciliation', 'missing-geo guard', 'a raising guard on the eligibility and data geos exists but its set expression is not understood', f.loc())
    else:
      rep.violation('R2/reconciliation', f.qualname, 'no rejection of missing must-include geos',
                    'TBRMMData no longer rejects eligibility rows of geos that cannot be excluded but are absent from the data', f.loc())
  else:
    gn, ge, gmask, greach = guard
    rep.check(gmask == want_missing, 'R2/reconciliation', 'the geos that must be present are exactly those whose row forbids exclusion', f.qualname, norm(ge)[:100],
              'the set of geos whose absence from the data is rejected is `%s` (rows (c,t,x,in data) %s), but every geo whose row forbids exclusion and that is not in the data (rows %s) must be rejected: a missing must-include geo is silently dropped'
              % (norm(rd.expand(gn, ge, keep=keepr, aliases=True)[0])[:80], sorted(env4.table(gmask & in_table)), sorted(env4.table(want_missing))), f.loc(gn.expr))
    for r in greach:
      if r.kind == 'raisestmt':
        exn = norm(r.ast.exc.func) if isinstance(r.ast.exc, ast.Call) else norm(r.ast.exc)
        rep.check(exn == 'ValueError', 'R2/reconciliation', 'missing must-include geos raise ValueError', f.qualname, norm(r.ast)[:80],
                  'missing must-include geos raise %s instead of ValueError' % exn, f.loc(r.ast))
    if selnode is not None:
      # the narrowing must not be reachable without having passed the rejection: no path entry -> narrowing avoiding the guard
      byp = g.path_avoiding(g.entry, lambda m_: m_ is selnode, lambda m_: m_ is gn, cfgmod.no_exc)
      rep.check(byp is None, 'R2/reconciliation', 'the rejection lies on every path to the narrowing of the eligibility table', f.qualname, norm(selnode.ast)[:100],
                'the eligibility table is narrowed on a path that skips the check for missing must-include geos', f.loc(selnode.ast))
  if selnode is None:
    rep.undecided('R2/reconciliation', 'narrowing', 'no `geo_eligibility.data.loc[...]` narrowing found', f.loc())
  else:
    se = rd.expand(selnode, sel.slice, keep=keepr, aliases=True)[0]
    wrapped = False
    while isinstance(se, ast.Call) and isinstance(se.func, ast.Name) and se.func.id in ('sorted', 'list', 'tuple') and len(se.args) == 1:
      se, wrapped = se.args[0], True
    st = norm(se)
    try:
      nmask = boolset.eval_set(env4, se, lookup4)
      rep.check(wrapped and nmask & in_table == want_common and nmask & env4.neg(in_table) & env4.neg(D) == 0, 'R2/reconciliation',
                'the table is narrowed to the geos common to data and eligibility (as a list)', f.qualname, 'loc[%s]' % st[:100],
                'the eligibility table is narrowed with `%s`%s, not with the list of geos present in both the data and the table' % (st[:80], '' if wrapped else ' (a set, which pandas rejects as indexer)'), f.loc(sel))
    except Undecided as ex:
      rep.undecided('R2/reconciliation', 'narrowing', str(ex), f.loc(sel))
  env3, fields, _ = c16.class_functions(repo)
  sa = store('assignable')
  at = norm(rd.expand(sa, sa.ast.value, keep=('geo_assignments',))[0])
  try:
    mk = boolset.eval_set(env3, ast.parse(at, mode='eval').body,
                          lambda x: fields.get(x.attr) if isinstance(x, ast.Attribute) and norm(x.value) == 'geo_assignments' else None)
    want = fields['all'] & env3.neg(fields['x_fixed'])
    rep.check(mk == want, 'R2/reconciliation', 'assignable = eligible geos minus the must-exclude ones', f.qualname, at[:100],
              'assignable is `%s` (rows %s), not all - x_fixed (rows %s)' % (at[:80], sorted(env3.table(mk)), sorted(env3.table(want))), f.loc(sa.ast))
  except Undecided as ex:
    rep.undecided('R2/reconciliation', 'assignable', str(ex), f.loc(sa.ast))


def run(repo, rep, tier):
  r1_r2_init(repo, rep)
  from mmsa.props import c04
  c04.r4_data_object(repo, rep)
  c04.r4_data_memo(repo, rep)
  for i in rep.instances:
    if i.rule == 'R4/single-source':
      i.rule = 'R3/single-source'
  r4_selectors(repo, rep)
  # the index setter relies on get_eligible_assignments(geos, indices=True) narrowing to `geos` in the given order (C16.R3)
  from mmsa.props import c16
  sub = type(rep)(rep.prop, rep.tier, rep.repo)
  c16.r3_selection(repo, sub)
  for i in sub.instances:
    if i.rule.startswith('R3/selection') or i.rule.startswith('R4/none-vs-empty'):
      i.rule = 'R3/index-selection'
      rep.instances.append(i)
