"""C10 — the search API has no hidden state.

Decided (who-may-write): (R1) nothing stores into the parameter object, in
TBRMatchedMarkets or in the classes it hands the object to; (R2) query methods
and properties of TBRMatchedMarkets write nothing reachable from self except
the index install `self.data.geo_index = ...` in geo_assignments, which happens
on every path of that property, and the data object's own methods write only in
its constructor and in that setter, whose right-hand sides read only
construction-time state; (R3) result retrieval does not modify the retained
designs; (R4) each search allocates its own heap, pushes only into it and
installs it once as the result; (R5) the input frame is copied before
TBRMMData modifies it.
Not decided: equality of answers between an aged and a fresh object beyond what
purity implies; consumption of the global NumPy RNG by greedy_search (does not
reach any output).
"""
import ast
import re

from mmsa import au, cfg as cfgmod, classfx, dataflow, effects, pathcond
from mmsa.core import Undecided, norm, walk_no_nested

MM = 'tbrmatchedmarkets.TBRMatchedMarkets'
SEARCHES = ('exhaustive_search', 'greedy_search')
EXPLANATION = (
    'Effect/ownership analysis: every attribute store, item store, delete and mutator call of TBRMatchedMarkets, TBRMMData, '
    'TBRMMDiagnostics, TBRMMScore, TBRMMDesign and HeapDict is collected with its receiver expanded through local aliases; '
    'rules restrict who may write the parameter object, self-reachable state, retained designs and the input frame. '
    'Holds for every call history because it constrains every write site.')
RULE_TEXT = 'one obligation per write site (effect) and per structural clause; non-trivial = the site writes self- or parameter-reachable state'

FRESH_CALLS = {'copy', 'deepcopy', 'pivot_table', 'astype', 'to_numpy', 'to_frame', 'sum', 'mean', 'sort_values', 'reset_index', 'apply',
               'get_result', 'to_list', 'tolist'}
PARAM_PAT = re.compile(r'^(self\.parameters|parameters|self\._par|par|self\.diag\._par|self\.score\.diag\._par)(\.|\[|$)')


def alloc_class(e, params, selfname):
  """'fresh' | 'self' | 'param:<name>' | 'local' for an (expanded) receiver expression."""
  while True:
    if isinstance(e, ast.Call):
      f = e.func
      if isinstance(f, ast.Attribute) and f.attr in FRESH_CALLS:
        return 'fresh'
      if isinstance(f, ast.Name) and (f.id[:1].isupper() or f.id in ('set', 'list', 'dict', 'tuple', 'sorted')):
        return 'fresh'
      if isinstance(f, ast.Attribute) and (f.attr[:1].isupper()):
        return 'fresh'
      e = f
    elif isinstance(e, (ast.Attribute, ast.Subscript)):
      e = e.value
    elif isinstance(e, ast.Name):
      if e.id == selfname:
        return 'self'
      if e.id in params:
        return 'param:' + e.id
      return 'local'
    elif isinstance(e, (ast.Dict, ast.List, ast.Set, ast.Tuple, ast.ListComp, ast.SetComp, ast.DictComp, ast.BinOp, ast.Constant)):
      return 'fresh'
    else:
      return 'local'


def function_effects(f):
  from mmsa.types import FuncCtx
  ctx_ = FuncCtx.of(f)
  g, rd = ctx_.g, ctx_.rd
  effs = effects.effects_of(f.node, g, rd)
  out = []
  for e in effs:
    exp_ast = rd.expand(e.node, e.target, aliases=True)[0]
    if e.kind in ('attr-store', 'item-store', 'delete'):
      recv = exp_ast.value      # object being written
    elif e.kind == 'mutator-call':
      recv = exp_ast
    else:
      recv = exp_ast
    selfn = f.params[0] if f.params and f.kind in ('method', 'getter', 'setter', 'nested') else None
    if f.outer is not None and f.outer.params:
      selfn = f.outer.params[0]
    e_cls = alloc_class(recv, f.params, selfn)
    e.recv_ast = recv
    out.append((e, norm(recv), e_cls))
  return g, rd, out


def _root_name(e):
  while isinstance(e, (ast.Attribute, ast.Subscript, ast.Call)):
    e = e.func if isinstance(e, ast.Call) else e.value
  return e.id if isinstance(e, ast.Name) else None


def _param_alias_defs(rd, node, name, seen=None):
  """Definitions reaching `node` through which `name` may denote the parameter object itself (p = self.parameters, or
  a chain of plain local aliases of it)."""
  seen = seen if seen is not None else set()
  out = []
  for d in rd.defs_at(node, name):
    if id(d) in seen or d.how != 'assign' or d.value is None:
      continue
    seen.add(id(d))
    text = norm(rd.expand(d.node, d.value, aliases=True)[0])
    if PARAM_PAT.match(text) and '(' not in text:
      out.append((d, text))
    elif isinstance(d.value, ast.Name):
      out += [(d, t) for _, t in _param_alias_defs(rd, d.node, d.value.id, seen)]
  return out


def _conditional_alias(rep, f, g, rd, e):
  """`p = self.parameters; if c: p = copy.copy(p); p.field = v`: the store writes the caller's object on the paths that
  skip the copy.  Reported when such a path is feasible under the path conditions."""
  recv = e.target.value if e.kind in ('attr-store', 'item-store', 'delete') and isinstance(e.target, (ast.Attribute, ast.Subscript)) else e.target
  name = _root_name(recv)
  if name is None:
    return
  cands = _param_alias_defs(rd, e.node, name)
  if not cands:
    return
  try:
    for path in g.enumerate_paths(g.entry, lambda x: x is e.node, cfgmod.no_exc, max_paths=3000, back_limit=0):
      pf = pathcond.PathFacts(path, rd)
      if not pf.feasible:
        continue
      # follow the chain of plain aliases along this path: par = result; result = parameters; parameters = self.parameters
      nm, env, origin = name, pf.env, None
      for _ in range(8):
        last = env.get(nm)
        if last is None:
          break
        d, env = last
        if d.how != 'assign' or d.value is None:
          break
        if isinstance(d.value, ast.Name):
          nm = d.value.id
          continue
        text = norm(rd.expand(d.node, d.value, aliases=True, pathenv=env)[0])
        if PARAM_PAT.match(text) and '(' not in text:
          origin = text
        break
      if origin is None:
        continue
      rep.violation('R1/parameters-read-only', f.qualname, norm(e.stmt)[:140],
                    '%s: %s writes through %s, which is %s (the caller\'s parameter object) on the path where %s: a search or query changes the user\'s TBRMMDesignParameters'
                    % (f.name, norm(e.stmt)[:80], name, origin, pf.text()[:160] or 'no copy is taken'), f.loc(e.stmt))
      return
  except Undecided as ex:
    rep.undecided('R1/parameters-read-only', '%s: %s' % (f.name, norm(e.stmt)[:60]), 'receiver %s may alias the parameter object; %s' % (name, ex), f.loc(e.stmt))


def _returned_params(g):
  """{parameter name: text of the path condition} for the parameters that function g hands back unchanged on a feasible
  path (`return p`, possibly through plain local aliases); {} when none; raises Undecided when the paths are too many."""
  from mmsa.types import FuncCtx
  ctx = FuncCtx.of(g)
  out = {}
  for r in [n for n in ctx.g.nodes if n.kind == 'return' and n.ast.value is not None and isinstance(n.ast.value, ast.Name)]:
    for path in ctx.g.enumerate_paths(ctx.g.entry, lambda x: x is r, cfgmod.no_exc, max_paths=3000, back_limit=0):
      pf = pathcond.PathFacts(path, ctx.rd)
      if not pf.feasible:
        continue
      name, env = r.ast.value.id, pf.env
      for _ in range(6):
        last = env.get(name)
        if last is None or last[0].how == 'param':
          if name in g.params:
            out.setdefault(name, pf.text()[:120] or 'always')
          break
        d, env = last
        if d.how == 'assign' and isinstance(d.value, ast.Name):
          name = d.value.id
        else:
          break
  return out


def _alias_through_helper(repo, rep, T, f, rd, e):
  """`par = helper(self.parameters, ..); par.x = v` where `helper` can return its argument unchanged: the store writes the
  caller's object on that path of the helper."""
  recv = getattr(e, 'recv_ast', None)
  while isinstance(recv, (ast.Attribute, ast.Subscript)):
    recv = recv.value
  if not isinstance(recv, ast.Call):
    return
  t = T.callee(f, recv, e.node)
  if not t or t[0] != 'func':
    return
  h = t[1]
  off = 1 if h.kind in ('method', 'classmethod') else 0
  try:
    back = _returned_params(h)
  except Undecided as ex:
    rep.undecided('R1/parameters-read-only', '%s: %s' % (f.name, norm(e.stmt)[:60]), 'the helper %s may return its argument; %s' % (h.name, ex), f.loc(e.stmt))
    return
  for pname, cond in back.items():
    if pname not in h.params:
      continue
    i = h.params.index(pname) - off
    a = recv.args[i] if 0 <= i < len(recv.args) else au.kwarg(recv, pname)
    if a is None:
      continue
    text = norm(rd.expand(e.node, a, aliases=True)[0])
    if PARAM_PAT.match(text) and '(' not in text:
      rep.violation('R1/parameters-read-only', f.qualname, norm(e.stmt)[:140],
                    '%s: %s writes through the result of %s(%s, ..), which hands its argument back unchanged on the path where %s: the store changes the caller\'s TBRMMDesignParameters'
                    % (f.name, norm(e.stmt)[:80], h.name, text, cond), f.loc(e.stmt))
      return


def r1_parameters(repo, rep):
  from mmsa import types as typesmod
  T = typesmod.Types(repo)
  n = 0
  classes = [MM, 'tbrmmdiagnostics.TBRMMDiagnostics', 'tbrmmscore.TBRMMScore', 'tbrmmdesign.TBRMMDesign', 'tbrmmdata.TBRMMData', 'heapdict.HeapDict']
  for q in classes:
    cls = repo.cls(q)
    funcs = list(cls.all_functions())
    for f in list(funcs):
      funcs += list(f.nested.values())
    for f in funcs:
      rep.fn(f)
      g, rd, effs = function_effects(f)
      for e, recv, cls_ in effs:
        n += 1
        if e.kind == 'aug-name':
          continue
        hit = PARAM_PAT.match(recv)
        # a store *of* the parameter object into a field (self._par = par) is not a write *into* it
        rep.check(not hit, 'R1/parameters-read-only', '%s: %s does not write the parameter object' % (f.name, norm(e.stmt)[:50]), f.qualname,
                  norm(e.stmt)[:140], '%s writes into the caller\'s parameter object (%s): a search or query changes the user\'s TBRMMDesignParameters'
                  % (f.name, norm(e.stmt)[:100]), f.loc(e.stmt), nontrivial=bool(hit))
        if not hit and cls_ == 'local' and e.kind in ('attr-store', 'item-store', 'delete', 'mutator-call'):
          _conditional_alias(rep, f, g, rd, e)
        if not hit and e.kind in ('attr-store', 'item-store', 'delete', 'mutator-call'):
          _alias_through_helper(repo, rep, T, f, rd, e)
  rep.floor('write sites scanned for parameter stores', n, 40)
  # interprocedural part: methods of the parameter class that write their own fields (directly or through another
  # method of the class) must not be invoked on a parameter object outside its construction
  pcls = repo.cls('tbrmmdesignparameters.TBRMMDesignParameters')
  writers = {}
  for m in pcls.all_functions():
    sn = m.params[0] if m.params else None
    for e in effects.effects_of(m.node):
      if e.kind in ('attr-store', 'delete') and isinstance(e.target, ast.Attribute) and norm(e.target.value) == sn:
        writers.setdefault(m.name, norm(e.stmt)[:60])
      if e.kind == 'mutator-call' and e.attr in ('setattr', 'delattr', '__setattr__', 'object.__setattr__') and norm(e.target) == sn:
        writers.setdefault(m.name, norm(e.stmt)[:60])
  # ... or through a local that is the object itself on some path: resolved = self; if c: resolved = copy.copy(self); resolved.x = v
  from mmsa.types import FuncCtx as _FC
  for m in pcls.all_functions():
    if m.name in writers or m.name in ('__init__', '__post_init__') or not m.params:
      continue
    sn = m.params[0]
    mctx = _FC.of(m)
    for e in effects.effects_of(m.node, mctx.g, mctx.rd):
      if e.kind not in ('attr-store', 'delete') or not isinstance(e.target, ast.Attribute) or not isinstance(e.target.value, ast.Name) or e.target.value.id == sn:
        continue
      name = e.target.value.id
      try:
        for path in mctx.g.enumerate_paths(mctx.g.entry, lambda x: x is e.node, cfgmod.no_exc, max_paths=2000, back_limit=0):
          pf = pathcond.PathFacts(path, mctx.rd)
          if not pf.feasible:
            continue
          nm, env = name, pf.env
          for _ in range(6):
            last = env.get(nm)
            if last is None:
              break
            d_, env = last
            if d_.how == 'param':
              break
            if d_.how == 'assign' and isinstance(d_.value, ast.Name):
              nm = d_.value.id
              continue
            nm = None
            break
          if nm == sn:
            writers.setdefault(m.name, '%s with %s being the object itself when %s' % (norm(e.stmt)[:50], name, pf.text()[:80] or 'always'))
            break
      except Undecided:
        pass
  changed = True
  while changed:
    changed = False
    for m in pcls.all_functions():
      if m.name in writers:
        continue
      sn = m.params[0] if m.params else None
      for call in au.calls_in(m.node):
        if isinstance(call.func, ast.Attribute) and norm(call.func.value) == sn and call.func.attr in writers:
          writers[m.name] = 'calls %s' % call.func.attr
          changed = True
  rep.extra['parameter_methods_writing_self'] = sorted(writers)
  n_calls = 0
  for q in classes:
    cls = repo.cls(q)
    funcs = list(cls.all_functions())
    for f in list(funcs):
      funcs += list(f.nested.values())
    for f in funcs:
      g = cfgmod.CFG(f.node)
      rd = dataflow.Reaching(g)
      for node in g.nodes:
        for ex in classfx._node_exprs(node):
          for call in au.calls_in(ex):
            if not (isinstance(call.func, ast.Attribute) and call.func.attr in writers):
              continue
            recv = norm(rd.expand(node, call.func.value, aliases=True)[0])
            if PARAM_PAT.match(recv + '.'):
              n_calls += 1
              rep.violation('R1/parameters-read-only', f.qualname, norm(call)[:140],
                            '%s calls %s.%s(), a method of the parameter class that writes its own fields (%s): the caller\'s TBRMMDesignParameters object is changed by a search or query'
                            % (f.name, recv, call.func.attr, writers[call.func.attr]), f.loc(call))


def r2_queries(repo, rep):
  cls = repo.cls(MM)
  n_q = 0
  for f in cls.all_functions():
    if f.name in SEARCHES or f.name == '__init__' or repo.inlined_away(f):
      continue
    n_q += 1
    funcs = [f] + list(f.nested.values())
    for ff in funcs:
      g, rd, effs = function_effects(ff)
      for e, recv, c in effs:
        if c != 'self':
          continue
        allowed = (f.name == 'geo_assignments' and e.kind == 'attr-store' and recv == 'self.data' and e.attr == 'geo_index')
        rep.check(allowed, 'R2/query-purity', '%s: only the index install writes self-reachable state' % f.name, ff.qualname, norm(e.stmt)[:140],
                  'query %s writes self-reachable state (%s): later answers depend on which calls came before' % (f.name, norm(e.stmt)[:100]), ff.loc(e.stmt))
  rep.floor('query methods/properties of TBRMatchedMarkets', n_q, 12)
  # the install happens on every path of geo_assignments
  ga = cls.getters.get('geo_assignments')
  if ga is None:
    raise Undecided('geo_assignments property vanished')
  g = cfgmod.CFG(ga.node)
  rd = dataflow.Reaching(g)
  installs = [n for n in g.nodes if n.kind == 'stmt' and isinstance(n.ast, ast.Assign) and any(norm(t) == 'self.data.geo_index' for t in n.ast.targets)]
  if not installs:
    rep.violation('R2/index-install', ga.qualname, 'no install of self.data.geo_index',
                  'geo_assignments does not install the geo index of this object on the shared data object before returning index-based assignments', ga.loc())
  else:
    p = g.path_avoiding(g.entry, lambda n: n is g.exit, lambda n: n in installs, cfgmod.no_exc)
    rep.check(p is None, 'R2/index-install', 'every access of geo_assignments re-installs the geo index', ga.qualname,
              'conditional install: ' + norm(installs[0].ast), 'geo_assignments can return without re-installing its geo index (path %s): index sets then refer to whatever index another call left on the data object'
              % ' -> '.join('L%d' % n.lineno for n, _ in (p or []) if n.lineno), ga.loc(installs[0].ast))
    # right-hand side derives only from construction-time state
    for inst in installs:
      txt = norm(rd.expand(inst, inst.ast.value)[0])
      reads = set(re.findall(r'self\.(\w+(?:\.\w+)?)', txt))
      okreads = {'geos_within_constraints', 'geo_req_impact', 'geo_req_impact.index', 'geo_req_impact.sort_values'}
      rep.check(reads <= okreads, 'R2/index-install', 'installed index derives from construction-time state only', ga.qualname, txt[:140],
                'the installed geo index reads %s, which is not fixed at construction' % sorted(reads - okreads), ga.loc(inst.ast))
    rets = [n for n in g.nodes if n.kind == 'return' and n.ast.value is not None]
    for r in rets:
      rep.check(norm(r.ast.value) == 'self.data.geo_assignments', 'R2/index-install', 'the assignments returned are those just installed', ga.qualname,
                norm(r.ast), 'geo_assignments returns %s instead of the assignments installed by this access (a cached or stale object)' % norm(r.ast.value), ga.loc(r.ast))
  # the data object: writers are __init__ and the geo_index setter only
  dcls = repo.cls('tbrmmdata.TBRMMData')
  for f in dcls.all_functions():
    if repo.inlined_away(f):
      continue          # a helper of the constructor / setter: its writes are examined where they were inlined
    g2, rd2, effs = function_effects(f)
    for e, recv, c in effs:
      if c != 'self':
        continue
      allowed = f.name == '__init__' or (f.kind == 'setter' and f.name == 'geo_index')
      rep.check(allowed, 'R2/query-purity', 'TBRMMData.%s writes no state' % f.name, f.qualname, norm(e.stmt)[:120],
                'TBRMMData.%s (used by the queries) writes object state: %s' % (f.name, norm(e.stmt)[:100]), f.loc(e.stmt))
  st = dcls.setters.get('geo_index')
  if st is None:
    raise Undecided('geo_index setter vanished')
  g3, rd3, effs3 = function_effects(st)
  fixed = {'df', 'geo_share', 'geo_eligibility', 'assignable', 'geos_in_data'}
  # any further field that only the constructor stores (a row-number table, a pre-built matrix) is construction-time state too
  stored_by = {}
  for m_ in dcls.all_functions():
    sn_ = m_.params[0] if m_.params else None
    for e_ in effects.effects_of(m_.node):
      if e_.kind in ('attr-store', 'delete') and isinstance(e_.target, ast.Attribute) and norm(e_.target.value) == sn_:
        stored_by.setdefault(e_.target.attr, set()).add(m_.qualname)
  fixed = fixed | {a_ for a_, who_ in stored_by.items() if who_ == {dcls.methods['__init__'].qualname}} if '__init__' in dcls.methods else fixed
  written = set()
  for e, recv, c in effs3:
    if c == 'self' and e.kind == 'attr-store' and e.value is not None:
      written.add(e.attr)
      txt = norm(rd3.expand(e.node, e.value, keep=tuple(st.params))[0])
      reads = set(re.findall(r'self\.(\w+)', txt))
      rep.check(reads <= fixed, 'R2/index-install', 'setter field %s depends only on its argument and construction-time state' % e.attr,
                st.qualname, norm(e.stmt)[:140], 'geo_index setter computes %s from %s, which the setter itself (or a query) changes: the install is not idempotent'
                % (e.attr, sorted(reads - fixed)), st.loc(e.stmt))
  rep.check(not (written & fixed), 'R2/index-install', 'the setter does not overwrite construction-time state', st.qualname,
            'writes ' + ', '.join(sorted(written & fixed)), 'geo_index setter overwrites %s' % sorted(written & fixed), st.loc())
  # TBRMatchedMarkets.__init__: the only write to the data object is the window narrowing of data.df
  init = cls.methods['__init__']
  g4, rd4, effs4 = function_effects(init)
  for e, recv, c in effs4:
    if c.startswith('param:'):
      val_ = rd4.expand(e.node, e.value, keep=tuple(init.params))[0] if e.value is not None and getattr(e, 'node', None) is not None else e.value
      ok = e.kind == 'attr-store' and recv == 'data' and e.attr == 'df' and ('.iloc[' in norm(e.value or ast.Constant(0)) or '.iloc[' in norm(val_ or ast.Constant(0)))
      rep.check(ok, 'R5/inputs', 'constructor only narrows data.df to the analysis window', init.qualname, norm(e.stmt)[:120],
                'TBRMatchedMarkets.__init__ modifies its argument: %s' % norm(e.stmt)[:100], init.loc(e.stmt))


def r3_r4_results(repo, rep):
  cls = repo.cls(MM)
  # R4: each search allocates its heap and installs it once
  for name in SEARCHES:
    f = cls.methods.get(name)
    if f is None:
      raise Undecided('%s vanished' % name)
    g, rd, effs = function_effects(f)
    allocs = [n for n in g.nodes if n.kind == 'stmt' and isinstance(n.ast, ast.Assign) and isinstance(n.ast.value, ast.Call)
              and norm(n.ast.value.func).endswith('HeapDict')]
    inst = [(e, recv) for e, recv, c in effs if c == 'self' and e.kind == 'attr-store' and recv == 'self' and e.attr == '_search_results']
    other = [(e, recv) for e, recv, c in effs if c == 'self' and not (e.kind == 'attr-store' and recv == 'self' and e.attr == '_search_results')]
    # a field that is bound only for the duration of the search: stored inside a `try` whose `finally` removes it again
    # (vars(self).pop(name, None), del self.name, self.name = None) leaves no state behind
    scoped = set()
    for tr in [x for x in walk_no_nested(f.node) if isinstance(x, ast.Try) and x.finalbody]:
      for fs in tr.finalbody:
        for sub in ast.walk(fs):
          if isinstance(sub, ast.Call) and isinstance(sub.func, ast.Attribute) and sub.func.attr == 'pop' and sub.args and isinstance(sub.args[0], ast.Constant) \
              and norm(sub.func.value) in ('vars(self)', 'self.__dict__'):
            scoped.add(sub.args[0].value)
          if isinstance(sub, ast.Delete):
            scoped |= {t_.attr for t_ in sub.targets if isinstance(t_, ast.Attribute) and norm(t_.value) == 'self'}
          if isinstance(sub, ast.Assign) and au.is_const(sub.value, None):
            scoped |= {t_.attr for t_ in sub.targets if isinstance(t_, ast.Attribute) and norm(t_.value) == 'self'}
          if isinstance(sub, ast.Call) and isinstance(sub.func, ast.Name) and sub.func.id == 'delattr' and len(sub.args) == 2 and norm(sub.args[0]) == 'self' \
              and isinstance(sub.args[1], ast.Constant):
            scoped.add(sub.args[1].value)
    def _in_try_with_reset(st_, attr_):
      cur_ = getattr(st_, '_parent', None)
      while cur_ is not None and cur_ is not f.node:
        if isinstance(cur_, ast.Try) and cur_.finalbody and attr_ in scoped:
          return True
        cur_ = getattr(cur_, '_parent', None)
      # stored immediately before the try (the usual `self.x = v; try: ... finally: reset`)
      body_ = getattr(getattr(st_, '_parent', None), 'body', None) or []
      if st_ in body_:
        i_ = body_.index(st_)
        return attr_ in scoped and any(isinstance(n_, ast.Try) and n_.finalbody for n_ in body_[i_ + 1:i_ + 3])
      return False
    for e, recv in other:
      if e.kind == 'attr-store' and recv == 'self' and e.attr in scoped and (_in_try_with_reset(e.stmt, e.attr) or
                                                                             _in_try_with_reset(getattr(e.stmt, '_parent', e.stmt), e.attr)):
        rep.ok('R4/fresh-heap', '%s: field %s is bound only for the duration of the search (removed again in a finally block)' % (name, e.attr), loc=f.loc(e.stmt))
        continue
      rep.violation('R4/fresh-heap', f.qualname, norm(e.stmt)[:140],
                    '%s writes self-reachable state other than its result heap: %s' % (name, norm(e.stmt)[:100]), f.loc(e.stmt))
    good = len(allocs) == 1 and len(inst) == 1
    if good:
      v = inst[0][0].value
      d = rd.single_def(inst[0][0].node, v.id) if isinstance(v, ast.Name) else None
      good = d is not None and d.node is allocs[0]
    if not good and not allocs:
      rep.absent(f, 'R4/fresh-heap', f.qualname, '%d HeapDict allocation(s), %d store(s) to self._search_results' % (len(allocs), len(inst)),
                 '%s does not work on a heap of its own (allocations: %d, installs: %d): results of earlier searches on the same object leak into later ones'
                 % (name, len(allocs), len(inst)), f.loc(), subject='%s allocates a heap and installs it once as _search_results' % name)
    else:
      rep.check(good, 'R4/fresh-heap', '%s allocates a heap and installs it once as _search_results' % name, f.qualname,
                '%d HeapDict allocation(s), %d store(s) to self._search_results' % (len(allocs), len(inst)),
                '%s does not work on a heap of its own (allocations: %d, installs: %d): results of earlier searches on the same object leak into later ones'
                % (name, len(allocs), len(inst)), f.loc())
    for n in g.nodes:
      for ex in ([n.ast] if n.kind == 'stmt' else []):
        for call in au.calls_in(ex):
          if isinstance(call.func, ast.Attribute) and call.func.attr == 'push':
            recv = norm(rd.expand(n, call.func.value)[0])
            rep.check(not recv.startswith('self'), 'R4/fresh-heap', '%s pushes into its local heap' % name, f.qualname, norm(call)[:100],
                      '%s pushes designs into %s, an object that outlives the search' % (name, recv), f.loc(call))
  for f in cls.all_functions():
    if f.name in SEARCHES:
      continue
    for sub in walk_no_nested(f.node):
      if isinstance(sub, ast.Assign) and any(norm(t) == 'self._search_results' for t in sub.targets):
        rep.violation('R4/fresh-heap', f.qualname, norm(sub)[:120], '%s installs a result heap outside a search' % f.name, f.loc(sub))
  # R3: retrieval does not modify retained designs
  f = cls.methods.get('search_results')
  if f is None:
    raise Undecided('search_results vanished')
  g, rd, effs = function_effects(f)
  loopvars = {}
  for n in g.nodes:
    if n.kind == 'for':
      it = norm(rd.expand(n, n.ast.iter)[0])
      if 'self._search_results' in it:
        for t in ast.walk(n.ast.target):
          if isinstance(t, ast.Name):
            loopvars[t.id] = it
  n_sites = 0
  for e, recv, c in effs:
    n_sites += 1
    r = effects.root_name(e.target)
    retained = (r in loopvars) or recv.startswith('self._search_results') or 'self._search_results' in recv
    rep.check(not retained, 'R3/retrieval-pure', 'search_results: %s does not touch a retained design' % norm(e.stmt)[:50], f.qualname,
              norm(e.stmt)[:140], 'search_results modifies a design retained in the result heap (%s): a second retrieval sees the modified object'
              % norm(e.stmt)[:100], f.loc(e.stmt), nontrivial=retained)
  rep.floor('write sites in search_results', n_sites, 1)
  if not loopvars:
    rep.undecided('R3/retrieval-pure', 'search_results', 'no loop over the retained results found', f.loc())


def r5_input_frame(repo, rep):
  dcls = repo.cls('tbrmmdata.TBRMMData')
  f = dcls.methods.get('__init__')
  if f is None:
    raise Undecided('TBRMMData.__init__ vanished')
  g, rd, effs = function_effects(f)
  frame = f.params[1]
  n = 0
  for e, recv, c in effs:
    if c == 'param:' + frame:
      n += 1
      rep.violation('R5/inputs', f.qualname, norm(e.stmt)[:140],
                    'TBRMMData.__init__ modifies the caller\'s frame in place (%s) — the copy does not dominate this write' % norm(e.stmt)[:100], f.loc(e.stmt))
  # in-place edits whose receiver is the frame parameter or a fresh copy derived from it (whatever the local is called)
  writes_df = [e for e, recv, c in effs if effects.root_name(e.target) == frame or c == 'param:' + frame
               or (c == 'fresh' and re.search(r'\b%s\.(copy|astype|assign|rename|reset_index)\(' % re.escape(frame), recv))]
  rep.check(n == 0, 'R5/inputs', 'all %d in-place edits of the frame act on a fresh copy' % len(writes_df), f.qualname, 'df writes', '', f.loc())
  rep.floor('in-place edits of the input frame examined', len(writes_df), 1)


def run(repo, rep, tier):
  r1_parameters(repo, rep)
  r2_queries(repo, rep)
  r3_r4_results(repo, rep)
  r5_input_frame(repo, rep)
  # reading the results must neither change the heap nor hand out its internal lists (C14.R3): otherwise a second
  # retrieval differs from the first, and what the caller does with the returned list changes the retained state
  from mmsa.props import c14
  sub = type(rep)(rep.prop, rep.tier, rep.repo)
  selfn_, resultfield_, sizefields_ = c14.check_push(repo, type(rep)(rep.prop, rep.tier, rep.repo))
  c14.check_get_result(repo, sub, selfn_, resultfield_, sizefields_)
  for i in sub.instances:
    if i.rule == 'R3/snapshot':
      i.rule = 'R3/retrieval-snapshot'
      rep.instances.append(i)
  rep.note('observation (not armed): greedy_search draws from the global NumPy RNG for a placeholder series whose score is overwritten with zeros; '
           'TBRMatchedMarkets.__init__ narrows data.df of the shared TBRMMData object to the analysis window (documented constructor behaviour)')
