"""C09 — searches are total: an empty list or ValueError, nothing else.

Decided over the call-graph closure of both searches (and the constructor):
(R1a) every explicit raise is ValueError; (R1b) no .pop()/[0]/[-1] on a possibly
empty list without a dominating emptiness guard; (R1c) every division whose
operands are both Python numbers has a provably non-zero denominator (validated
parameter facts, construction facts, dominating guards, caller facts) —
divisions with a NumPy operand give inf/nan, not an exception; (R1d) local
dictionaries are only read under keys proved present by a key-typestate
analysis of the greedy loop; (R1e) the geo index is re-installed on every access
of geo_assignments (indices never refer to a stale array); (R2) termination:
only finite for-loops in the exhaustive search; in the greedy while-loop the
guard is the disjunction of the two branch conditions, the treatment branch
increments the bounded counter on every path and the matching branch either
clears its flag or rebinds the control group under a strict score improvement.
Not decided: exceptions raised inside NumPy/pandas/SciPy for exotic data
(NaN panels, object dtype); recursion/stack/memory limits.
"""
import ast
import re

from mmsa import au, cfg as cfgmod, dataflow, kinds as kindsmod, pathcond, types as typesmod
from mmsa.core import Undecided, dotted, norm, walk_no_nested
from mmsa.types import FuncCtx

MM = 'tbrmatchedmarkets.TBRMatchedMarkets'
EXPLANATION = (
    'Exception-effect analysis over the resolved call graph of exhaustive_search, greedy_search and the constructor: explicit raise '
    'sites (class resolved), partial-operation obligations (list pop/index, Python-number division decided by an interprocedural '
    'numeric-kind analysis, dictionary subscripts decided by a key typestate with trace partitioning) with enumerated dischargers, '
    'and a structural termination argument for the greedy loop (loop variant).')
RULE_TEXT = ('one obligation per raise site, per partial operation and per loop; non-trivial = partial operations needing a discharger '
             '(guards, validated-parameter facts, caller facts)')

# validated parameter facts (lower bound, strict) — the documented domains, which C17 proves the constructor enforces
PARAM_LB = {
    'n_test': (1, False), 'n_designs': (1, False), 'n_pretest_max': (3, False), 'n_geos_max': (2, False),
    'iroas': (0.0, False), 'volume_ratio_tolerance': (0.0, True), 'geo_ratio_tolerance': (0.0, True),
    'rho_max': (0.9, False), 'min_corr': (0.8, False), 'flevel': (0.9, False), 'sig_level': (0.0, True), 'power_level': (0.0, True),
}
PAIR_LB = {'treatment_geos_range': (1, False), 'control_geos_range': (1, False), 'budget_range': (0.0, False),
           'treatment_share_range': (0.0, True)}


class Bounds:
  """Lower bounds (value, strict) of numeric expressions."""

  def __init__(self, repo, T, closure):
    self.repo, self.T, self.closure = repo, T, closure
    self._busy = set()
    self._sites = None

  def is_params(self, f, e, at):
    c = self.T.type_of(f, e, at)
    return c is not None and c.qualname == 'tbrmmdesignparameters.TBRMMDesignParameters'

  def lb(self, f, e, at=None, depth=24, nonempty=()):
    if depth <= 0 or e is None:
      return None
    ctx = FuncCtx.of(f)
    at = at or ctx.node_at(e)
    ok, v = au.const(e)
    if ok and isinstance(v, (int, float)) and not isinstance(v, bool):
      return (v, False)
    if isinstance(e, ast.Call) and isinstance(e.func, ast.Name):
      fn = e.func.id
      if fn == 'len' and len(e.args) == 1:
        t = norm(e.args[0])
        if t in nonempty:
          return (1, False)
        if re.fullmatch(r'(self\.y|self\._y|y)', t) and f.cls is not None and f.cls.name == 'TBRMMDiagnostics':
          k = self.min_timepoints()
          if k is not None:
            return (k, False)
        if re.fullmatch(r'(self\.x|self\._x)', t) and f.cls is not None and f.cls.name == 'TBRMMDiagnostics' and self.x_same_length():
          k = self.min_timepoints()
          if k is not None:
            return (k, False)
        return (0, False)
      if fn == 'max':
        bs = [self.lb(f, a, at, depth - 1, nonempty) for a in e.args]
        bs = [b for b in bs if b is not None]
        return max(bs, key=lambda b: (b[0], b[1])) if bs else None
      if fn == 'min':
        bs = [self.lb(f, a, at, depth - 1, nonempty) for a in e.args]
        return min(bs, key=lambda b: (b[0], b[1])) if bs and all(b is not None for b in bs) else None
      if fn in ('float', 'int', 'abs') and len(e.args) == 1:
        b = self.lb(f, e.args[0], at, depth - 1, nonempty)
        if fn == 'abs':
          return b if b is not None and b[0] >= 0 else (0, False)
        return b
    if isinstance(e, ast.BinOp):
      l, r = self.lb(f, e.left, at, depth - 1, nonempty), self.lb(f, e.right, at, depth - 1, nonempty)
      if isinstance(e.op, ast.Add) and l is not None and r is not None:
        return (l[0] + r[0], l[1] or r[1])
      if isinstance(e.op, ast.Sub) and l is not None:
        okc, c = au.const(e.right)
        if okc and isinstance(c, (int, float)):
          return (l[0] - c, l[1])
      if isinstance(e.op, ast.Mult) and l is not None and r is not None and l[0] >= 0 and r[0] >= 0:
        return (l[0] * r[0], l[1] and r[1])
      return None
    if isinstance(e, ast.Attribute):
      if self.is_params(f, e.value, at) and e.attr in PARAM_LB:
        return PARAM_LB[e.attr]
      if isinstance(e.value, ast.Name) and f.cls is not None and e.attr in f.cls.attrs and f.cls.attrs[e.attr] is not None \
          and e.attr not in _stored_fields(f.cls):
        return self.lb(f, f.cls.attrs[e.attr], None, depth - 1)
      return None
    if isinstance(e, ast.Subscript):
      v = e.value
      if isinstance(v, ast.Name) and at is not None:
        d = ctx.rd.single_def(at, v.id)
        if d is not None and d.how == 'assign' and d.value is not None:
          v = d.value
          at = d.node
      if isinstance(v, ast.Attribute) and self.is_params(f, v.value, at) and v.attr in PAIR_LB:
        return PAIR_LB[v.attr]
      return None
    if isinstance(e, ast.Name):
      if at is None:
        return None
      gb = guard_lower_bounds(self, f, at).get(e.id)
      if gb is not None:
        return gb
      ds = ctx.rd.defs_at(at, e.id)
      comp = _comprehension_binding(e)
      if comp is not None:
        return self.elem_lb(f, comp.iter, at, depth - 1)
      if not ds:
        return None
      bs = []
      for d in ds:
        key = (f.qualname, d.node.id, e.id)
        if key in self._busy:
          continue      # a loop-carried definition: bounded by the others if it only grows (checked below)
        self._busy.add(key)
        try:
          if d.how == 'assign' and d.value is not None:
            b = self.lb(f, d.value, d.node, depth - 1, nonempty)
          elif d.how == 'iter':
            b = self.elem_lb(f, d.value, d.node, depth - 1)
          elif d.how == 'param':
            b = self.param_lb(f, e.id, depth - 1)
          elif d.how == 'unpack' and d.index is not None and d.value is not None:
            src = _unpack_source(ctx.rd, d)
            b = self.lb(f, src[0], src[1], depth - 1, nonempty) if src is not None else None
          else:
            b = None
        finally:
          self._busy.discard(key)
        bs.append(b)
      if not bs or any(b is None for b in bs):
        return None
      return min(bs, key=lambda b: (b[0], b[1]))
    return None

  def elem_lb(self, f, it, at, depth):
    if isinstance(it, ast.Call):
      fn = it.func
      if isinstance(fn, ast.Name) and fn.id == 'range':
        if len(it.args) == 1:
          return (0, False)
        return self.lb(f, it.args[0], at, depth - 1)
      if isinstance(fn, ast.Name) and fn.id in ('set', 'list', 'sorted', 'tuple', 'reversed') and it.args:
        return self.elem_lb(f, it.args[0], at, depth - 1)
      t = self.T.callee(f, it, at)
      if t and t[0] == 'func':
        g = t[1]
        bs = []
        for s in walk_no_nested(g.node):
          if isinstance(s, ast.Return) and s.value is not None:
            bs.append(self.elem_lb(g, s.value, FuncCtx.of(g).node_at(s), depth - 1))
          if isinstance(s, ast.Yield) and s.value is not None:
            bs.append(self.lb(g, s.value, FuncCtx.of(g).node_at(s), depth - 1))
          if isinstance(s, ast.YieldFrom):
            bs.append(self.elem_lb(g, s.value, FuncCtx.of(g).node_at(s), depth - 1))
        if bs and all(b is not None for b in bs):
          return min(bs, key=lambda b: (b[0], b[1]))
        return None
    if isinstance(it, ast.Name) and at is not None:
      d = FuncCtx.of(f).rd.single_def(at, it.id)
      if d is not None and d.how == 'assign' and d.value is not None:
        return self.elem_lb(f, d.value, d.node, depth - 1)
    return None

  def call_sites(self):
    if self._sites is None:
      self._sites = {}
      funcs = dict(self.closure)
      for c in (self.repo.cls(MM),):
        for g in c.all_functions():
          funcs.setdefault(g.qualname, g)
      for g in funcs.values():
        for callee, site, n in self.T.callees_of(g):
          if isinstance(site, ast.Call):
            self._sites.setdefault(callee.qualname, []).append((g, site, n))
    return self._sites

  def param_lb(self, f, name, depth):
    sites = self.call_sites().get(f.qualname, [])
    if not sites or depth <= 0:
      return None
    if name not in f.params:
      return None           # *args / **kwargs: no single argument position
    idx = f.params.index(name)
    off = 1 if f.kind in ('method', 'getter', 'setter') else 0
    bs = []
    for g, call, n in sites:
      a = None
      if len(call.args) > idx - off >= 0:
        a = call.args[idx - off]
      else:
        a = au.kwarg(call, name)
      if a is None:
        return None
      # non-emptiness guards dominating the call site
      ne = nonempty_facts(g, n)
      bs.append(self.lb(g, a, n, depth - 1, ne))
    if any(b is None for b in bs):
      return None
    return min(bs, key=lambda b: (b[0], b[1]))

  def x_same_length(self):
    """The x setter stores a non-None series only after rejecting len(x) != len(self._y)."""
    cls = self.repo.cls('tbrmmdiagnostics.TBRMMDiagnostics')
    st = cls.setters.get('x')
    if st is None:
      return False
    ctx = FuncCtx.of(st)
    for n in ctx.g.nodes:
      txt = norm(ctx.rd.expand(n, n.expr, keep=('x',))[0]) if n.kind == 'test' else ''
      if n.kind == 'test' and txt in ('len(x) != len(self._y)', 'len(self._y) != len(x)', 'len(x) != len(self.y)', 'len(self.y) != len(x)'):
        tb = [m for m, lab in ctx.g.succ[n] if lab == 'true']
        if tb and ctx.g.exit not in ctx.g.reachable(tb[0], cfgmod.no_exc):
          return True
    return False

  def min_timepoints(self):
    """len(y) >= _min_timepoints is enforced by the y setter (guard dominates the store)."""
    cls = self.repo.cls('tbrmmdiagnostics.TBRMMDiagnostics')
    st = cls.setters.get('y')
    if st is None:
      return None
    ctx = FuncCtx.of(st)
    stores = [n for n in ctx.g.nodes if n.kind == 'stmt' and isinstance(n.ast, ast.Assign) and any(norm(t) == 'self._y' for t in n.ast.targets)]
    if len(stores) != 1:
      return None
    val = norm(stores[0].ast.value)
    ok, v = au.const(cls.attrs.get('_min_timepoints'))
    if not (ok and isinstance(v, int)):
      return None
    # (the class constant is substituted by its value when the program is specialised to its default configuration)
    wanted = {'len(%s) >= self._min_timepoints' % val, 'len(%s) >= %d' % (val, v)}
    for p in pathcond.paths_to(ctx.g, lambda n: n is stores[0], back_limit=0):
      pf = pathcond.PathFacts(p, None)
      if not pf.feasible:
        continue
      if not pf.every_case_has(lambda e, t: bool(wanted & pathcond.rel_forms(e, t))):
        return None
    return v


def _unpack_source(rd, d, hops=5):
  """(element expression, CFG node where it is evaluated) for the target of `a, b = seq` when seq is, through plain local
  aliases, a tuple/list display or a positional construction of a namedtuple of the module; None otherwise.  A definition
  `seq = None` is not a source: unpacking it does not succeed."""
  v, at = d.value, d.node
  for _ in range(hops):
    if isinstance(v, (ast.Tuple, ast.List)) and not any(isinstance(x, ast.Starred) for x in v.elts) and -len(v.elts) <= d.index < len(v.elts):
      return v.elts[d.index], at
    if isinstance(v, ast.Call) and norm(v.func).split('.')[-1] in getattr(rd, 'ntuples', ()) and not v.keywords \
        and not any(isinstance(x, ast.Starred) for x in v.args) and -len(v.args) <= d.index < len(v.args):
      return v.args[d.index], at
    if isinstance(v, ast.Name):
      live = [x for x in rd.defs_at(at, v.id) if not (x.how == 'assign' and isinstance(x.value, ast.Constant) and x.value.value is None)]
      if len(live) == 1 and live[0].how == 'assign' and live[0].value is not None:
        v, at = live[0].value, live[0].node
        continue
    return None
  return None


def _comprehension_binding(name_node):
  """The comprehension clause binding this occurrence of a name (innermost), or None."""
  cur, par = name_node, getattr(name_node, '_parent', None)
  while par is not None and not isinstance(par, ast.stmt):
    if isinstance(par, (ast.ListComp, ast.SetComp, ast.GeneratorExp, ast.DictComp)):
      for gen in par.generators:
        if cur is not gen and any(isinstance(x, ast.Name) and x.id == name_node.id for x in ast.walk(gen.target)) \
            and isinstance(gen.target, ast.Name):
          return gen
    cur, par = par, getattr(par, '_parent', None)
  return None


def _stored_fields(cls):
  out = set()
  for g in cls.all_functions():
    sn = g.params[0] if g.params else None
    for s in walk_no_nested(g.node):
      if isinstance(s, (ast.Assign, ast.AugAssign)):
        for t in (s.targets if isinstance(s, ast.Assign) else [s.target]):
          if isinstance(t, ast.Attribute) and isinstance(t.value, ast.Name) and t.value.id == sn:
            out.add(t.attr)
  return out


def nonempty_facts(f, node):
  """Expression texts S proved non-empty at `node`: some dominating test on S has
  only its "non-empty" branch leading to `node`, and S is not redefined in between."""
  ctx = FuncCtx.of(f)
  g, rd = ctx.g, ctx.rd
  key = ('ne', id(node))
  cache = ctx.__dict__.setdefault('_ne_cache', {})
  if key in cache:
    return cache[key]
  doms = ctx.__dict__.get('_doms')
  if doms is None:
    doms = ctx.__dict__['_doms'] = g.dominators(cfgmod.no_exc)
  out = set()
  for t in doms.get(node, ()):
    if t.kind != 'test' or t is node:
      continue
    reach = {}
    for m, lab in g.succ[t]:
      if lab in ('true', 'false'):
        r = g.reachable(m, lambda a, b, l: l != 'exc' and b is not t and a is not t)
        reach[lab] = node in r or m is node
    if sum(1 for v in reach.values() if v) != 1:
      continue
    branch = [k for k, v in reach.items() if v][0]
    dnf = pathcond.literals(t.expr, branch == 'true')
    if len(dnf) != 1:
      continue
    for e, tr in dnf[0]:
      cand = None
      if tr and isinstance(e, (ast.Name, ast.Attribute, ast.Subscript)):
        cand = e
      elif (not tr) and isinstance(e, ast.UnaryOp) and isinstance(e.op, ast.Not):
        cand = e.operand
      else:
        m = re.fullmatch(r'len\((.+)\) (>|!=) 0', norm(e)) if tr else re.fullmatch(r'len\((.+)\) == 0', norm(e))
        if m and isinstance(e, ast.Compare) and isinstance(e.left, ast.Call) and e.left.args:
          cand = e.left.args[0]
      if cand is None:
        continue
      same = all(rd.defs_at(t, nm) == rd.defs_at(node, nm) for nm in dataflow.names_loaded(cand))
      if same:
        out.add(norm(cand))
      # monotone flag: `ok = bool(A) and bool(B)` once, every later `ok = ...` only under `if ok and ...`: ok true here
      # implies it was true at its first definition, hence A and B non-empty
      if tr and isinstance(e, ast.Name):
        out |= _monotone_flag_facts(f, g, rd, doms, e.id, t)
  cache[key] = out
  return out


def _monotone_flag_facts(f, g, rd, doms, flag, at):
  defs = [n for n in g.nodes if n.kind == 'stmt' and isinstance(n.ast, ast.Assign) and len(n.ast.targets) == 1
          and isinstance(n.ast.targets[0], ast.Name) and n.ast.targets[0].id == flag]
  other_defs = [n for n in g.nodes if any(d.name == flag for d in rd.gen.get(n, ())) and n not in defs]
  if not defs or other_defs:
    return set()
  first = [n for n in defs if not any(m is not n and m in doms.get(n, ()) for m in defs)]
  if len(first) != 1 or first[0] not in doms.get(at, ()):
    return set()
  init = first[0]
  for n in defs:
    if n is init:
      continue
    guarded = False
    for ex, taken, tn in cfgmod.dominating_conditions(g, n, doms):
      dnf = pathcond.literals(ex, taken)
      if len(dnf) == 1 and any(tv and isinstance(a, ast.Name) and a.id == flag for a, tv in dnf[0]):
        guarded = True
    if not guarded:
      return set()
  out = set()
  dnf = pathcond.literals(init.ast.value, True)
  if len(dnf) != 1:
    return set()
  for a, tv in dnf[0]:
    if not tv:
      continue
    if isinstance(a, ast.Call) and isinstance(a.func, ast.Name) and a.func.id == 'bool' and len(a.args) == 1:
      a = a.args[0]
    if isinstance(a, (ast.Name, ast.Attribute)):
      # the operands must not be rebound between the flag's definition and the use
      if all(rd.defs_at(init, nm) == rd.defs_at(at, nm) for nm in dataflow.names_loaded(a)):
        out.add(norm(a))
  return out


def guard_lower_bounds(B, f, node):
  """name -> (bound, strict) established by dominating comparisons whose other branch cannot reach `node`."""
  ctx = FuncCtx.of(f)
  g, rd = ctx.g, ctx.rd
  cache = ctx.__dict__.setdefault('_glb_cache', {})
  if id(node) in cache:
    return cache[id(node)]
  cache[id(node)] = {}
  doms = ctx.__dict__.get('_doms')
  if doms is None:
    doms = ctx.__dict__['_doms'] = g.dominators(cfgmod.no_exc)
  out = {}
  for t in doms.get(node, ()):
    if t.kind != 'test' or t is node:
      continue
    reach = {}
    for m, lab in g.succ[t]:
      if lab in ('true', 'false'):
        r = g.reachable(m, lambda a, b, l: l != 'exc' and b is not t and a is not t)
        reach[lab] = node in r or m is node
    if sum(1 for v in reach.values() if v) != 1:
      continue
    branch = [k for k, v in reach.items() if v][0]
    dnf = pathcond.literals(t.expr, branch == 'true')
    if len(dnf) != 1:
      continue
    for e, tr in dnf[0]:
      if not (isinstance(e, ast.Compare) and len(e.ops) == 1 and isinstance(e.left, ast.Name)):
        continue
      nm = e.left.id
      if rd.defs_at(t, nm) != rd.defs_at(node, nm):
        continue
      op = type(e.ops[0])
      bnd = B.lb(f, e.comparators[0], t, 4)
      if bnd is None:
        continue
      if (op is ast.Lt and not tr) or (op is ast.GtE and tr):
        out[nm] = (bnd[0], False)
      elif (op is ast.LtE and not tr) or (op is ast.Gt and tr):
        out[nm] = (bnd[0], True)
  cache[id(node)] = out
  return out


def positive(b):
  return b is not None and (b[0] > 0 or (b[0] == 0 and b[1]))


def r1_raises(rep, closure):
  n = 0
  for q, f in sorted(closure.items()):
    for s in walk_no_nested(f.node):
      if isinstance(s, ast.Raise):
        n += 1
        exn = au.raised_class(R1_REPO[0], f, s)
        if exn == 'AssertionError':
          # `raise AssertionError(..)` states that the place cannot be reached (the default arm of a dispatch over an
          # enumeration, an `else` after exhaustive cases): whether it can is a fact about values, not decided here
          rep.undecided('R1a/raise-sites', '%s raises ValueError' % f.name, '`%s` states that this point is never reached; whether that holds is not decided' % norm(s)[:60], f.loc(s))
          continue
        if exn is None:
          rep.check3(None, 'R1a/raise-sites', '%s raises ValueError' % f.name, f.qualname, norm(s)[:100], '', f.loc(s),
                     why_open='the raised object `%s` is not followed to the construction of an exception' % norm(s.exc)[:60])
          continue
        rep.check(exn in ('ValueError', 're-raise'), 'R1a/raise-sites', '%s raises ValueError' % f.name, f.qualname, norm(s)[:100],
                  '%s, reachable from the searches, raises %s: an exception other than ValueError escapes' % (f.qualname, exn), f.loc(s))
  rep.floor('explicit raise sites reachable from the searches', n, 12)


R1_REPO = [None]


def r1_lists(rep, closure, T):
  n = 0
  for q, f in sorted(closure.items()):
    ctx = FuncCtx.of(f)
    for node in ctx.g.nodes:
      for e in ctx.node_exprs(node):
        for sub in walk_no_nested(e):
          target = None
          what = None
          if isinstance(sub, ast.Call) and isinstance(sub.func, ast.Attribute) and sub.func.attr == 'pop' and not sub.args:
            target, what = sub.func.value, '.pop()'
          elif isinstance(sub, ast.Subscript) and isinstance(sub.ctx, ast.Load):
            okc, c = au.const(sub.slice)
            if okc and c in (0, -1) and isinstance(c, int):
              target, what = sub.value, '[%d]' % c
          if target is None:
            continue
          exp = ctx.rd.expand(node, target)[0]
          # only containers that may be empty: list(<iterable>), sorted(...), comprehension results, [] literals grown in loops
          is_listy = _maybe_empty_sequence(T, f, node, exp)
          if not is_listy:
            continue
          n += 1
          # dischargers: IfExp test / dominating truthiness guard on the same container
          ok = False
          par = getattr(sub, '_parent', None)
          while par is not None and not isinstance(par, ast.stmt):
            if isinstance(par, ast.IfExp) and norm(par.test) == norm(target) and _contains(par.body, sub):
              ok = True
            par = getattr(par, '_parent', None)
          if not ok:
            ok = norm(target) in nonempty_facts(f, node)
          if not ok and isinstance(exp, ast.List) and exp.elts:
            ok = True
          rep.check(ok, 'R1b/empty-container', '%s on %s is guarded' % (what, norm(target)[:40]), f.qualname, norm(sub)[:120],
                    '%s%s is evaluated on a list that can be empty (%s) with no dominating emptiness guard: IndexError escapes'
                    % (norm(target)[:60], what, norm(exp)[:80]), f.loc(sub))
  rep.extra['list_pop_index_sites'] = n


def _maybe_empty_sequence(T, f, node, exp):
  """Sequences whose emptiness depends on the input: list literals grown elsewhere, filtered comprehensions,
  and list/sorted/tuple of a range, of a repo function returning a range / generator, or of a set."""
  if isinstance(exp, ast.List):
    return True
  if isinstance(exp, ast.ListComp):
    return True
  if isinstance(exp, ast.Call) and isinstance(exp.func, ast.Name) and exp.func.id in ('list', 'sorted', 'tuple') and len(exp.args) == 1:
    a = exp.args[0]
    if isinstance(a, (ast.ListComp, ast.GeneratorExp, ast.SetComp, ast.Set)):
      return True
    if isinstance(a, ast.Call):
      if isinstance(a.func, ast.Name) and a.func.id in ('range', 'set', 'filter', 'sorted', 'list'):
        return True
      t = T.callee(f, a, node)
      if t and t[0] == 'func':
        g = t[1]
        txt = norm(g.node)
        return 'yield' in txt or 'range(' in txt or 'return [' in txt or 'return set' in txt
      return False
    if isinstance(a, ast.BinOp) and isinstance(a.op, (ast.BitAnd, ast.BitOr, ast.Sub, ast.BitXor)):
      return True
    return False
  return False


def _contains(root, node):
  return any(x is node for x in ast.walk(root))


def _den_bases(den):
  """(collections S with den built from len(S), other quantities q the denominator reads: maximal name/attribute/subscript chains)"""
  colls, names = [], []
  skip = set()
  for x in ast.walk(den):
    if isinstance(x, ast.Call) and isinstance(x.func, ast.Name) and x.func.id == 'len' and len(x.args) == 1:
      colls.append(norm(x.args[0]))
      skip |= {id(y) for y in ast.walk(x)}

  def visit(x):
    if id(x) in skip:
      return
    if isinstance(x, (ast.Attribute, ast.Subscript, ast.Name)):
      root = x
      while isinstance(root, (ast.Attribute, ast.Subscript)):
        root = root.value
      if isinstance(root, ast.Name):
        if not (isinstance(x, ast.Name) and x.id in ('len', 'float', 'int', 'abs', 'max', 'min', 'np', 'math')):
          names.append(norm(x))
        return
    if isinstance(x, ast.Call):
      for a_ in list(x.args) + [k.value for k in x.keywords]:
        visit(a_)
      if isinstance(x.func, ast.Attribute):
        names.append(norm(x))          # a method result: the call text itself is the quantity
      return
    for ch in ast.iter_child_nodes(x):
      visit(ch)
  visit(den)
  return colls, names


def _implicit_conditions(root, sub):
  """Tests that must have held for `sub` to be evaluated inside the expression `root`: the earlier operands of enclosing
  and/or chains and the tests of enclosing conditional expressions -> list of (expr, truth)."""
  out = []

  def walk(e):
    if e is sub:
      return True
    if isinstance(e, ast.BoolOp):
      for i, v in enumerate(e.values):
        if walk(v):
          for prev in e.values[:i]:
            out.append((prev, isinstance(e.op, ast.And)))
          return True
      return False
    if isinstance(e, ast.IfExp):
      if walk(e.body):
        out.append((e.test, True))
        return True
      if walk(e.orelse):
        out.append((e.test, False))
        return True
      return walk(e.test)
    if isinstance(e, (ast.Lambda, ast.FunctionDef)):
      return False
    return any(walk(ch) for ch in ast.iter_child_nodes(e))
  walk(root)
  return out


def _emptiness_info(e, S, classify):
  """What the truth / falsity of test `e` says about the collection S: (when true, when false), each 'nonempty', 'empty'
  or 'any'; None when the test is not understood.  Besides direct tests of S: S - X or S & X being non-empty implies S is
  non-empty (their emptiness says nothing), S | X being empty implies S is empty."""
  from mmsa import abspaths
  c = classify(e)
  if c is not None and c[0] == 'S:empty':
    return ('empty', 'nonempty') if c[1] else ('nonempty', 'empty')
  inner, neg = e, False
  lc = abspaths._len_cmp(e)
  if lc is not None:
    inner, neg = lc[0], lc[1]          # the comparison holds exactly when `inner` is empty (neg) / non-empty
  elif isinstance(e, ast.Call) and isinstance(e.func, ast.Name) and e.func.id in ('len', 'bool') and len(e.args) == 1:
    inner = e.args[0]
  while isinstance(inner, ast.Call) and isinstance(inner.func, ast.Name) and inner.func.id in ('set', 'list', 'sorted', 'tuple', 'frozenset') and len(inner.args) == 1:
    inner = inner.args[0]
  res = None
  if isinstance(inner, ast.BinOp):
    l, r = norm(inner.left), norm(inner.right)
    if isinstance(inner.op, ast.Sub) and l == S:
      res = ('nonempty', 'any')
    elif isinstance(inner.op, ast.BitAnd) and S in (l, r):
      res = ('nonempty', 'any')
    elif isinstance(inner.op, ast.BitOr) and S in (l, r):
      res = ('any', 'empty')
  elif isinstance(inner, ast.Call) and isinstance(inner.func, ast.Attribute) and norm(inner.func.value) == S and inner.func.attr in ('difference', 'intersection'):
    res = ('nonempty', 'any')
  if res is None:
    return None
  return (res[1], res[0]) if neg else res


def _empty_reaches(B, f, node, S, implicit=(), depth=3, chain=()):
  """Can the collection S (text) be empty when control reaches `node` of f?  ('violation'|'undecided'|'safe', why).
  Paths entry -> node are evaluated over the fact "S is empty" (abspaths.SetFacts); when S is a parameter of a private
  function the question is asked again at every call site for the actual argument."""
  from mmsa import abspaths
  ctx = FuncCtx.of(f)
  g, rd = ctx.g, ctx.rd
  classify = abspaths.SetFacts({S: 'S'})
  rel = lambda e: re.search(r'(?<![\w.])%s(?!\w)' % re.escape(S), norm(e)) is not None
  try:
    paths = list(g.enumerate_paths(g.entry, lambda n_: n_ is node, cfgmod.no_exc, max_paths=3000, back_limit=0))
  except Undecided as ex_:
    return 'undecided', str(ex_)
  status, wit = 'rejected', ''
  extra = [(rd.expand(node, ie)[0], it) for ie, it in implicit]
  n_feasible = 0
  for path in paths:
    pf = pathcond.PathFacts(path, rd)
    if not pf.feasible:
      continue
    n_feasible += 1
    for conj in pf.dnf:
      lits = list(conj)
      for iex, it in extra:
        alts = pathcond.literals(iex, it)
        lits = lits + (alts[0] if len(alts) == 1 else [(iex, it)])
      unknown, clash = [], False
      for e, t in lits:
        if not rel(e):
          continue
        info = _emptiness_info(e, S, classify)
        if info is None:
          unknown.append(norm(e)[:50])
        elif info[0 if t else 1] == 'nonempty':      # the literal asserts "S is not empty"
          clash = True
          break
      if clash:
        continue
      if unknown:
        if status == 'rejected':
          status, wit = 'unknown', unknown[0]
      else:
        status, wit = 'accepted', pf.text()[:120] or 'no test of %s is passed' % S
        break
    if status == 'accepted':
      break
  here = '%s%s' % (f.name, (' <- ' + ' <- '.join(chain)) if chain else '')
  if status == 'rejected':
    if not n_feasible:
      return 'undecided', 'no feasible path to the division was found in %s' % f.name
    return 'safe', 'every one of the %d feasible paths to it in %s passes a test that excludes an empty %s' % (n_feasible, here, S)
  if status == 'unknown':
    return 'undecided', 'the test `%s` on %s in %s is not understood' % (wit, S, f.name)
  root = S.split('.')[0].split('[')[0]
  # the collection is handed to repository code that is not followed before the division: a rejection of the empty
  # collection may live there
  dl_ = [(c_, w_) for c_, w_ in au.delegations(R1_REPO[0], f)
         if any(norm(a_) == S or any(isinstance(x_, ast.Name) and x_.id == root for x_ in ast.walk(a_)) for a_ in list(c_.args) + [k_.value for k_ in c_.keywords])] if R1_REPO[0] is not None else []
  if dl_:
    return 'undecided', '%s is handed to %s before the division: whether an empty one is rejected there is not followed' % (S, dl_[0][1])
  if S in f.params:
    if not f.name.startswith('_') or f.name.startswith('__'):
      return 'violation', 'an empty %s passed to the public %s reaches the division (%s)' % (S, here, wit)
    sites = B.call_sites().get(f.qualname, [])
    if not sites or depth <= 0:
      return 'undecided', 'the non-emptiness of the parameter %s of %s depends on its callers' % (S, f.name)
    idx = f.params.index(S)
    off = 1 if f.kind in ('method', 'getter', 'setter') else 0
    worst = ('safe', 'every call site of %s passes a collection that no path leaves empty there' % f.name)
    for gfun, call, n in sites:
      a = call.args[idx - off] if len(call.args) > idx - off >= 0 else au.kwarg(call, S)
      if a is None:
        return 'undecided', 'call site of %s without a visible argument for %s' % (f.name, S)
      a = FuncCtx.of(gfun).rd.expand(n, a)[0]
      v, why = _empty_reaches(B, gfun, n, norm(a), (), depth - 1, chain + (f.name,))
      if v == 'violation':
        return v, why
      if v == 'undecided':
        worst = (v, why)
    return worst
  if root == 'self' or root in f.params:
    return 'undecided', '%s is a field/component whose non-emptiness rests on an invariant that is not established here' % S
  # a local collection: how it is built is not modelled, but no test protects the division
  tested_here = any(t.kind == 'test' and any(rel(e) and classify(e) is not None for conj in pathcond.literals(rd.expand(t, t.expr)[0], True) for e, _t in conj) for t in g.nodes)
  if tested_here or implicit:
    return 'violation', 'an empty %s reaches the division in %s on the path where %s' % (S, here, wit)
  return 'undecided', 'the local collection %s is never tested in %s; whether it can be empty depends on how it is built' % (S, f.name)


def _unguarded_division(B, f, ctx, node, sub):
  """A division whose denominator is not provably positive.
  * denominator len(S) (directly, through one local, or through a parameter whose actual argument is a length): the
    paths to the division are evaluated over the abstract fact "S is empty" (_empty_reaches) -- a witness path is a
    VIOLATION, tests on S that are not understood give UNDECIDED;
  * other denominators: VIOLATION only when nothing in the function ever tests the quantity and it is neither a
    parameter with call sites nor a stored field (whose bounds live elsewhere); otherwise UNDECIDED."""
  g, rd = ctx.g, ctx.rd
  den = sub.right
  colls, names = _den_bases(den)
  opaque_origin = []
  for nm in list(names):
    if re.fullmatch(r'\w+', nm):
      for d in rd.defs_at(node, nm):
        src_ = None
        if d.how == 'assign' and d.value is not None:
          src_ = d.value
        elif d.how == 'unpack' and d.index is not None and d.value is not None:
          us_ = _unpack_source(rd, d)
          src_ = us_[0] if us_ is not None else None
        if src_ is not None:
          c2, n2 = _den_bases(src_)
          colls += [c for c in c2 if c not in colls]
          names += [x for x in n2 if x not in names]
        elif d.how != 'param':
          opaque_origin.append(nm)      # a loop variable, an unpacked element of something not followed, a with-target...
  root_expr = None
  for e_ in ctx.node_exprs(node):
    if any(x is sub for x in ast.walk(e_)):
      root_expr = e_
  implicit = _implicit_conditions(root_expr, sub) if root_expr is not None else []

  def as_len(e):
    while isinstance(e, ast.Call) and isinstance(e.func, ast.Name) and e.func.id in ('float', 'int') and len(e.args) == 1:
      e = e.args[0]
    if isinstance(e, ast.Call) and isinstance(e.func, ast.Name) and e.func.id == 'len' and len(e.args) == 1:
      return norm(e.args[0])
    return None
  den_x = rd.expand(node, den)[0]
  S = as_len(den_x)
  if S is not None:
    v, why = _empty_reaches(B, f, node, S, implicit)
    return v, why
  # a parameter that receives a length at its call sites (n_treatment_geos = len(treatment_group))
  if isinstance(den_x, ast.Name) and den_x.id in f.params and (f.name.startswith('_') and not f.name.startswith('__')):
    sites = B.call_sites().get(f.qualname, [])
    idx = f.params.index(den_x.id)
    off = 1 if f.kind in ('method', 'getter', 'setter') else 0
    own_guard = any(t.kind == 'test' and re.search(r'(?<![\w.])%s(?!\w)' % re.escape(den_x.id), norm(t.expr)) for t in g.nodes)
    if sites and not own_guard and not implicit:
      worst = None
      for gfun, call, n in sites:
        a = call.args[idx - off] if len(call.args) > idx - off >= 0 else au.kwarg(call, den_x.id)
        S2 = as_len(FuncCtx.of(gfun).rd.expand(n, a)[0]) if a is not None else None
        if S2 is None:
          if a is not None and positive(B.lb(gfun, a, n, nonempty=nonempty_facts(gfun, n))):
            continue          # this call site passes a provably positive number
          worst = worst or ('undecided', 'the argument for %s at a call site of %s is not a length' % (den_x.id, f.name))
          continue
        v, why = _empty_reaches(B, gfun, n, S2, (), 2, (f.name,))
        if v == 'violation':
          return v, why
        if v == 'undecided':
          worst = (v, why)
      return worst or ('safe', 'every call site of %s passes the length of a collection that no path leaves empty there' % f.name)
  names += ['len(%s)' % c for c in colls if 'len(%s)' % c not in names] + [c for c in colls if c not in names]
  # plain quantities
  base_texts = set(names)
  mentions = []
  inside = {id(y) for y in ast.walk(sub)}
  for x in walk_no_nested(f.node):
    test_like = []
    if isinstance(x, (ast.If, ast.While, ast.IfExp, ast.Assert)):
      test_like.append(x.test)
    elif isinstance(x, ast.BoolOp):
      test_like += x.values
    elif isinstance(x, ast.Compare):
      test_like.append(x)
    elif isinstance(x, ast.comprehension):
      test_like += x.ifs
    for tl in test_like:
      if id(tl) in inside:
        continue
      for y in ast.walk(tl):
        if id(y) in inside:
          continue
        if isinstance(y, (ast.Name, ast.Attribute, ast.Subscript, ast.Call)) and norm(y) in base_texts:
          mentions.append(norm(tl)[:50])
          break
  if mentions:
    return 'undecided', 'the function tests the same quantity in a form that is not followed (`%s`)' % mentions[0]
  params = [nm for nm in names if nm in f.params]
  if params and B.call_sites().get(f.qualname):
    return 'undecided', 'it depends on the parameter %s, whose bounds at the call sites are not established' % params[0]
  fields = [nm for nm in base_texts if re.fullmatch(r'self\.\w+', nm) and f.cls is not None and nm.split('.')[1] in _stored_fields(f.cls)]
  if fields:
    return 'undecided', 'it depends on the field %s, whose invariant is not established' % fields[0]
  if opaque_origin:
    return 'undecided', 'the value of %s comes from a construct that is not followed; whether it was tested there is not known' % opaque_origin[0]
  return 'violation', 'no test of %s anywhere in %s' % (', '.join(sorted(base_texts))[:80] or 'it', f.name)


def r1_division(rep, closure, T, K, B):
  n_div = n_py = 0
  for q, f in sorted(closure.items()):
    ctx = FuncCtx.of(f)
    for node in ctx.g.nodes:
      for e in ctx.node_exprs(node):
        for sub in walk_no_nested(e):
          if not (isinstance(sub, ast.BinOp) and isinstance(sub.op, (ast.Div, ast.FloorDiv, ast.Mod))):
            continue
          if isinstance(sub.op, ast.Mod) and isinstance(sub.left, ast.Constant) and isinstance(sub.left.value, str):
            continue
          n_div += 1
          rep.analysed['call_sites'] += 1
          kl, kr = K.kind(f, sub.left, node), K.kind(f, sub.right, node)
          if 'np' in (kl, kr):
            rep.ok('R1c/division', '%s: NumPy operand (%s/%s), no exception on zero' % (norm(sub)[:50], kl, kr), loc=f.loc(sub), nontrivial=False)
            continue
          if kl is None or kr is None:
            # unknown kinds: decide by the denominator alone
            b = B.lb(f, sub.right, node, nonempty=nonempty_facts(f, node))
            if positive(b):
              rep.ok('R1c/division', '%s: denominator > 0 (%s)' % (norm(sub)[:50], b), loc=f.loc(sub))
            else:
              v_, why_ = _unguarded_division(B, f, ctx, node, sub)
              if v_ == 'safe':
                rep.ok('R1c/division', '%s: %s' % (norm(sub)[:50], why_), loc=f.loc(sub))
              else:
                rep.undecided('R1c/division', norm(sub)[:80], 'operand kinds unknown (%s/%s) and denominator not provably non-zero' % (kl, kr), f.loc(sub))
            continue
          n_py += 1
          ne = nonempty_facts(f, node)
          b = B.lb(f, sub.right, node, nonempty=ne)
          if positive(b):
            rep.ok('R1c/division', '%s: Python-number division, denominator provably > 0 (%s)' % (norm(sub)[:50], b), loc=f.loc(sub))
            continue
          verdict, why = _unguarded_division(B, f, ctx, node, sub)
          if verdict == 'safe':
            rep.ok('R1c/division', '%s: Python-number division, %s' % (norm(sub)[:50], why), loc=f.loc(sub))
          elif verdict == 'violation':
            rep.violation('R1c/division', f.qualname, norm(sub)[:120],
                          'Python-number division %s: the denominator %s can be zero (lower bound %s; %s) — ZeroDivisionError escapes the search'
                          % (norm(sub)[:80], norm(sub.right)[:50], b, why), f.loc(sub))
          else:
            rep.undecided('R1c/division', norm(sub)[:80], 'the denominator %s is not provably non-zero, but %s' % (norm(sub.right)[:50], why), f.loc(sub))
  rep.floor('division sites in the closure', n_div, 25)
  rep.extra['python_number_divisions'] = n_py


def _while_terminates(w):
  """(True, why) recognised terminating; (False, why) recognised non-terminating; (None, why) not decided."""
  body_nodes = [x for b_ in w.body for x in ast.walk(b_)]
  exits = [x for x in body_nodes if isinstance(x, (ast.Break, ast.Return, ast.Raise))]
  const_true = isinstance(w.test, ast.Constant) and bool(w.test.value)
  if const_true and not exits:
    return False, 'the guard is constantly true and the body has no break, return or raise'
  # draining an iterator: try: v = next(it) / except StopIteration: break
  for x in body_nodes:
    if isinstance(x, ast.Try):
      has_next = any(isinstance(y, ast.Call) and isinstance(y.func, ast.Name) and y.func.id == 'next' and len(y.args) == 1 for b_ in x.body for y in ast.walk(b_))
      stops = any(h.type is not None and 'StopIteration' in norm(h.type) and any(isinstance(y, (ast.Break, ast.Return)) for b_ in h.body for y in ast.walk(b_))
                  for h in x.handlers)
      if has_next and stops and x in w.body:
        return True, 'each iteration draws from an iterator and the loop ends on StopIteration'
  # counter loops: while i < N with i += c on every iteration (top-level statement of the body) and no other store to i / N
  t = w.test
  if isinstance(t, ast.Compare) and len(t.ops) == 1 and isinstance(t.ops[0], (ast.Lt, ast.LtE, ast.NotEq)) and isinstance(t.left, ast.Name):
    i = t.left.id
    bound_names = {y.id for y in ast.walk(t.comparators[0]) if isinstance(y, ast.Name)}
    incs = [x for x in w.body if isinstance(x, ast.AugAssign) and norm(x.target) == i and isinstance(x.op, ast.Add) and isinstance(x.value, ast.Constant)
            and isinstance(x.value.value, int) and x.value.value >= 1] + \
           [x for x in w.body if isinstance(x, ast.Assign) and len(x.targets) == 1 and norm(x.targets[0]) == i and re.fullmatch(r'%s \+ [1-9]\d*' % i, norm(x.value))]
    stores = [y for y in body_nodes if isinstance(y, ast.Name) and isinstance(y.ctx, ast.Store) and (y.id == i or y.id in bound_names)]
    conts = [y for y in body_nodes if isinstance(y, ast.Continue)]
    if len(incs) == 1 and len(stores) == 1 and not conts and not (isinstance(t.ops[0], ast.NotEq) and incs[0].value.value != 1 if isinstance(incs[0], ast.AugAssign) else False):
      return True, 'the counter %s grows by a positive constant in every iteration towards a loop-invariant bound' % i
  return None, 'guard `%s`' % norm(t)[:60]


def r2_termination(repo, rep, closure):
  mm = repo.cls(MM)
  # exhaustive search and everything but greedy: no while loops, no infinite iterators
  n_loops = 0
  for q, f in sorted(closure.items()):
    for s in walk_no_nested(f.node):
      if isinstance(s, ast.While) and f.name != 'greedy_search':
        verdict, why = _while_terminates(s)
        if verdict is True:
          rep.ok('R2/termination', '%s: while %s terminates (%s)' % (f.name, norm(s.test)[:40], why), loc=f.loc(s))
        elif verdict is False:
          rep.violation('R2/termination', f.qualname, 'while ' + norm(s.test)[:80],
                        'a while loop in %s (reachable from the searches) cannot terminate: %s' % (f.qualname, why), f.loc(s))
        else:
          rep.undecided('R2/termination', '%s: while %s' % (f.name, norm(s.test)[:60]), 'no termination argument is recognised for this loop (%s)' % why, f.loc(s))
      if isinstance(s, ast.For):
        n_loops += 1
        it = norm(s.iter)
        bad = re.search(r'itertools\.(count|cycle|repeat)\(', it)
        exits = any(isinstance(x, (ast.Break, ast.Return, ast.Raise)) for b_ in s.body for x in ast.walk(b_))
        if isinstance(s.iter, ast.Call) and isinstance(s.iter.func, ast.Name) and s.iter.func.id == 'iter' and len(s.iter.args) == 2:
          # iter(callable, sentinel): ends when the callable returns the sentinel -- a fact about the callable
          rep.undecided('R2/termination', '%s: for ... in %s' % (f.name, it[:60]), 'the loop ends when `%s` returns the sentinel: whether it always does is not decided' % norm(s.iter.args[0])[:40], f.loc(s))
          continue
        if bad and exits:
          rep.undecided('R2/termination', '%s: for ... in %s' % (f.name, it[:60]), 'the iterator is unbounded; whether the exit inside the loop is always reached is not decided', f.loc(s))
          continue
        rep.check(not bad, 'R2/termination', 'for loop over a finite iterable: %s' % it[:50], f.qualname, 'for ... in ' + it[:100],
                  'loop over an unbounded iterator %s with no exit in its body' % it[:80], f.loc(s), nontrivial=False)
  rep.floor('for loops in the closure', n_loops, 10)
  f = mm.methods.get('greedy_search')
  if f is None:
    raise Undecided('greedy_search vanished')
  whiles = [s for s in walk_no_nested(f.node) if isinstance(s, ast.While)]
  if len(whiles) != 1:
    rep.undecided('R2/termination', 'greedy_search', 'expected exactly one while loop, found %d' % len(whiles), f.loc())
    return
  w = whiles[0]
  ctx = FuncCtx.of(f)
  g, rd = ctx.g, ctx.rd
  head = g.node_of(w)
  # guard = A | B (or `or`)
  t = w.test
  parts = None
  if isinstance(t, ast.BinOp) and isinstance(t.op, ast.BitOr):
    parts = [t.left, t.right]
  elif isinstance(t, ast.BoolOp) and isinstance(t.op, ast.Or) and len(t.values) == 2:
    parts = list(t.values)
  if parts is None:
    rep.undecided('R2/termination', 'greedy loop guard', 'not a disjunction of two conditions: %s' % norm(t), f.loc(w))
    return
  ptxt = {norm(p) for p in parts}
  # body: if C1: ... elif C2: ...
  body = [s for s in w.body if not (isinstance(s, ast.Expr) and isinstance(s.value, ast.Constant))]
  if not (len(body) == 1 and isinstance(body[0], ast.If) and len(body[0].orelse) == 1 and isinstance(body[0].orelse[0], ast.If)
          and not body[0].orelse[0].orelse):
    rep.undecided('R2/termination', 'greedy loop body', 'not of the form if/elif', f.loc(w))
    return
  if1, if2 = body[0], body[0].orelse[0]
  conds = {norm(if1.test), norm(if2.test)}
  rep.check(conds == ptxt, 'R2/termination', 'loop guard is the disjunction of the two branch conditions', f.qualname,
            'while %s: if %s / elif %s' % (norm(t), norm(if1.test), norm(if2.test)),
            'the loop guard %s is not the disjunction of the branch conditions %s: an iteration can execute neither branch and the loop never progresses'
            % (norm(t), sorted(conds)), f.loc(w))
  # identify counter branch: condition `k < bound`
  def counter_of(c):
    if isinstance(c, ast.Compare) and len(c.ops) == 1 and isinstance(c.ops[0], (ast.Lt, ast.LtE)) and isinstance(c.left, ast.Name):
      return c.left.id, c.comparators[0]
    return None
  cb, fb = (if2, if1) if counter_of(if2.test) else (if1, if2)
  co = counter_of(cb.test)
  if co is None or not isinstance(fb.test, ast.Name):
    rep.undecided('R2/termination', 'greedy loop', 'branch conditions not (flag, counter < bound)', f.loc(w))
    return
  kvar, bound = co
  flag = fb.test.id
  # counter branch: every path through it increments k; bound not assigned in the loop
  cb_entry = g.node_of(cb)
  inc = {n for n in g.nodes if n.kind == 'stmt' and isinstance(n.ast, (ast.Assign, ast.AugAssign)) and (
      (isinstance(n.ast, ast.Assign) and len(n.ast.targets) == 1 and norm(n.ast.targets[0]) == kvar and
       re.fullmatch(r'%s \+ [1-9]\d*|[1-9]\d* \+ %s' % (kvar, kvar), norm(n.ast.value)))
      or (isinstance(n.ast, ast.AugAssign) and norm(n.ast.target) == kvar and isinstance(n.ast.op, ast.Add) and
          au.const(n.ast.value)[0] and au.const(n.ast.value)[1] >= 1))}
  first = [m for m, lab in g.succ[cb_entry] if lab == 'true']
  p = g.path_avoiding(first[0], lambda n: n is head, lambda n: n in inc, cfgmod.no_exc) if first else None
  if first and first[0] in inc:
    p = None
  rep.check(bool(first) and p is None, 'R2/termination', 'treatment branch increments %s on every path' % kvar, f.qualname,
            'elif %s: ... %s = %s + 1' % (norm(cb.test), kvar, kvar),
            'a path through the treatment-augmentation branch returns to the loop head without incrementing %s: the loop may not terminate' % kvar, f.loc(cb))
  loopnodes = g.loop_body_nodes(head)
  other_k = [n for n in loopnodes if n.kind in ('stmt', 'for') and any(d.name == kvar for d in dataflow.defs_of(n, f.node)) and n not in inc]
  rep.check(not other_k, 'R2/termination', '%s only grows inside the loop' % kvar, f.qualname, '; '.join(n.text()[:40] for n in other_k),
            '%s is also assigned by %s inside the loop' % (kvar, '; '.join(n.text()[:40] for n in other_k)), f.loc(w))
  bnames = dataflow.names_loaded(bound)
  bad_b = [n for n in loopnodes if n.kind in ('stmt', 'for') and any(d.name in bnames for d in dataflow.defs_of(n, f.node))]
  rep.check(not bad_b, 'R2/termination', 'the bound %s is loop invariant' % norm(bound), f.qualname, '; '.join(n.text()[:40] for n in bad_b),
            'the loop bound %s is modified inside the loop' % norm(bound), f.loc(w))
  # flag branch: every path either clears the flag or rebinds under a strict improvement
  fb_entry = g.node_of(fb)
  clears = {n for n in loopnodes if n.kind == 'stmt' and isinstance(n.ast, ast.Assign) and len(n.ast.targets) == 1
            and norm(n.ast.targets[0]) == flag and au.is_const(n.ast.value, False)}
  first = [m for m, lab in g.succ[fb_entry] if lab == 'true']
  n_paths = 0
  # deciding tests: a test inside the matching branch one of whose out-branches can return to the loop head without clearing the flag
  branch_nodes = g.reachable(first[0], lambda a, b, lab: lab != 'exc' and b is not head) if first else set()
  for tnode in [n for n in branch_nodes if n.kind == 'test']:
    for m, lab in g.succ[tnode]:
      if lab not in ('true', 'false'):
        continue
      if m in clears:
        continue
      escapes = m is head or g.path_avoiding(m, lambda z: z is head, lambda z: z in clears, cfgmod.no_exc) is not None
      other = [x for x, l2 in g.succ[tnode] if l2 in ('true', 'false') and l2 != lab]
      other_clears = bool(other) and (other[0] in clears or (other[0] is not head and
                                      g.path_avoiding(other[0], lambda z: z is head, lambda z: z in clears, cfgmod.no_exc) is None))
      if not (escapes and other_clears):
        continue
      n_paths += 1
      rep.analysed['paths'] += 1
      dnf = pathcond.literals(ctx.rd.expand(tnode, tnode.expr)[0], lab == 'true')      # a named comparison is looked through
      strict = len(dnf) == 1 and len(dnf[0]) == 1
      if strict:
        e, tr = dnf[0][0]
        strict = isinstance(e, ast.Compare) and len(e.ops) == 1 and (
            (tr and isinstance(e.ops[0], (ast.Gt, ast.Lt))) or ((not tr) and isinstance(e.ops[0], (ast.GtE, ast.LtE))))
      rep.check(strict, 'R2/termination', 'matching repeats only after a strict score improvement (`%s` %s)' % (norm(tnode.expr)[:50], lab), f.qualname,
                'repeat matching when %s%s' % ('' if lab == 'true' else 'not ', norm(tnode.expr)[:80]),
                'the matching branch repeats (without clearing %s) when `%s` is %s, which is not a strict improvement: with equal scores the loop never ends'
                % (flag, norm(tnode.expr)[:80], lab), f.loc(tnode.expr))
  # paths through for-loops inside the branch were cut by back_limit=0; examine the branch tail separately
  rep.extra['greedy_repeat_deciding_tests'] = n_paths
  rep.floor('deciding tests of the matching repetition', n_paths, 1)
  sets_true = [n for n in loopnodes if n.kind == 'stmt' and isinstance(n.ast, ast.Assign) and norm(n.ast.targets[0]) == flag and au.is_const(n.ast.value, True)]
  for n in sets_true:
    # the flag is re-armed only together with an increment of the counter (same straight-line block)
    ok = any(g.path_avoiding(i, lambda m: m is n, lambda m: m.kind in ('test', 'for'), cfgmod.no_exc) is not None or
             g.path_avoiding(n, lambda m: m is i, lambda m: m.kind in ('test', 'for'), cfgmod.no_exc) is not None for i in inc)
    rep.check(ok, 'R2/termination', 'the matching flag is re-armed only together with an increment of %s' % kvar, f.qualname, norm(n.ast),
              '%s = True is executed without incrementing %s: matching can be re-triggered forever' % (flag, kvar), f.loc(n.ast))


def run(repo, rep, tier):
  T = typesmod.Types(repo)
  mm = repo.cls(MM)
  roots = [mm.methods[m] for m in ('exhaustive_search', 'greedy_search', '__init__') if m in mm.methods]
  if len(roots) != 3:
    raise Undecided('search entry points vanished')
  for q in ('tbrmmdesign.TBRMMDesign', 'tbrmmscore.TBRMMScore'):
    c = repo.cls(q)
    if '__lt__' in c.methods:
      roots.append(c.methods['__lt__'])
  hd = repo.cls('heapdict.HeapDict')
  roots += [m for n, m in hd.methods.items()]
  closure, edges = T.closure(roots)
  for f in closure.values():
    rep.fn(f)
  rep.floor('functions in the call-graph closure of the searches', len(closure), 40)
  rep.extra['call_graph_edges'] = len(edges)
  K = kindsmod.Kinds(repo, T)
  B = Bounds(repo, T, closure)
  R1_REPO[0] = repo
  r1_raises(rep, closure)
  r1_lists(rep, closure, T)
  r1_division(rep, closure, T, K, B)
  r2_termination(repo, rep, closure)
  from mmsa.props import c09_extra
  c09_extra.r1f_optional(repo, rep, closure)
  c09_extra.r1d_greedy_keys(repo, rep)
  c09_extra.r1g_integer_parameters(repo, rep, closure)
  c09_extra.r1h_dict_field_keys(repo, rep, closure)
  c09_extra.r1i_index_arrays(repo, rep, closure)
  # R1e: shared with C10 — indices never refer to a stale array
  from mmsa.props import c10
  sub = type(rep)(rep.prop, rep.tier, rep.repo)
  c10.r2_queries(repo, sub)
  for i in sub.instances:
    if i.rule == 'R2/index-install':
      i.rule = 'R1e/index-install'
      rep.instances.append(i)
  rep.assume('precondition of the property: the analysis window holds at least n_test + 3 points of non-constant series '
             '(so A/A results are not None and correlations are not NaN)')
  rep.assume('library code (NumPy, pandas, SciPy, heapq, itertools) raises nothing for finite numeric input')
