"""C02 — returned designs satisfy every user-specified numeric constraint.

Decided: for both searches and each of the six constraints, under the
assumption "the constraint's parameter is not None", every CFG path (within
the iteration that binds the pushed groups) from the loop header to
results.push passes a test that (R1) normalises to accept <=> lo (<=) v (<=) hi
with v, lo, hi equal to the specification row instantiated at the very
treatment/control expressions handed to the pushed TBRMMDesign, bounds compared
algebraically, integer-valued bounds closed; (R2) leaves the test on the
accepting branch. Sizes and the geo ratio of the exhaustive search are
enforced by provenance (range(lo, hi + 1) of the size functions, generators
yielding sets of exactly the requested size). (R3) every enforcing test is
unreachable when its parameter is None.
Not decided: the numeric values (required impact, shares) and float round-off
on the real-valued bounds.
"""
import ast
import re

import sympy

from mmsa import au, cfg as cfgmod, dataflow, pathcond, search, sym
from mmsa.core import Undecided, norm, walk_no_nested
from mmsa.types import FuncCtx

EXPLANATION = (
    'Must-pass-through analysis on the CFGs of exhaustive_search, greedy_search, design_within_constraints and the two size functions '
    'under is-None assumptions, with an interval-predicate normaliser (reject/accept forms, helper inlining) and algebraic comparison '
    'of bounds (sympy normal forms); provenance rules for sizes enforced by generators.')
RULE_TEXT = ('one obligation per (search, constraint) enforcement clause: predicate matches the spec row, closedness, must-pass on the pushed pair, '
             'vacuity when unspecified')

P = 'self.parameters.'
CONSTRAINTS = ['treatment_geos_range', 'control_geos_range', 'geo_ratio_tolerance', 'volume_ratio_tolerance', 'treatment_share_range', 'budget_range']
INTEGER_VALUED = {'treatment_geos_range', 'control_geos_range', 'geo_ratio_tolerance'}


def share(x):
  return 'self.data.aggregate_geo_share(%s)' % x


def classify_quantity(vt):
  """Which constrained quantity does the (alias-expanded) value text denote?"""
  n_share = vt.count('aggregate_geo_share(')
  if '.required_impact' in vt and 'iroas' in vt:
    return 'budget_range'
  if 'estimate_required_impact(' in vt:
    return 'optimistic-budget'
  if n_share >= 2 and '/' in vt and 'geo_assignments.all' not in vt:
    return 'volume_ratio_tolerance'
  if n_share >= 1:
    return 'treatment_share_range'
  if 'aggregate_time_series(' in vt and '/' in vt:
    return 'volume_ratio_tolerance'
  if vt.count('len(') >= 2 and '/' in vt:
    return 'geo_ratio_tolerance'
  if re.fullmatch(r'\w+ / \w+', vt) and ('n_control' in vt or 'n_treatment' in vt):
    return 'geo_ratio_tolerance'
  m = re.fullmatch(r'len\((.+)\)', vt)
  if m:
    return 'size:' + m.group(1)
  return None


def _bt(b):
  return norm(b) if b is not None else 'no bound'


def tol_bounds_ok(lo, hi, tolname):
  """lo == 1/(1+tol) and hi == 1+tol, algebraically."""
  if lo is None or hi is None:
    return False
  t = sym.symbol('tol', positive=True)

  def leaf(e):
    if norm(e) in (P + tolname,):
      return t
    return None
  try:
    slo, shi = sym.to_sym(lo, leaf), sym.to_sym(hi, leaf)
  except Undecided:
    return False
  return sym.equal(slo, 1 / (1 + t)) and sym.equal(shi, 1 + t)


def half_ok(kappa, iv):
  """A one-sided test whose present limit is the documented limit of that side (so the reading "the comparison holds =
  the limit is violated" that produced the half interval is the right one)."""
  if (iv.lo is None) == (iv.hi is None):
    return False
  if kappa in ('volume_ratio_tolerance', 'geo_ratio_tolerance'):
    t = sym.symbol('tol', positive=True)
    leaf = lambda e: t if norm(e) == P + kappa else None
    try:
      if iv.lo is not None:
        return sym.equal(sym.to_sym(iv.lo, leaf), 1 / (1 + t))
      return sym.equal(sym.to_sym(iv.hi, leaf), 1 + t)
    except Undecided:
      return False
  if iv.lo is not None:
    return norm(iv.lo) == '%s%s[0]' % (P, kappa)
  return norm(iv.hi) == '%s%s[1]' % (P, kappa)


def range_bounds_ok(lo, hi, pname):
  if lo is None or hi is None:
    return False      # one-sided test: half of the range is not enforced
  return norm(lo) == '%s%s[0]' % (P, pname) and norm(hi) == '%s%s[1]' % (P, pname)


class Enforcement:

  def __init__(self, kappa, node, iv, vt, where, ok_spec, why, closed_ok):
    self.kappa, self.node, self.iv, self.vt, self.where = kappa, node, iv, vt, where
    self.ok_spec, self.why, self.closed_ok = ok_spec, why, closed_ok


def expand_iv(view_rd, node, iv, keep=()):
  ex = lambda e: view_rd.expand(node, e, keep=keep)[0] if e is not None else None
  return search.Interval(ex(iv.v), ex(iv.lo), ex(iv.hi), iv.closed_lo, iv.closed_hi, iv.accept_when)


_KNOWN_ROOTS = {'self', 'len', 'np', 'numpy', 'math', 'abs', 'float', 'int', 'min', 'max', 'sum', 'set', 'list', 'sorted', 'round', 'True', 'False', 'None'}


def open_terms(iv, T, C):
  """Local names left in an expanded test (value and limits) that are neither the groups under test nor known roots:
  the test reads something the expansion could not resolve (a field of a local object, a loop variable, a helper's
  result), so its meaning is not known."""
  allowed = set(_KNOWN_ROOTS)
  for t in (T, C):
    try:
      allowed |= {x.id for x in ast.walk(ast.parse(t, mode='eval')) if isinstance(x, ast.Name)}
    except SyntaxError:
      pass
  out = []
  for e in (iv.v, iv.lo, iv.hi):
    if e is None:
      continue
    bound = set()
    for sub in ast.walk(e):
      if isinstance(sub, (ast.GeneratorExp, ast.ListComp, ast.SetComp, ast.DictComp)):
        for gen in sub.generators:
          bound |= {x.id for x in ast.walk(gen.target) if isinstance(x, ast.Name)}
      if isinstance(sub, ast.Lambda):
        bound |= {a.arg for a in sub.args.args}
    receivers = {id(sub.value) for sub in ast.walk(e) if isinstance(sub, ast.Attribute) and sub.attr in ('required_impact', 'estimate_required_impact', 'corr', 'x', 'y')
                 and isinstance(sub.value, ast.Name)}          # D.required_impact: D is the diagnostics object, whose provenance has its own rule
    for sub in ast.walk(e):
      if isinstance(sub, ast.Name) and sub.id not in allowed and sub.id not in bound and sub.id not in out and id(sub) not in receivers and not sub.id[:1].isupper():
        out.append(sub.id)
    # a group given as a field of a record (candidate.geos): another field of the same record (candidate.share) is a
    # value whose relation to the group is not known here
    for t in (T, C):
      if '.' in t and t.split('.')[0].isidentifier():
        root = t.split('.')[0]
        for sub in ast.walk(e):
          if isinstance(sub, ast.Attribute) and isinstance(sub.value, ast.Name) and sub.value.id == root and norm(sub) != t and not t.startswith(norm(sub) + '.') \
              and root not in _KNOWN_ROOTS and norm(sub) not in out:
            out.append(norm(sub))
  return out


def check_spec(kappa, iv, T, C, extra=None):
  """(verdict, why): True = matches the spec row of kappa on groups T, C; False = a closed term that differs from it;
  None = differs, but the test still contains unresolved locals (its meaning is not known)."""
  ok, why = _check_spec_closed(kappa, iv, T, C, extra)
  if not ok and (iv.lo is None) != (iv.hi is None) and getattr(iv, 'partner', False):
    # a one-sided comparison whose other limit is tested by a separate (nested or following) comparison of the same
    # quantity: the pair is not combined here
    return None, '%s [not decided: a one-sided test; the other limit is checked by a separate comparison]' % why
  if not ok:
    free = open_terms(iv, T, C)
    if free:
      return None, '%s [not decided: the test reads %s, which the expansion did not resolve]' % (why, ', '.join(free[:4]))
  return ok, why


def _check_spec_closed(kappa, iv, T, C, extra=None):
  vt = norm(iv.v)
  if kappa == 'volume_ratio_tolerance':
    okv = vt in ('%s / %s' % (share(C), share(T)), '%s / %s' % (share(T), share(C)))
    if not okv:
      return False, 'the tested ratio `%s` is not share(control)/share(treatment) of the pushed groups (%s, %s)' % (vt, C, T)
    if not tol_bounds_ok(iv.lo, iv.hi, kappa):
      return False, 'bounds (%s, %s) are not (1/(1+tol), 1+tol)' % (_bt(iv.lo), _bt(iv.hi))
    return True, ''
  if kappa == 'geo_ratio_tolerance':
    okv = vt in ('len(%s) / len(%s)' % (C, T), 'len(%s) / len(%s)' % (T, C)) or (extra and vt in extra)
    if not okv:
      return False, 'the tested ratio `%s` is not len(control)/len(treatment) of the pushed groups' % vt
    if not tol_bounds_ok(iv.lo, iv.hi, kappa):
      return False, 'bounds (%s, %s) are not (1/(1+tol), 1+tol)' % (_bt(iv.lo), _bt(iv.hi))
    return True, ''
  if kappa == 'treatment_share_range':
    okv = vt in (share(T), '%s / %s' % (share(T), share('self.geo_assignments.all')))
    if not okv:
      return False, 'the tested share `%s` is not the share of the pushed treatment group %s (raw or relative to the admitted geos)' % (vt, T)
    if not range_bounds_ok(iv.lo, iv.hi, kappa):
      return False, 'bounds (%s, %s) are not treatment_share_range[0], [1]' % (_bt(iv.lo), _bt(iv.hi))
    return True, ''
  if kappa == 'budget_range':
    if not re.fullmatch(r'(\w+)\.required_impact / %siroas' % re.escape(P), vt):
      return False, 'the tested budget `%s` is not required_impact / iroas of the pushed design' % vt
    if not range_bounds_ok(iv.lo, iv.hi, kappa):
      return False, 'bounds (%s, %s) are not budget_range[0], [1]' % (_bt(iv.lo), _bt(iv.hi))
    return True, ''
  if kappa in ('treatment_geos_range', 'control_geos_range'):
    grp = T if kappa == 'treatment_geos_range' else C
    if vt != 'len(%s)' % grp:
      return False, 'the tested size `%s` is not len(%s)' % (vt, grp)
    if not range_bounds_ok(iv.lo, iv.hi, kappa):
      return False, 'bounds (%s, %s) are not %s[0], [1]' % (_bt(iv.lo), _bt(iv.hi), kappa)
    return True, ''
  return False, 'unknown constraint'


def tests_of(repo, f, keep=()):
  """All range tests of a function: (node, expanded Interval, other conjuncts, quantity)."""
  ctx = FuncCtx.of(f)
  out = []
  for n in ctx.g.nodes:
    if n.kind != 'test':
      continue
    from mmsa import inline
    texpr = inline.inline_expr(f, n.expr)
    iv, others = search.test_interval(repo, f, texpr)
    at_ = n
    if iv is None:
      # `out_of_range = v > hi or v < lo; if out_of_range: continue`: the test is the (single) definition of the flag
      core_, neg_ = au.strip_not(n.expr)
      d_ = ctx.rd.single_def(n, core_.id) if isinstance(core_, ast.Name) else None
      if d_ is not None and d_.how == 'assign' and isinstance(d_.value, (ast.BoolOp, ast.Compare, ast.UnaryOp)) and core_.id not in ctx.rd.mutated:
        t2_ = dataflow.clone(d_.value)
        if neg_:
          t2_ = ast.UnaryOp(op=ast.Not(), operand=t2_)
        iv, others = search.test_interval(repo, f, inline.inline_expr(f, ast.copy_location(t2_, d_.value)))
        at_ = d_.node
    if iv is None:
      continue
    ivx = expand_iv(ctx.rd, at_, iv, keep)
    q = classify_quantity(norm(ivx.v))
    # the limits say which constraint a test belongs to: a test against the limits of kappa on some other quantity is a
    # (wrong) kappa test, not a test of whatever its value happens to look like
    btxt = ' '.join(norm(b) for b in (ivx.lo, ivx.hi) if b is not None)
    qb = [k for k in CONSTRAINTS if ('parameters.' + k) in btxt]
    if q != 'optimistic-budget' and len(qb) == 1 and qb[0] != q and not (q or '').startswith('size:'):
      q = qb[0]
    out.append((n, ivx, others, q))
  # one-sided tests of the same quantity that cover complementary sides are partners (a two-sided test split in two)
  for n1, iv1, _o1, q1 in out:
    if (iv1.lo is None) == (iv1.hi is None):
      continue
    for n2, iv2, _o2, q2 in out:
      if n2 is n1 or (iv2.lo is None) == (iv2.hi is None):
        continue
      same_q = (q1 is not None and q1 == q2) or norm(iv1.v) == norm(iv2.v)
      if same_q and ((iv1.lo is None) != (iv2.lo is None) or norm(iv1.lo or iv1.hi) != norm(iv2.lo or iv2.hi)):
        iv1.partner = True
  return out


def kappa_mentions(f, kappa, keep=()):
  """CFG nodes of f whose (alias-expanded) expressions consult the parameter kappa."""
  ctx = FuncCtx.of(f)
  out = []
  for n in ctx.g.nodes:
    for e in ctx.node_exprs(n):
      texts = [norm(e)]
      try:
        texts.append(norm(ctx.rd.expand(n, e, keep=keep)[0]))
      except Exception:      # expansion is best effort here
        pass
      if any(('parameters.' + kappa) in t or ('_par.' + kappa) in t for t in texts) or \
          any((isinstance(x, ast.Attribute) and x.attr == kappa) or (isinstance(x, ast.Constant) and x.value == kappa) for x in ast.walk(e)):
        out.append(n)          # also `par.kappa`, `limits.kappa`, getattr(..., 'kappa') and table entries naming the parameter
        break
  # nested functions and lambdas (table-driven checks)
  for sub in ast.walk(f.node):
    if isinstance(sub, (ast.Lambda, ast.FunctionDef)) and sub is not f.node and (('parameters.' + kappa) in norm(sub) or any(
        (isinstance(x, ast.Attribute) and x.attr == kappa) or (isinstance(x, ast.Constant) and x.value == kappa) for x in ast.walk(sub))):
      out.append(None)
  return out


def closure_mentions(repo, f, kappa):
  """Functions other than f itself, reachable from f through calls, that name the parameter kappa (as an attribute or a
  string): the constraint may be enforced there in a form the rule does not follow."""
  from mmsa import types as typesmod_
  try:
    seen, _edges = typesmod_.Types(repo).closure([f])
  except Exception:
    return ['?']
  # helpers handed over as values (map(self._candidates, sizes)) are reached too
  names_in_f = {x.attr if isinstance(x, ast.Attribute) else x.id for x in ast.walk(f.node) if isinstance(x, (ast.Attribute, ast.Name))}
  work_ = [repo.functions[q_] for q_ in getattr(repo, 'residual_helpers', ()) if q_ in repo.functions and repo.functions[q_].name in names_in_f]
  while work_:
    h_ = work_.pop()
    if h_.qualname in seen:
      continue
    seen[h_.qualname] = h_
    names_h = {x.attr if isinstance(x, ast.Attribute) else x.id for x in ast.walk(h_.node) if isinstance(x, (ast.Attribute, ast.Name))}
    work_ += [repo.functions[q_] for q_ in getattr(repo, 'residual_helpers', ()) if q_ in repo.functions and repo.functions[q_].name in names_h and q_ not in seen]
  out = []
  for q, g_ in seen.items():
    if g_ is f or (repo.pinned_names is not None and q in repo.pinned_names):
      continue          # anchors of the pinned tree have known roles; only helpers can hide an enforcement
    if any((isinstance(x, ast.Attribute) and x.attr == kappa) or (isinstance(x, ast.Constant) and x.value == kappa) for x in ast.walk(g_.node)):
      out.append(q)
  return out


def table_mentions(f, kappa):
  """Class-level and module-level assignments of the module of f (tables of constraints, strategy registries) that name
  the parameter kappa as a string or an attribute."""
  out = []
  scopes = [f.module.tree.body]
  if f.cls is not None:
    scopes.append(f.cls.node.body)
  for body in scopes:
    for st in body:
      if isinstance(st, (ast.Assign, ast.AnnAssign)) and st.value is not None \
          and any((isinstance(x, ast.Attribute) and x.attr == kappa) or (isinstance(x, ast.Constant) and x.value == kappa) for x in ast.walk(st.value)):
        tg = st.targets[0] if isinstance(st, ast.Assign) else st.target
        out.append(norm(tg))
  return out


def is_vacuous(g, n, iv, pname, resolve_at, extra, src=None):
  """The range test is not evaluated (or cannot reject) when the parameter is None."""
  facts = {P + pname: 'none'}
  reach = g.reachable(src or g.entry, cfgmod.edge_filter_under(g, facts, resolve_at=resolve_at, extra=extra))
  if n not in reach:
    return True
  res = (lambda nm: resolve_at(n, nm)) if resolve_at else None
  from mmsa import inline
  fobj = getattr(g, '_funcinfo', None)
  texpr = inline.inline_expr(fobj, n.expr) if fobj is not None else n.expr
  v = cfgmod.decide_test(texpr, facts, res)
  if v is not None and v == iv.accept_when:
    return True
  # the test is reached with the parameter None only through a guard on a value derived from the parameter (limits
  # computed once: `lim = None if tol is None else (...)` ... `if lim is not None:`): the correlation is not followed
  fn = getattr(g, 'func', None)
  if fn is not None:
    derived = set()
    for _r in range(3):
      for st_ in ast.walk(fn):
        if isinstance(st_, ast.If) and any((isinstance(x_, ast.Attribute) and x_.attr == pname) or (isinstance(x_, ast.Name) and x_.id in derived) for x_ in ast.walk(st_.test)):
          for b_ in st_.body + st_.orelse:
            for x_ in ast.walk(b_):
              if isinstance(x_, ast.Name) and isinstance(x_.ctx, ast.Store):
                derived.add(x_.id)
        if isinstance(st_, ast.Assign) and any((isinstance(x_, ast.Attribute) and x_.attr == pname) or (isinstance(x_, ast.Name) and x_.id in derived) for x_ in ast.walk(st_.value)):
          for t_ in st_.targets:
            derived |= {x_.id for x_ in ast.walk(t_) if isinstance(x_, ast.Name)}
    if derived:
      for ex_, taken_, tn_ in cfgmod.dominating_conditions(g, n):
        if any(isinstance(x_, ast.Name) and x_.id in derived for x_ in ast.walk(ex_)) and cfgmod.decide_test(ex_, facts, (lambda nm, tn_=tn_: resolve_at(tn_, nm)) if resolve_at else None) is None:
          return None
  return False


def accept_edge_ok(n, iv):
  """Edge predicate removing the *rejecting* out-edge of test node n."""
  rej = 'false' if iv.accept_when else 'true'
  return lambda a, b, lab: not (a is n and lab == rej)


def budget_provenance(view, node, vt, T, C):
  """required_impact / iroas of object D: D was built from aggregate_time_series(T) and its x set from aggregate_time_series(C).
  Verdict True / False (a recognised different group feeds the diagnostics) / None (not resolved)."""
  m = re.fullmatch(r'(\w+)\.required_impact / .+', vt)
  if not m:
    return None, 'shape'
  D = m.group(1)

  def same_group(arg_text, arg_node, at, want, want_expr):
    """arg (text, at node `at`) denotes the pushed group `want`?  True / False (it is the *other* pushed group) / None"""
    if arg_text == want:
      return True
    full_a = norm(view.rd.expand(at, arg_node, aliases=True)[0]) if arg_node is not None else arg_text
    full_w = norm(view.rd.expand(node, want_expr, aliases=True)[0]) if want_expr is not None else want
    if full_a == full_w:
      return True
    other = C if want == T else T
    if arg_text == other or full_a == other:
      return False
    return None
  try:
    T_expr, C_expr = ast.parse(T, mode='eval').body, ast.parse(C, mode='eval').body
  except SyntaxError:
    T_expr = C_expr = None
  xs = view.attr_store_before(node, D, 'x')
  if xs is None:
    anyx = any(isinstance(x_, ast.Attribute) and x_.attr == 'x' and isinstance(x_.ctx, ast.Store) and norm(x_.value) == D for x_ in ast.walk(view.f.node))
    return (None if anyx else False), 'no store to %s.x dominates the budget test' % D
  xv = view.expand(xs, xs.ast.value)
  xt = norm(xv)
  if not (isinstance(xv, ast.Call) and norm(xv.func) == 'self.data.aggregate_time_series' and len(xv.args) == 1):
    return None, '%s.x is %s, not visibly the aggregate of the pushed control group %s' % (D, xt, C)
  sg = same_group(norm(xv.args[0]), xs.ast.value.args[0] if isinstance(xs.ast.value, ast.Call) and xs.ast.value.args else None, xs, C, C_expr)
  if not sg:
    return sg, '%s.x is %s, not the aggregate of the pushed control group %s' % (D, xt, C)
  d = view.rd.single_def(xs, D)
  if d is None or d.how != 'assign':
    return None, '%s has no unique construction' % D
  cv = view.expand(d.node, d.value)
  ct = norm(cv)
  if not (isinstance(cv, ast.Call) and norm(cv.func).split('.')[-1] == 'TBRMMDiagnostics' and len(cv.args) == 2 and isinstance(cv.args[0], ast.Call)
          and norm(cv.args[0].func) == 'self.data.aggregate_time_series' and len(cv.args[0].args) == 1):
    return None, '%s is built as %s, not visibly from the aggregate of the pushed treatment group %s' % (D, ct, T)
  raw = d.value.args[0].args[0] if isinstance(d.value, ast.Call) and d.value.args and isinstance(d.value.args[0], ast.Call) and d.value.args[0].args else None
  sg = same_group(norm(cv.args[0].args[0]), raw, d.node, T, T_expr)
  if not sg:
    return sg, '%s is built as %s, not from the aggregate of the pushed treatment group %s' % (D, ct, T)
  return True, ''


# -- design_within_constraints summary -----------------------------------------------
def dwc_summary(repo, rep):
  """kappa -> Enforcement for design_within_constraints(treatment_geos, control_geos)."""
  cls = repo.cls(search.MM)
  f = cls.methods.get('design_within_constraints')
  if f is None:
    raise Undecided('design_within_constraints vanished')
  rep.fn(f)
  ctx = FuncCtx.of(f)
  g = ctx.g
  T, C = f.params[1], f.params[2]
  tests = tests_of(repo, f, keep=(T, C))
  true_rets = [n for n in g.nodes if n.kind == 'return' and n.ast.value is not None and au.is_const(n.ast.value, True)]
  other_rets = [n for n in g.nodes if n.kind == 'return' and n not in true_rets and not (n.ast.value is not None and au.is_const(n.ast.value, False))]
  out = {}
  incomplete = {}
  for n in other_rets:
    rep.undecided('R2/must-pass', 'design_within_constraints', 'return value is not a Boolean constant: %s' % norm(n.ast), f.loc(n.ast))
  for kappa in CONSTRAINTS:
    cands = []
    for n, iv, others, q in tests:
      want = {'treatment_geos_range': 'size:' + T, 'control_geos_range': 'size:' + C}.get(kappa, kappa)
      if q == want:
        cands.append((n, iv))
    understood = {id(n_) for n_, iv_ in cands}
    stray = [m for m in kappa_mentions(f, kappa, keep=(T, C)) if m is None or (id(m) not in understood and m.kind != 'test') or
             (m is not None and m.kind == 'test' and id(m) not in understood)]
    # plain aliases `x = self.parameters.kappa` are not uses
    stray = [m for m in stray if not (m is not None and m.kind == 'stmt' and isinstance(m.ast, ast.Assign) and isinstance(m.ast.value, ast.Attribute))]
    if not cands and not stray:
      via = closure_mentions(repo, f, kappa)
      if via:
        incomplete[kappa] = 'design_within_constraints reaches %s, which consults %s: the enforcement is not followed there' % (', '.join(via)[:80], kappa)
        out[kappa] = None
        continue
    if other_rets or (stray and not cands):
      incomplete[kappa] = 'design_within_constraints consults %s in a form that is not understood' % kappa if stray else 'non-constant return value'
      out[kappa] = None
      continue
    if not cands:
      out[kappa] = None
      continue
    n, iv = cands[0]
    ok, why = check_spec(kappa, iv, T, C)
    closed = iv.closed_lo and iv.closed_hi
    # several copies of the test (the same check on different branches, e.g. after a result variable was threaded through
    # the branches): each copy must be the right test, and every accepting path must pass one of them
    for n_x, iv_x in cands[1:]:
      ok_x, why_x = check_spec(kappa, iv_x, T, C)
      if ok_x is not True and ok is True:
        n, iv, ok, why = n_x, iv_x, ok_x, why_x
      closed = closed and iv_x.closed_lo and iv_x.closed_hi
    cand_nodes = {id(n_x): (n_x, iv_x) for n_x, iv_x in cands}
    # must-pass: under kappa not None, no path entry -> `return True` avoiding the accept edges of the candidate tests
    facts = {P + kappa: 'notnone'}
    res_dw = lambda node, e_: ctx.rd.expand(node, e_)[0]

    def accept_all(a, b, lab):
      if lab == 'exc':
        return False
      if id(a) in cand_nodes:
        return accept_edge_ok(*cand_nodes[id(a)])(a, b, lab)
      return True
    ef = cfgmod.edge_filter_under(g, facts, resolve_at=res_dw, extra=accept_all)
    p = g.path_avoiding(g.entry, lambda m: m in true_rets, lambda m: False, ef)
    # a path to `return True` that does not go through any of them at all?
    p2 = g.path_avoiding(g.entry, lambda m: m in true_rets, lambda m: id(m) in cand_nodes, cfgmod.edge_filter_under(g, facts, resolve_at=res_dw, extra=cfgmod.no_exc))
    must = p2 is None and p is not None
    e = Enforcement(kappa, n, iv, norm(iv.v), f.loc(n.expr), ok, why, closed)
    e.must = must
    e.func = f
    # vacuity: unreachable when the parameter is None
    e.vacuous = is_vacuous(g, n, iv, kappa, res_dw, cfgmod.no_exc)
    out[kappa] = e
  out['#incomplete'] = incomplete
  return f, out


def report_enforcement(rep, where, kappa, e, fq):
  if e is None:
    return False
  if e.ok_spec is None:
    rep.undecided('R1/predicate', '%s: %s' % (where, kappa), e.why[:300], e.where)
    return True
  rep.check(e.ok_spec, 'R1/predicate', '%s: %s is tested as %r' % (where, kappa, e.iv), fq, '%s: %s' % (kappa, norm(e.node.expr)[:100]),
            '%s: the %s check is wrong — %s' % (where, kappa, e.why), e.where)
  if kappa in INTEGER_VALUED:
    rep.check(e.closed_ok, 'R1/inclusive', '%s: %s bounds are inclusive' % (where, kappa), fq, '%s: %r' % (kappa, e.iv),
              '%s: the integer-valued %s constraint excludes its bound (%r): designs exactly on the bound are rejected/accepted wrongly'
              % (where, kappa, e.iv), e.where)
  rep.check(e.must, 'R2/must-pass', '%s: every accepting path passes the %s test' % (where, kappa), fq, '%s: bypass of %s' % (kappa, norm(e.node.expr)[:80]),
            '%s: with %s specified a design can be accepted without passing its check (or only on the rejecting branch)' % (where, kappa), e.where)
  rep.check3(e.vacuous, 'R3/unspecified', '%s: %s test is skipped when the parameter is None' % (where, kappa), fq,
             '%s: test reachable with None' % kappa, '%s: the %s test is evaluated although the parameter is None' % (where, kappa), e.where,
             why_open='the %s test is guarded by a value derived from the parameter; whether that guard excludes the None case is not followed' % kappa)
  return True


# -- size functions (exhaustive provenance) ---------------------------------------------
def size_range_function(repo, rep, fname, pname, where):
  """range(lo, hi + 1) with lo >= range[0] and hi <= range[1] when the range is given."""
  cls = repo.cls(search.MM)
  f = cls.methods.get(fname)
  if f is None:
    raise Undecided('%s vanished' % fname)
  rep.fn(f)
  ctx = FuncCtx.of(f)
  g, rd = ctx.g, ctx.rd
  facts = {P + pname: 'notnone'}
  resolve_at = lambda node, e_: rd.expand(node, e_)[0]
  ef = cfgmod.edge_filter_under(g, facts, resolve_at=resolve_at, extra=cfgmod.no_exc)
  rd2 = dataflow.Reaching(g, ef)
  reach = g.reachable(g.entry, ef)
  ranges = []
  for n in g.nodes:
    if n not in reach:
      continue
    for e in FuncCtx.node_exprs(n):
      for call in au.calls_in(e):
        if isinstance(call.func, ast.Name) and call.func.id == 'range' and len(call.args) == 2:
          ranges.append((n, call))
  if not ranges:
    rep.undecided('R1/sizes', fname, 'no range(lo, hi + 1) found', f.loc())
    return None
  okall = True
  for n, call in ranges:
    lo = norm(rd2.expand(n, call.args[0])[0])
    stop = rd2.expand(n, call.args[1])[0]
    hi = norm(stop)
    hi_inner = None
    if isinstance(stop, ast.BinOp) and isinstance(stop.op, ast.Add):
      if au.is_const(stop.right, 1):
        hi_inner = stop.left
      elif au.is_const(stop.left, 1):
        hi_inner = stop.right
    lo_ok = re.match(r'(max\()?%s%s\[0\]' % (re.escape(P), pname), lo) is not None and not lo.startswith('min(')
    hi_ok = False
    if hi_inner is not None:
      ht = norm(hi_inner)
      hi_ok = ht == '%s%s[1]' % (P, pname) or (ht.startswith('min(') and ('%s%s[1]' % (P, pname)) in [norm(a) for a in hi_inner.args]) if isinstance(hi_inner, (ast.Call, ast.Subscript)) else False
    rep.check(lo_ok, 'R1/sizes', '%s: smallest size is at least %s[0]' % (where, pname), f.qualname, 'range(%s, ...)' % lo,
              '%s: sizes start at `%s`, which does not respect the lower bound %s[0]' % (where, lo, pname), f.loc(call))
    rep.check(hi_ok, 'R1/inclusive', '%s: largest size is %s[1] inclusive (range stop is bound + 1)' % (where, pname), f.qualname, 'range(..., %s)' % hi,
              '%s: the range stop `%s` does not make %s[1] the largest admissible size (inclusive upper bound)' % (where, hi, pname), f.loc(call))
    okall = okall and lo_ok and hi_ok
  # vacuity when None: the range then uses the structural bounds only
  ef0 = cfgmod.edge_filter_under(g, {P + pname: 'none'}, resolve_at=resolve_at, extra=cfgmod.no_exc)
  rd0 = dataflow.Reaching(g, ef0)
  reach0 = g.reachable(g.entry, ef0)
  for n, call in ranges:
    if n in reach0:
      lo = norm(rd0.expand(n, call.args[0])[0])
      hi = norm(rd0.expand(n, call.args[1])[0])
      rep.check(pname not in lo + hi or '[' not in (lo + hi).split(pname, 1)[1][:2], 'R3/unspecified', '%s: no bound from %s when it is None' % (where, pname),
                f.qualname, 'range(%s, %s)' % (lo, hi), '%s subscripts %s although it is None' % (where, pname), f.loc(call))
  return f


def generator_exact_size(repo, rep, fname, size_text_fn, where):
  """Every yield of a group generator is fixed | set(combination of (n - |fixed|) from a pool disjoint from fixed),
  or `fixed` itself under n - |fixed| == 0."""
  from mmsa.props import c01
  cls = repo.cls(search.MM)
  f = cls.methods.get(fname)
  if f is None:
    raise Undecided('%s vanished' % fname)
  ctx = FuncCtx.of(f)
  g, rd = ctx.g, ctx.rd
  n_y = 0
  for n in g.nodes:
    if n.kind != 'stmt':
      continue
    for sub in walk_no_nested(n.ast):
      if isinstance(sub, ast.Yield) and sub.value is not None:
        n_y += 1
        size = size_text_fn(f, n)
        if size == 'NO-LOOP':
          rep.violation('R1/sizes', f.qualname, 'yield %s outside the loop over admissible sizes' % norm(sub.value)[:60],
                        '%s yields `%s` outside the loop over the admissible group sizes: the group is produced whatever the size range and ratio tolerance allow'
                        % (fname, norm(sub.value)[:60]), f.loc(sub))
          continue
        if size is None:
          verdict = size_algebra(repo, f, ctx, n, sub)
          if verdict is None:
            rep.undecided('R1/sizes', '%s yield' % fname, 'requested size not identified', f.loc(sub))
          elif verdict[0]:
            rep.ok('R1/sizes', '%s: yielded group has the requested size (size algebra: %s)' % (where, verdict[1]), loc=f.loc(sub))
          else:
            rep.violation('R1/sizes', f.qualname, 'yield ' + norm(sub.value)[:100],
                          '%s yields `%s` for an admissible size n although the group then has a different size: %s' % (fname, norm(sub.value)[:60], verdict[1]), f.loc(sub))
          continue
        ex = rd.expand(n, sub.value, keep=tuple(f.params))[0]
        txt = norm(ex)
        # form A: FIXED | set(COMB)
        okform = False
        why = ''
        is_set_call = lambda z: isinstance(z, ast.Call) and norm(z.func) == 'set'
        def comb_elements(z):
          """z is a loop variable over set-wrapped combinations: `for z in (set(c) for c in combinations(P, r))` / map(set, ...)."""
          if not isinstance(z, ast.Name):
            return None
          d_ = rd.single_def(n, z.id)
          if d_ is None or d_.how != 'iter':
            return None
          it_ = rd.expand(d_.node, d_.value, keep=tuple(f.params))[0]
          if isinstance(it_, (ast.GeneratorExp, ast.ListComp)) and len(it_.generators) == 1 and not it_.generators[0].ifs and is_set_call(it_.elt) \
              and len(it_.elt.args) == 1 and norm(it_.elt.args[0]) == norm(it_.generators[0].target):
            return it_.generators[0].iter
          if isinstance(it_, ast.Call) and norm(it_.func) == 'map' and len(it_.args) == 2 and norm(it_.args[0]) in ('set', 'frozenset'):
            return it_.args[1]
          return None
        union_of_loopvar = isinstance(ex, ast.BinOp) and isinstance(ex.op, ast.BitOr) and (comb_elements(ex.left) is not None or comb_elements(ex.right) is not None)
        if union_of_loopvar:
          fixed, other = (ex.left, ex.right) if comb_elements(ex.right) is not None else (ex.right, ex.left)
          it = comb_elements(other)
          if isinstance(it, ast.Call) and au.lib_name(f.module, it.func) == 'itertools.combinations' and len(it.args) == 2:
            pool, r = it.args
            rt = norm(rd.expand(n, r, keep=tuple(f.params))[0])
            want = '%s - len(%s)' % (size, norm(fixed))
            disjoint = c01.disjoint_sets(repo, f, n, pool, fixed)
            okform = (rt == want) and disjoint
            why = 'combination size is `%s` (expected `%s`)%s' % (rt, want, '' if disjoint else '; the pool is not disjoint from the fixed geos')
          else:
            rep.undecided('R1/sizes', '%s yield' % fname, 'the yielded union `%s` takes its second part from `%s`, which is not a visible itertools.combinations call' % (txt[:60], norm(it)[:60]), f.loc(sub))
            continue
        elif isinstance(ex, ast.BinOp) and isinstance(ex.op, ast.BitOr) and not (is_set_call(ex.left) or is_set_call(ex.right)) and any(
            isinstance(z, ast.Name) and rd.single_def(n, z.id) is not None and rd.single_def(n, z.id).how == 'iter' for z in (ex.left, ex.right)):
          rep.undecided('R1/sizes', '%s yield' % fname, 'the yielded union `%s` is not of the form fixed | set(combination)' % txt[:80], f.loc(sub))
          continue
        elif isinstance(ex, ast.BinOp) and isinstance(ex.op, ast.BitOr) and (is_set_call(ex.left) or is_set_call(ex.right)):
          fixed, other = ex.left, ex.right
          if isinstance(fixed, ast.Call) and norm(fixed.func) == 'set':
            fixed, other = other, fixed
          if isinstance(other, ast.Call) and norm(other.func) == 'set' and len(other.args) == 1 and isinstance(other.args[0], ast.Name):
            d = rd.single_def(n, other.args[0].id)
            if d is not None and d.how == 'iter':
              it = rd.expand(d.node, d.value, keep=tuple(f.params))[0]
              if isinstance(it, ast.Call) and au.lib_name(f.module, it.func) == 'itertools.combinations' and len(it.args) == 2:
                pool, r = it.args
                rt = norm(r)
                want = '%s - len(%s)' % (size, norm(fixed))
                disjoint = c01.disjoint_sets(repo, f, n, pool, fixed)
                okform = (rt == want) and disjoint
                why = 'combination size is `%s` (expected `%s`)%s' % (rt, want, '' if disjoint else '; the pool is not disjoint from the fixed geos')
        else:
          # form B: FIXED under guard size - len(FIXED) == 0
          facts = pathcond.paths_to(g, lambda m: m is n, back_limit=0)
          okb = bool(facts)
          for p in facts:
            pf = pathcond.PathFacts(p, rd, keep=tuple(f.params))
            if not pf.feasible:
              continue
            want = '%s - len(%s) == 0' % (size, txt)
            if not pf.every_case_has(lambda e, t: t and norm(e) == want):
              okb = False
              why = 'yield of `%s` is not guarded by `%s`' % (txt, want)
          okform = okb
        rep.check(okform, 'R1/sizes', '%s: yielded group has exactly the requested size' % where, f.qualname, 'yield ' + txt[:100],
                  '%s yields `%s`, whose size is not the requested size %s: %s' % (fname, txt[:80], size, why), f.loc(sub))
  return n_y


def size_algebra(repo, f, ctx, n, ysub):
  """Decide `|yielded group| == requested size` when the loop variable is a *function* of the admissible size
  (`for k in sorted({g(m) for m in SIZES})`): the group size F + r(k) (or F for the bare fixed group) is evaluated as a
  closed form on a grid of (m, F) together with the guards of the yield.  Returns (True, why) when the sizes agree on
  the whole grid and symbolically, (False, witness) when a grid point satisfying every guard disagrees, None when the
  construct is not understood."""
  g, rd = ctx.g, ctx.rd
  keep = tuple(f.params)
  # the enclosing loop over transformed sizes
  hdr = None
  for h in g.nodes:
    if h.kind == 'for' and n in g.loop_body_nodes(h) and isinstance(h.ast.target, ast.Name):
      hdr = h if hdr is None or len(g.loop_body_nodes(h)) > len(g.loop_body_nodes(hdr)) else hdr
  if hdr is None:
    return None
  it = rd.expand(hdr, hdr.ast.iter, keep=keep)[0]
  while isinstance(it, ast.Call) and isinstance(it.func, ast.Name) and it.func.id in ('sorted', 'list', 'set', 'tuple', 'reversed', 'frozenset') and len(it.args) == 1:
    it = it.args[0]
  if not (isinstance(it, (ast.SetComp, ast.ListComp, ast.GeneratorExp)) and len(it.generators) == 1 and isinstance(it.generators[0].target, ast.Name)):
    return None
  gen = it.generators[0]
  if not re.fullmatch(r'self\.(_control_group_size_generator|treatment_group_size_range)\(.*\)', norm(gen.iter)):
    return None
  m, v = gen.target.id, hdr.ast.target.id
  ex = rd.expand(n, ysub.value, keep=keep + (v,))[0]
  # shape of the yielded group
  fixed, r = None, None
  is_set_call = lambda z: isinstance(z, ast.Call) and norm(z.func) == 'set'
  if isinstance(ex, ast.BinOp) and isinstance(ex.op, ast.BitOr) and (is_set_call(ex.left) or is_set_call(ex.right)):
    fixed, other = (ex.right, ex.left) if is_set_call(ex.left) else (ex.left, ex.right)
    if not (len(other.args) == 1 and isinstance(other.args[0], ast.Name)):
      return None
    d = rd.single_def(n, other.args[0].id)
    if d is None or d.how != 'iter':
      return None
    comb = rd.expand(d.node, d.value, keep=keep + (v,))[0]
    if not (isinstance(comb, ast.Call) and au.lib_name(f.module, comb.func) == 'itertools.combinations' and len(comb.args) == 2):
      return None
    r = comb.args[1]
  else:
    fixed = ex
  ftxt = norm(fixed)

  class Unknown(Exception):
    pass

  def ev(e, env):
    if isinstance(e, ast.Constant) and isinstance(e.value, (int, bool)):
      return e.value
    if isinstance(e, ast.Name):
      if e.id in env:
        return env[e.id]
      if e.id == ftxt:
        return env['#F'] > 0          # truthiness of the fixed set
      raise Unknown()
    if norm(e) == ftxt:
      return env['#F'] > 0
    if isinstance(e, ast.Call) and isinstance(e.func, ast.Name) and e.func.id == 'len' and len(e.args) == 1 and norm(e.args[0]) == ftxt:
      return env['#F']
    if isinstance(e, ast.Call) and isinstance(e.func, ast.Name) and e.func.id in ('max', 'min') and e.args:
      vals = [ev(a, env) for a in e.args]
      return max(vals) if e.func.id == 'max' else min(vals)
    if isinstance(e, ast.Call) and isinstance(e.func, ast.Name) and e.func.id in ('abs', 'int') and len(e.args) == 1:
      x = ev(e.args[0], env)
      return abs(x) if e.func.id == 'abs' else int(x)
    if isinstance(e, ast.BinOp) and isinstance(e.op, (ast.Add, ast.Sub, ast.Mult)):
      a, b = ev(e.left, env), ev(e.right, env)
      return a + b if isinstance(e.op, ast.Add) else a - b if isinstance(e.op, ast.Sub) else a * b
    if isinstance(e, ast.UnaryOp) and isinstance(e.op, ast.USub):
      return -ev(e.operand, env)
    if isinstance(e, ast.UnaryOp) and isinstance(e.op, ast.Not):
      return not ev(e.operand, env)
    if isinstance(e, ast.BoolOp):
      vals = [bool(ev(x, env)) for x in e.values]
      return all(vals) if isinstance(e.op, ast.And) else any(vals)
    if isinstance(e, ast.Compare) and len(e.ops) == 1:
      a, b = ev(e.left, env), ev(e.comparators[0], env)
      op = e.ops[0]
      table = {ast.Eq: a == b, ast.NotEq: a != b, ast.Lt: a < b, ast.LtE: a <= b, ast.Gt: a > b, ast.GtE: a >= b}
      if type(op) in table:
        return table[type(op)]
    raise Unknown()

  conds = [(rd.expand(tn, e, keep=keep + (v,))[0], taken) for e, taken, tn in cfgmod.dominating_conditions(g, n)
           if tn in g.loop_body_nodes(hdr)]
  agree, witness, unknown = 0, None, False
  for mval in range(0, 6):
    for F in range(0, 5):
      env = {m: mval, '#F': F}
      try:
        if not all(bool(ev(c_, env)) for c_ in gen.ifs):
          continue            # this size is filtered out of the loop
        env[v] = ev(it.elt, env)
        if not all(bool(ev(e, env)) == taken for e, taken in conds):
          continue
        size_ = F + (ev(r, env) if r is not None else 0)
        if r is not None and ev(r, env) < 0:
          continue            # combinations() rejects a negative size: nothing is yielded
      except Unknown:
        unknown = True
        continue
      if size_ == mval:
        agree += 1
      elif witness is None:
        witness = 'for admissible size n=%d with %d fixed geos the loop value is %s and the yielded group has %d geos' % (mval, F, env[v], size_)
  if witness is not None:
    return (False, witness)
  if unknown or agree == 0:
    return None
  return (True, 'group size equals the admissible size on the %d grid points that satisfy the guards' % agree)


def stale_loop_values(view, P_, rep, name):
  """A quantity tested on the way to the push must be computed for the *current* groups: a local that is assigned from
  the loop variable inside the loop over treatment (control) groups, and that can reach a test without having been
  re-assigned in the current iteration, carries the value of a previous group."""
  f, g, rd = view.f, view.g, view.rd
  n_checked = 0
  for grp in (P_.T, P_.C):
    if not isinstance(grp, ast.Name):
      continue
    h = view.loop_binding(P_.node, grp.id)
    if h is None:
      continue
    body = set(g.loop_body_nodes(h))
    for n in body:
      if n.kind != 'test':
        continue
      _, free = rd.expand(n, n.expr)
      for v, ids in free.items():
        defs = rd.defs_at(n, v)
        if len(defs) < 2:
          continue
        inner = []
        for d in defs:
          if d.node in body and d.how == 'assign' and d.value is not None:
            dep = {x.id for x in ast.walk(rd.expand(d.node, d.value, keep=(grp.id,))[0]) if isinstance(x, ast.Name)}
            if grp.id in dep:
              inner.append(d)
        if not inner:
          continue
        n_checked += 1
        defnodes = {d.node for d in rd.defs_at(n, v)} | {m for m in g.nodes if any(x.name == v for x in rd.gen.get(m, ()))}
        start = [m for m, lab in g.succ[h] if lab == 'iter']
        if not start:
          continue
        stale = g.path_avoiding(start[0], lambda m: m is n, lambda m: m in defnodes,
                                lambda a, b, lab: lab != 'exc' and b is not h) if start[0] not in defnodes else None
        if start[0] is n:
          stale = [(n, None)]
        rep.check(stale is None, 'R1/quantities', '%s: %s is recomputed for every %s before it is tested' % (name, v, grp.id), f.qualname,
                  'test `%s` reads %s' % (norm(n.expr)[:60], v),
                  '%s: the test `%s` reads `%s`, which is computed from %s inside the loop but can reach the test without being recomputed in the current iteration: '
                  'the constraint is then evaluated with the value of a previous group' % (name, norm(n.expr)[:80], v, grp.id), f.loc(n.expr))
  return n_checked


def run_search(repo, rep, name, dwc):
  """Enforcement analysis of one search. Returns kappa -> description for C13."""
  view = search.SearchView(repo, name)
  f = view.f
  rep.fn(f)
  g = view.g
  result = {}
  if not view.pushed:
    rep.absent(f, 'R2/must-pass', f.qualname, 'no results.push', '%s never pushes a design' % name, f.loc())
    return result
  tests = tests_of(repo, f)
  for pi, P_ in enumerate(view.pushed):
    if not P_.args or P_.T is None or P_.C is None:
      rep.undecided('R2/must-pass', '%s push #%d' % (name, pi), 'pushed object is not built by TBRMMDesign(...) in this function', f.loc(P_.push_call))
      continue
    T, C = norm(P_.T), norm(P_.C)
    stale_loop_values(view, P_, rep, name)
    # loop headers binding the group expressions
    names = {x.id for x in ast.walk(P_.T) if isinstance(x, ast.Name)} | {x.id for x in ast.walk(P_.C) if isinstance(x, ast.Name)}
    headers = [view.loop_binding(P_.node, nm) for nm in names]
    headers = [h for h in headers if h is not None]
    inner = None
    for h in headers:
      if inner is None or len(g.loop_body_nodes(h)) < len(g.loop_body_nodes(inner)):
        inner = h
    if inner is None:
      rep.undecided('R2/must-pass', '%s push' % name, 'no loop binds the pushed groups', f.loc(P_.push_call))
      continue
    outer = max(headers, key=lambda h: len(g.loop_body_nodes(h)))
    for kappa in CONSTRAINTS:
      where = '%s' % name
      facts = {P + kappa: 'notnone'}
      resolve_at = lambda node, e_: view.rd.expand(node, e_)[0]
      base_ok = lambda a, b, lab: lab != 'exc'
      # (a) in-function range tests on the pushed pair
      want_q = {'treatment_geos_range': 'size:' + T, 'control_geos_range': 'size:' + C}.get(kappa, kappa)
      cands = [(n, iv, others) for (n, iv, others, q) in tests if q == want_q]
      enforced = False
      for n, iv, others in cands:
        ok, why = check_spec(kappa, iv, T, C)
        if ok and kappa == 'budget_range':
          ok, why = budget_provenance(view, n, norm(iv.v), T, C)
        # scope: the loop that binds the variables of v
        vnames = {x.id for x in ast.walk(iv.v) if isinstance(x, ast.Name)}
        hdr = outer if (C not in norm(iv.v) and kappa in ('treatment_share_range', 'treatment_geos_range')) else inner
        one_it = view.one_iteration_edges(hdr)
        ef = cfgmod.edge_filter_under(g, facts, resolve_at=resolve_at,
                                      extra=lambda a, b, lab, n=n, iv=iv: one_it(a, b, lab) and accept_edge_ok(n, iv)(a, b, lab))
        start = [m for m, lab in g.succ[hdr] if lab == 'iter']
        if not start:
          continue
        ef_plain = cfgmod.edge_filter_under(g, facts, resolve_at=resolve_at, extra=one_it)
        bypass = g.path_avoiding(hdr, lambda m: m is P_.node, lambda m: m is n, ef_plain)
        through = g.path_avoiding(hdr, lambda m: m is P_.node, lambda m: False, ef)
        must = bypass is None and through is not None
        if not must:
          # this test does not guard the push; it may be an auxiliary screen (e.g. optimistic budget) — try the next candidate
          continue
        enforced = True
        e = Enforcement(kappa, n, iv, norm(iv.v), f.loc(n.expr), ok, why, iv.closed_lo and iv.closed_hi)
        e.must = True
        e.vacuous = is_vacuous(g, n, iv, kappa, resolve_at, one_it, src=hdr)
        report_enforcement(rep, where, kappa, e, f.qualname)
        result[kappa] = ('test', repr(iv))
        # the rejecting outcome of the enforcing test must not reach the push in the same iteration
        rej_lab0 = 'false' if iv.accept_when else 'true'
        rej_succ0 = [m_ for m_, l_ in g.succ[n] if l_ == rej_lab0]
        polarity_sure = (iv.lo is not None and iv.hi is not None and ok) or half_ok(kappa, iv)
        if polarity_sure and any(m_ is P_.node or P_.node in g.reachable(m_, lambda a, b, lab: one_it(a, b, lab) and lab != 'exc') for m_ in rej_succ0):
          rep.violation('R2/must-pass', f.qualname, '%s: rejecting outcome of %s reaches the push' % (kappa, norm(n.expr)[:80]),
                        '%s: after `%s` has found the %s limit violated, a path still reaches the push in the same iteration (the skip is conditional on something else): designs outside the limit are returned'
                        % (name, norm(n.expr)[:80], kappa), f.loc(n.expr))
        # a limit tested by a separate one-sided comparison must guard the push as well
        if (iv.lo is None) != (iv.hi is None):
          for n2, iv2, others2 in cands:
            if n2 is n or (iv2.lo is None) == (iv2.hi is None) or (iv2.lo is None) == (iv.lo is None):
              continue
            hdr2 = outer if (C not in norm(iv2.v) and kappa in ('treatment_share_range', 'treatment_geos_range')) else inner
            one_it2 = view.one_iteration_edges(hdr2)
            ef2 = cfgmod.edge_filter_under(g, facts, resolve_at=resolve_at, extra=one_it2)
            byp2 = g.path_avoiding(hdr2, lambda m: m is P_.node, lambda m: m is n2,
                                   cfgmod.edge_filter_under(g, facts, resolve_at=resolve_at, extra=lambda a, b, lab, n2=n2, iv2=iv2: one_it2(a, b, lab)))
            thr2 = g.path_avoiding(hdr2, lambda m: m is P_.node, lambda m: False,
                                   cfgmod.edge_filter_under(g, facts, resolve_at=resolve_at,
                                                            extra=lambda a, b, lab, n2=n2, iv2=iv2: one_it2(a, b, lab) and not accept_edge_ok(n2, iv2)(a, b, lab) if (a is n2) else one_it2(a, b, lab)))
            # the rejecting outcome of n2 must not reach the push: is there a path from its rejecting edge to the push within the iteration?
            rej_lab = 'false' if iv2.accept_when else 'true'
            rej_succ = [m_ for m_, l_ in g.succ[n2] if l_ == rej_lab]
            leak = any(P_.node in g.reachable(m_, lambda a, b, lab: one_it2(a, b, lab) and lab != 'exc') or m_ is P_.node for m_ in rej_succ)
            if leak:
              rep.violation('R2/must-pass', f.qualname, '%s: bypass of %s' % (kappa, norm(n2.expr)[:80]),
                            '%s: the %s limit tested by `%s` does not guard the push: after the rejecting outcome of that test a path still reaches the push in the same iteration (the rejection is conditional on something else)'
                            % (name, kappa, norm(n2.expr)[:80]), f.loc(n2.expr))
        break
      if enforced:
        continue
      # (b) a call to design_within_constraints(T, C) guarding the push
      dw = None
      for n in g.nodes:
        if n.kind == 'test':
          e, neg = au.strip_not(n.expr)
          for call in au.calls_in(n.expr):
            if norm(call.func) == 'self.design_within_constraints' and len(call.args) == 2:
              a0 = norm(view.expand(n, call.args[0]))
              a1 = norm(view.expand(n, call.args[1]))
              if (norm(call.args[0]), norm(call.args[1])) == (T, C) or (a0, a1) == (norm(view.expand(P_.design_node, P_.T)), norm(view.expand(P_.design_node, P_.C))):
                dw = (n, call, neg if e is call else None)
      if dw is not None and dwc.get(kappa) is None and kappa in dwc.get('#incomplete', {}):
        rep.undecided('R2/must-pass', '%s: %s' % (name, kappa), 'the push is guarded by design_within_constraints, but %s' % dwc['#incomplete'][kappa], f.loc(dw[0].expr))
        result[kappa] = ('undecided', None)
        continue
      if dw is not None and dwc.get(kappa) is not None:
        n, call, neg = dw
        acc = 'true'
        e0, neg0 = au.strip_not(n.expr)
        # recognised bad shape: `if <other> or design_within_constraints(T, C):` — the accepting branch is taken without the
        # check whenever <other> holds
        if isinstance(e0, ast.BoolOp) and isinstance(e0.op, ast.Or) and not neg0 and any(v is call for v in e0.values):
          succ_t = [m_ for m_, l_ in g.succ[n] if l_ == 'true']
          if succ_t and (P_.node in g.reachable(succ_t[0], view.one_iteration_edges(inner)) or succ_t[0] is P_.node):
            others_ = [norm(v)[:60] for v in e0.values if v is not call]
            rep.undecided('R2/must-pass', '%s: %s' % (name, kappa),
                          'the design_within_constraints guard of the push is short-circuited by `%s`: whether that condition implies the check (a correct memo) or bypasses it is not decided here'
                          % ' or '.join(others_), f.loc(n.expr))
            result[kappa] = ('undecided', None)
            continue
        if e0 is call:
          acc = 'false' if neg0 else 'true'
          one_it = view.one_iteration_edges(inner)
          ef_plain = lambda a, b, lab: one_it(a, b, lab)
          bypass = g.path_avoiding(inner, lambda m: m is P_.node, lambda m: m is n, ef_plain)
          rej = 'false' if acc == 'true' else 'true'
          through = g.path_avoiding(inner, lambda m: m is P_.node, lambda m: False,
                                    lambda a, b, lab: one_it(a, b, lab) and not (a is n and lab == rej))
          must = bypass is None and through is not None
          d = dwc[kappa]
          rep.check(must and d.must, 'R2/must-pass', '%s: push is guarded by design_within_constraints(%s, %s) which enforces %s' % (name, T, C, kappa),
                    f.qualname, '%s: %s' % (kappa, norm(n.expr)[:80]),
                    '%s: the %s constraint is not enforced on the pushed pair (the design_within_constraints guard can be bypassed)' % (name, kappa), f.loc(n.expr))
          report_enforcement(rep, name + ' via design_within_constraints', kappa, d, d.func.qualname)
          result[kappa] = ('dwc', repr(d.iv))
          continue
      # (c) provenance (exhaustive search): sizes and geo ratio come from the generators
      if name == 'exhaustive_search' and kappa in ('treatment_geos_range', 'control_geos_range', 'geo_ratio_tolerance'):
        ok = provenance_sizes(repo, rep, view, P_, kappa)
        result[kappa] = ('provenance', ok)
        continue
      # the constraint is consulted somewhere in the search (or the search calls design_within_constraints on other
      # operands) in a form the rule does not understand: undecided; never consulted: violation
      encl_ = view.loops_enclosing(P_.node)
      near = set(g.loop_body_nodes(encl_[0] if encl_ else outer)) | set(g.loop_body_nodes(outer))        # uses before the loops (e.g. filling in defaults) are not enforcement
      consulted = [m for m in kappa_mentions(f, kappa) if (m is None or m in near)
                   and not (m is not None and m.kind == 'stmt' and isinstance(m.ast, ast.Assign) and isinstance(m.ast.value, ast.Attribute))]
      # values derived from kappa before the loop (bounds computed once) and read inside it
      derived = set()
      for _round in range(4):
        for st_ in ast.walk(f.node):
          if isinstance(st_, ast.Assign) and any((isinstance(x_, ast.Attribute) and x_.attr == kappa) or (isinstance(x_, ast.Name) and x_.id in derived)
                                                  for x_ in ast.walk(st_.value)):
            for t_ in st_.targets:
              derived |= {x_.id for x_ in ast.walk(t_) if isinstance(x_, ast.Name)}
      if derived and not consulted:
        consulted = [m for m in near if any(isinstance(x_, ast.Name) and x_.id in derived and isinstance(x_.ctx, ast.Load)
                                            for e_ in FuncCtx.node_exprs(m) for x_ in ast.walk(e_))]
      dwc_calls = [c_ for n_ in near for e_ in FuncCtx.node_exprs(n_) for c_ in au.calls_in(e_) if norm(c_.func).endswith('design_within_constraints')]
      via_ = [] if (consulted or dwc_calls) else closure_mentions(repo, f, kappa)
      if via_:
        rep.undecided('R2/must-pass', '%s: %s' % (name, kappa), '%s is consulted in %s, reached from %s: the enforcement is not followed there' % (kappa, ', '.join(via_)[:80], name),
                      f.loc(P_.push_call))
        result[kappa] = ('undecided', None)
        continue
      if consulted or (dwc_calls and (dwc.get(kappa) is not None or kappa in dwc.get('#incomplete', {}))):
        rep.undecided('R2/must-pass', '%s: %s' % (name, kappa),
                      '%s is consulted in %s%s but no test guarding the push on (%s, %s) was recognised' % (kappa, name, ' (through design_within_constraints)' if dwc_calls else '', T, C),
                      f.loc(P_.push_call))
        result[kappa] = ('undecided', None)
        continue
      tables_ = table_mentions(f, kappa)
      if tables_:
        rep.undecided('R2/must-pass', '%s: %s' % (name, kappa), '%s is named in the table %s of the module: a table-driven enforcement is not followed' % (kappa, ', '.join(tables_)[:80]),
                      f.loc(P_.push_call))
        result[kappa] = ('undecided', None)
        continue
      v_ = rep.absent(f, 'R2/must-pass', f.qualname, '%s: no check of %s on (%s, %s)' % (name, kappa, T, C),
                      '%s pushes designs without any check of %s on the pushed groups (%s, %s): designs violating the constraint are returned'
                      % (name, kappa, T, C), f.loc(P_.push_call), subject='%s: %s' % (name, kappa))
      result[kappa] = None if v_ is False else ('undecided', None)
  return result


_prov_done = {}


def provenance_sizes(repo, rep, view, P_, kappa):
  """T iterates treatment_group_generator(n) with n from treatment_group_size_range();
  C iterates control_group_generator(T)."""
  f, g, rd = view.f, view.g, view.rd
  T, C = norm(P_.T), norm(P_.C)
  hT = view.loop_binding(P_.node, T) if isinstance(P_.T, ast.Name) else None
  hC = view.loop_binding(P_.node, C) if isinstance(P_.C, ast.Name) else None
  if hT is None or hC is None:
    rep.undecided('R1/sizes', 'exhaustive_search', 'pushed groups are not loop variables', f.loc(P_.push_call))
    return False
  itT = rd.expand(hT, hT.ast.iter)[0]
  itC = rd.expand(hC, hC.ast.iter)[0]
  ok = True
  if kappa == 'treatment_geos_range':
    good = isinstance(itT, ast.Call) and norm(itT.func) == 'self.treatment_group_generator' and len(itT.args) == 1 and isinstance(itT.args[0], ast.Name)
    size_hdr = view.loop_binding(hT, itT.args[0].id) if good else None
    it_e = rd.expand(size_hdr, size_hdr.ast.iter)[0] if size_hdr is not None else None
    # element-preserving wrappers: enumerate(X, ...) (the size is the second target), list/tuple/sorted/reversed/iter(X)
    while isinstance(it_e, ast.Call) and isinstance(it_e.func, ast.Name) and it_e.func.id in ('enumerate', 'list', 'tuple', 'sorted', 'reversed', 'iter') and it_e.args:
      if it_e.func.id == 'enumerate':
        tg = size_hdr.ast.target
        if not (isinstance(tg, (ast.Tuple, ast.List)) and len(tg.elts) == 2 and norm(tg.elts[1]) == itT.args[0].id):
          break
      it_e = it_e.args[0]
    it_n = norm(it_e) if it_e is not None else ''
    good = good and it_n == 'self.treatment_group_size_range()'
    if not good:
      # recognised wrong: the generator is driven by a slice of the size range, or by sizes that do not come from it at all
      narrowed = isinstance(it_e, ast.Subscript) and 'treatment_group_size_range' in it_n
      foreign = it_e is not None and isinstance(itT, ast.Call) and norm(itT.func) == 'self.treatment_group_generator' and 'treatment_group_size_range' not in it_n \
          and isinstance(it_e, (ast.Call, ast.Tuple, ast.List)) and (not isinstance(it_e, ast.Call) or norm(it_e.func) == 'range')
      if not (narrowed or foreign):
        rep.undecided('R2/must-pass', 'exhaustive_search: treatment_geos_range', 'the treatment groups iterate `%s` over sizes `%s`: not the recognised generator/size-range pair'
                      % (norm(itT)[:60], it_n[:60]), f.loc(hT.ast))
        return False
    rep.check(good, 'R2/must-pass', 'exhaustive_search: treatment groups come from treatment_group_generator(n), n over treatment_group_size_range()',
              f.qualname, 'for %s in %s / sizes %s' % (T, norm(itT)[:60], it_n[:60]),
              'exhaustive_search: the pushed treatment group does not come from treatment_group_generator(n) with n over the whole treatment_group_size_range() (iterates `%s` over `%s`): the size range is not enforced'
              % (norm(itT)[:60], it_n[:60]), f.loc(hT.ast))
    ok = ok and good
    if 'tsize' not in _prov_done.setdefault(id(rep), set()):
      _prov_done[id(rep)].add('tsize')
      size_range_function(repo, rep, 'treatment_group_size_range', 'treatment_geos_range', 'treatment_group_size_range')
      generator_exact_size(repo, rep, 'treatment_group_generator', lambda ff, n: ff.params[1], 'treatment_group_generator')
  elif kappa == 'control_geos_range':
    good = isinstance(itC, ast.Call) and norm(itC.func) == 'self.control_group_generator' and len(itC.args) == 1 and norm(itC.args[0]) == T
    if not good and not (isinstance(itC, ast.Call) and norm(itC.func) == 'self.control_group_generator'):
      rep.undecided('R2/must-pass', 'exhaustive_search: control_geos_range', 'the control groups iterate `%s`: not a visible call of control_group_generator' % norm(itC)[:60], f.loc(hC.ast))
      return False
    rep.check(good, 'R2/must-pass', 'exhaustive_search: control groups come from control_group_generator(treatment group)', f.qualname,
              'for %s in %s' % (C, norm(itC)[:60]),
              'exhaustive_search: the pushed control group does not come from control_group_generator(%s) (iterates `%s`)' % (T, norm(itC)[:60]), f.loc(hC.ast))
    ok = ok and good
    if 'csize' not in _prov_done.setdefault(id(rep), set()):
      _prov_done[id(rep)].add('csize')
      size_range_function(repo, rep, '_control_group_size_generator', 'control_geos_range', '_control_group_size_generator')
      cg = repo.cls(search.MM).methods['control_group_generator']
      cctx = FuncCtx.of(cg)

      def csize(ff, n):
        # the yield sits in `for n_control_geos in self._control_group_size_generator(len(T))`
        par = getattr(n.ast, '_parent', None)
        in_loop = False
        while par is not None and par is not ff.node:
          if isinstance(par, (ast.For, ast.While)):
            in_loop = True
          par = getattr(par, '_parent', None)
        if not in_loop:
          return 'NO-LOOP'
        for h in cctx.g.nodes:
          if h.kind == 'for' and n in cctx.g.loop_body_nodes(h):
            it = norm(cctx.rd.expand(h, h.ast.iter, keep=tuple(ff.params))[0])
            if re.fullmatch(r'self\._control_group_size_generator\(len\(%s\)\)' % ff.params[1], it):
              return norm(h.ast.target)
        return None
      generator_exact_size(repo, rep, 'control_group_generator', csize, 'control_group_generator')
  else:   # geo ratio: filter in _control_group_size_generator
    cls = repo.cls(search.MM)
    sg = cls.methods.get('_control_group_size_generator')
    rep.fn(sg)
    sctx = FuncCtx.of(sg)
    tests = tests_of(repo, sg, keep=tuple(sg.params))
    facts = {P + 'geo_ratio_tolerance': 'notnone'}
    npar = sg.params[1]
    found = False
    for n, iv, others, q in tests:
      if q != 'geo_ratio_tolerance':
        continue
      found = True
      loopv = None
      for h in sctx.g.nodes:
        if h.kind == 'for' and n in sctx.g.loop_body_nodes(h):
          loopv = norm(h.ast.target)
          hdr = h
      okspec, why = check_spec('geo_ratio_tolerance', iv, npar, loopv, extra=('%s / %s' % (loopv, npar), '%s / %s' % (npar, loopv)))
      e = Enforcement('geo_ratio_tolerance', n, iv, norm(iv.v), sg.loc(n.expr), okspec, why, iv.closed_lo and iv.closed_hi)
      yields = [m for m in sctx.g.loop_body_nodes(hdr) if m.kind == 'stmt' and any(isinstance(s, (ast.Yield, ast.YieldFrom)) for s in walk_no_nested(m.ast))]
      one_it = lambda a, b, lab: lab != 'exc' and b is not hdr
      bypass = any(sctx.g.path_avoiding(hdr, lambda m, y=y: m is y, lambda m: m is n, one_it) is not None for y in yields)
      through = all(sctx.g.path_avoiding(hdr, lambda m, y=y: m is y, lambda m: False,
                                         lambda a, b, lab: one_it(a, b, lab) and accept_edge_ok(n, iv)(a, b, lab)) is not None for y in yields)
      e.must = bool(yields) and not bypass and through
      # with the tolerance given, no other yield is reachable
      res_sg = lambda node, e_: sctx.rd.expand(node, e_)[0]
      ef = cfgmod.edge_filter_under(sctx.g, facts, resolve_at=res_sg, extra=cfgmod.no_exc)
      other_y = [m for m in sctx.g.reachable(sctx.g.entry, ef) if m.kind == 'stmt' and m not in yields
                 and any(isinstance(s, (ast.Yield, ast.YieldFrom)) for s in walk_no_nested(m.ast))]
      e.must = e.must and not other_y
      e.vacuous = is_vacuous(sctx.g, n, iv, 'geo_ratio_tolerance', res_sg, cfgmod.no_exc)
      report_enforcement(rep, '_control_group_size_generator', 'geo_ratio_tolerance', e, sg.qualname)
      # the size passed in is len(T)
      break
    if not found and (kappa_mentions(sg, 'geo_ratio_tolerance') or closure_mentions(repo, sg, 'geo_ratio_tolerance')):
      rep.undecided('R2/must-pass', '_control_group_size_generator: geo_ratio_tolerance',
                    'geo_ratio_tolerance is consulted in _control_group_size_generator (or a helper it reaches), but no range test on the control:treatment size ratio was recognised', sg.loc())
      ok = False
    elif not found:
      rep.violation('R2/must-pass', sg.qualname, 'no geo-ratio filter', '_control_group_size_generator has no geo-ratio filter: the exhaustive search ignores geo_ratio_tolerance', sg.loc())
      ok = False
    good = isinstance(itC, ast.Call) and norm(itC.func) == 'self.control_group_generator'
    ok = ok and good
  return ok


def run(repo, rep, tier):
  _prov_done.pop(id(rep), None)
  f, dwc = dwc_summary(repo, rep)
  n_enf = 0
  for name in ('exhaustive_search', 'greedy_search'):
    res = run_search(repo, rep, name, dwc)
    n_enf += sum(1 for v in res.values() if v)
    rep.extra.setdefault('enforcement', {})[name] = {k: (v[0] if v else None) for k, v in res.items()}
  rep.floor('(search, constraint) pairs with an enforcement found', n_enf, 12)
  # the shares and series the tests read are those of the data object (C04.R4): share array = geo_share[geo index]
  from mmsa.props import c04
  sub = type(rep)(rep.prop, rep.tier, rep.repo)
  c04.r4_data_object(repo, sub)
  c04.r4_data_memo(repo, sub)
  for i in sub.instances:
    i.rule = 'R1/quantities'
    rep.instances.append(i)
