"""C14 — results best-first and capped; the bounded queue keeps the top k.

Decided: (R1) every path of HeapDict.push, interpreted over an abstract multiset
(net effect as a word over {ins, delmin}), keeps the invariant "queue = top-min(k,n)
of everything pushed" in both cases room (|q|<k) and full (|q|=k); (R2) push
touches only self._result[key]; (R3) get_result returns a fresh dict of fresh
descending lists and mutates nothing; (R4) both searches build the heap with
size=n_designs, push and retrieve under one key, search_results keeps the order,
and both __lt__ compare score < score in the same orientation.
Not decided: behaviour for items whose < is not a strict weak order.
"""
import ast
import re

from mmsa import pathcond, au, cfg as cfgmod, classfx, dataflow
from mmsa.core import Undecided, norm, walk_no_nested

EXPLANATION = (
    'Abstract interpretation of HeapDict.push over multiset transformers (heappush=ins, heappushpop=ins;delmin, '
    'heapreplace=delmin;ins, heappop=delmin) with a case split on |q|-k, all CFG paths enumerated; effect analysis of '
    'get_result (fresh, descending, non-mutating); provenance of the heap size, key and iteration order in both searches; '
    'orientation of both __lt__. Valid for every push sequence and every k >= 0 (induction over pushes).')
RULE_TEXT = 'obligations = (path of push x case), snapshot clauses, search call sites; non-trivial = paths that modify the queue'

HEAP_OPS = {
    'heapq.heappush': ['ins'],
    'heapq.heappushpop': ['ins', 'delmin'],
    'heapq.heapreplace': ['delmin', 'ins'],
    'heapq.heappop': ['delmin'],
}


def _rel_guard(expr, qnames, sizeexprs):
  """Normalise a guard to ('len-size', op, c): len(q) - size  op  c. None if not of that form."""
  if not (isinstance(expr, ast.Compare) and len(expr.ops) == 1):
    return None

  def lin(e):
    """-> (coef_len, coef_size, const) or None"""
    if isinstance(e, ast.Call) and isinstance(e.func, ast.Name) and e.func.id == 'len' and len(e.args) == 1 \
        and norm(e.args[0]) in qnames:
      return (1, 0, 0)
    if norm(e) in sizeexprs:
      return (0, 1, 0)
    ok, v = au.const(e)
    if ok and isinstance(v, int) and not isinstance(v, bool):
      return (0, 0, v)
    if isinstance(e, ast.BinOp) and isinstance(e.op, (ast.Add, ast.Sub)):
      a, b = lin(e.left), lin(e.right)
      if a is None or b is None:
        return None
      s = 1 if isinstance(e.op, ast.Add) else -1
      return (a[0] + s * b[0], a[1] + s * b[1], a[2] + s * b[2])
    return None
  l, r = lin(expr.left), lin(expr.comparators[0])
  if l is None or r is None:
    return None
  cl, cs, cc = l[0] - r[0], l[1] - r[1], l[2] - r[2]
  # cl*len + cs*size + cc  op  0
  op = type(expr.ops[0])
  if cl == 0 and cs in (1, -1):
    # a test of the capacity alone: size op c  (decided below under the documented assumption size >= 1)
    flip = {ast.Lt: ast.Gt, ast.LtE: ast.GtE, ast.Gt: ast.Lt, ast.GtE: ast.LtE, ast.Eq: ast.Eq, ast.NotEq: ast.NotEq}
    if op not in flip:
      return None
    return ('size-only', op if cs == 1 else flip[op], -cc if cs == 1 else cc)
  if (cl, cs) == (1, -1):
    return (op, -cc)
  if (cl, cs) == (-1, 1):
    flip = {ast.Lt: ast.Gt, ast.LtE: ast.GtE, ast.Gt: ast.Lt, ast.GtE: ast.LtE, ast.Eq: ast.Eq, ast.NotEq: ast.NotEq}
    if op not in flip:
      return None
    return (flip[op], cc)
  return None


def _eval_rel(op, d, c):
  return {ast.Lt: d < c, ast.LtE: d <= c, ast.Gt: d > c, ast.GtE: d >= c, ast.Eq: d == c, ast.NotEq: d != c}[op]


def check_push(repo, rep):
  cls = repo.cls('heapdict.HeapDict')
  if 'push' not in cls.methods:
    raise Undecided('HeapDict.push vanished')
  f = cls.methods['push']
  rep.fn(f)
  mod = f.module
  g = cfgmod.CFG(f.node)
  rd = dataflow.Reaching(g)
  params = f.params
  if len(params) < 3:
    raise Undecided('HeapDict.push signature not (self, key, item)')
  selfn, keyn, itemn = params[0], params[1], params[2]
  # size field: the field __init__ stores its size parameter to
  init = cls.methods.get('__init__')
  sizefields, resultfield = set(), None
  if init is None:
    raise Undecided('HeapDict.__init__ vanished')
  cf = classfx.ClassFields(cls)
  for name, node, value, via in cf.stores(init):
    if value is not None and isinstance(value, ast.Name) and value.id in init.params[1:]:
      sizefields.add(name)
    if value is not None and isinstance(value, ast.Call):
      ln = au.lib_name(mod, value.func)
      if ln in ('collections.defaultdict',) and value.args and norm(value.args[0]) == 'list':
        resultfield = name
      elif ln in ('dict',) or isinstance(value, ast.Dict):
        resultfield = resultfield or name
    if value is not None and isinstance(value, ast.Dict):
      resultfield = resultfield or name
  if not sizefields or resultfield is None:
    raise Undecided('cannot identify the size / result fields of HeapDict.__init__')
  sizeexprs = {'%s.%s' % (selfn, s) for s in sizefields}
  qcanon = '%s.%s[%s]' % (selfn, resultfield, keyn)
  # per-key isolation: push writes no instance field other than the queue of its key
  for name, node, value, via in cf.stores(f):
    rep.violation('R2/per-key', f.qualname, 'self.%s = %s' % (name, norm(value)[:50] if value is not None else '...'),
                  'HeapDict.push stores into the instance field %s, which is shared by all keys: what one key keeps then depends on pushes made under other keys'
                  % name, f.loc(node.ast))

  def queue_of(node, e):
    t, _ = rd.canon(node, e)
    # `d.setdefault(k, [])` denotes the queue d[k] (created empty on first use, as the defaultdict does)
    return re.sub(r'(%s\.%s)\.setdefault\((\w+), (\[\]|list\(\))\)' % (re.escape(selfn), re.escape(resultfield)), r'\1[\2]', t)

  # enumerate paths entry -> exit; interpret
  n_paths = 0
  results = {}   # case -> set of net words
  for case, d0 in (('room', -1), ('room', -3), ('full', 0)):
    for path in g.enumerate_paths(g.entry, lambda n: n in (g.exit, g.raise_exit), cfgmod.no_exc, back_limit=0):
      d = d0
      word = []
      feasible = True
      unknown = None
      fenv = {}             # locals naming a heap operation on this path: push = heapq.heappush
      other_guards = []     # guards that are not about the fill level: both outcomes are followed
      raised = path[-1][0] is g.raise_exit
      for i, (n, lab) in enumerate(path):
        nxt = path[i + 1][1] if i + 1 < len(path) else None
        if n.kind == 'test':
          # resolve aliases of the queue inside the guard
          e, _ = rd.expand(n, n.expr)
          e = ast.parse(re.sub(r'(%s\.%s)\.setdefault\((\w+), (\[\]|list\(\))\)' % (re.escape(selfn), re.escape(resultfield)), r'\1[\2]', norm(e)), mode='eval').body
          e, neg_ = au.strip_not(e)
          if neg_:
            nxt = 'false' if nxt == 'true' else 'true'
          r = _rel_guard(e, {qcanon}, sizeexprs)
          if r is not None and r[0] == 'size-only':
            # capacity >= 1 is assumed: `size <= 0` is never true, `size >= 1` always; anything else is left open
            outcomes = {_eval_rel(r[1], sz, r[2]) for sz in range(1, 64)}
            if len(outcomes) == 1:
              if (nxt == 'true') != outcomes.pop():
                feasible = False
                break
              continue
            r = None
          if r is None:
            other_guards.append(('' if nxt == 'true' else 'not ') + norm(e)[:80])
            continue
          v = _eval_rel(r[0], d, r[1])
          if (nxt == 'true') != v:
            feasible = False
            break
        elif n.kind in ('stmt', 'return'):
          if isinstance(n.ast, ast.Assign) and len(n.ast.targets) == 1 and isinstance(n.ast.targets[0], ast.Name):
            lnv = au.lib_name(mod, n.ast.value) if isinstance(n.ast.value, (ast.Attribute, ast.Name)) else None
            if lnv in HEAP_OPS:
              fenv[n.ast.targets[0].id] = lnv
            else:
              fenv.pop(n.ast.targets[0].id, None)
          for call in au.calls_in(n.ast):
            ln = au.lib_name(mod, call.func)
            if isinstance(call.func, ast.Name) and call.func.id in fenv:
              ln = fenv[call.func.id]
            if ln in HEAP_OPS:
              q = queue_of(n, call.args[0]) if call.args else ''
              if q != qcanon:
                rep.violation('R2/per-key', f.qualname, norm(call),
                              'heap operation on %s, not on the queue of the pushed key (%s)' % (q, qcanon), f.loc(call))
              if 'ins' in HEAP_OPS[ln]:
                it = norm(call.args[1]) if len(call.args) > 1 else ''
                if it != itemn:
                  rep.violation('R1/top-k', f.qualname, norm(call), 'pushes %s instead of the item' % it, f.loc(call))
              for o in HEAP_OPS[ln]:
                word.append(o)
                d += 1 if o == 'ins' else -1
            elif ln is not None and ln.startswith('heapq.'):
              unknown = 'unmodelled heap operation %s' % ln
            elif any(queue_of(n, a_) == qcanon for a_ in call.args if not isinstance(a_, ast.Starred)) \
                and not (isinstance(call.func, ast.Name) and call.func.id in ('len', 'bool', 'list', 'sorted', 'tuple', 'iter', 'min', 'max', 'print', 'isinstance', 'id', 'repr', 'str')):
              unknown = 'the queue is handed to `%s`, whose effect on the heap is not modelled' % norm(call.func)[:50]
            elif isinstance(call.func, ast.Attribute) and call.func.attr in (
                'append', 'pop', 'insert', 'remove', 'sort', 'clear', 'extend', 'reverse'):
              tq = queue_of(n, call.func.value)
              if tq == qcanon or tq.startswith('%s.%s' % (selfn, resultfield)):
                unknown = 'list mutation %s on the heap' % norm(call)
          if unknown:
            break
      if not feasible:
        continue
      n_paths += 1
      rep.analysed['paths'] += 1
      if unknown:
        rep.undecided('R1/top-k', 'path of push (%s)' % case, unknown, f.loc())
        continue
      results.setdefault(case, set()).add((tuple(word), raised, d0, tuple(other_guards)))
  want = {'room': ('ins',), 'full': ('ins', 'delmin')}
  for case in ('room', 'full'):
    words = results.get(case, set())
    if not words:
      rep.undecided('R1/top-k', 'push (%s)' % case, 'no feasible path found', f.loc())
      continue
    for word, raised, d0, guards_ in sorted(words):
      okw = (word == want[case]) and not raised
      if guards_ and not okw:
        rep.violation('R1/top-k', f.qualname, 'push case %s under %s: %s' % (case, ' and '.join(guards_), ';'.join(word) or 'none'),
                      'HeapDict.push has a path (taken when %s) on which the net effect on the queue is [%s]%s instead of [%s]: whether a pushed item is kept then depends on '
                      'something other than its rank among the items pushed — the queue no longer holds the k largest items pushed'
                      % (' and '.join(guards_), ';'.join(word) or 'none', ' and raises' if raised else '', ';'.join(want[case])), f.loc())
        continue
      why = {
          'room': 'while fewer than k items are held every pushed item must be kept (net effect ins)',
          'full': 'when k items are held the new item is inserted and the minimum of the result removed (net effect ins;delmin)'}[case]
      rep.check(okw, 'R1/top-k', 'push, case %s (|q|-k=%d): net effect %s' % (case, d0, ';'.join(word) or 'none'),
                f.qualname, 'push case %s: %s%s' % (case, ';'.join(word) or 'none', ' then raise' if raised else ''),
                'HeapDict.push in case %s (|q|-k=%d) has net effect [%s]%s on the queue; %s — the queue no longer holds the k largest items pushed'
                % (case, d0, ';'.join(word) or 'none', ' and raises' if raised else '', why), f.loc())
  rep.floor('feasible (path, case) pairs of push', n_paths, 3)
  # the write-back `self._result[key] = queue` must store the same queue (or be absent)
  for n in g.nodes:
    if n.kind == 'stmt' and isinstance(n.ast, ast.Assign):
      for t in n.ast.targets:
        if isinstance(t, ast.Subscript) and norm(t.value) == '%s.%s' % (selfn, resultfield):
          v = queue_of(n, n.ast.value)
          rep.check(norm(t.slice) == keyn and v == qcanon, 'R2/per-key', 'write-back stores the queue of the same key',
                    f.qualname, norm(n.ast), 'push stores %s under key %s: not the queue of the pushed key' % (v, norm(t.slice)),
                    f.loc(n.ast))
  return selfn, resultfield, sizefields


DESC_OK = 'descending fresh copy'


def classify_snapshot_value(mod, e, qname, sizeexprs):
  """'ok' | ('bad', why) | None(unknown) for the per-key value expression of get_result."""
  if isinstance(e, ast.Call):
    ln = au.lib_name(mod, e.func)
    if ln == 'heapq.nlargest' and len(e.args) >= 2 and norm(e.args[1]) == qname:
      n = norm(e.args[0])
      if n == 'len(%s)' % qname or n in sizeexprs:
        if au.kwarg(e, 'key') is not None:
          return None
        return 'ok'
      return ('bad', 'nlargest(%s, ...) does not return every kept item' % n)
    if ln == 'heapq.nsmallest':
      return ('bad', 'nsmallest returns ascending order')
    if ln == 'sorted' and e.args and norm(e.args[0]) == qname:
      if au.kwarg(e, 'key') is not None:
        return None
      rv = au.kwarg(e, 'reverse')
      if rv is not None and au.is_const(rv, True):
        return 'ok'
      return ('bad', 'sorted(...) without reverse=True is ascending')
    if ln == 'list' and e.args:
      inner = e.args[0]
      if isinstance(inner, ast.Call) and au.lib_name(mod, inner.func) == 'reversed' and inner.args:
        c = classify_snapshot_value(mod, inner.args[0], qname, sizeexprs)
        if isinstance(c, tuple) and 'ascending' in c[1]:
          return 'ok'
        if c == 'ok':
          return ('bad', 'reversed(descending) is ascending')
        return None
      if norm(inner) == qname:
        return ('bad', 'list(queue) is in heap order, not descending')
    if isinstance(e.func, ast.Attribute) and e.func.attr == 'copy' and norm(e.func.value) == qname:
      return ('bad', 'queue.copy() is in heap order, not descending')
  if isinstance(e, ast.Subscript) and isinstance(e.slice, ast.Slice):
    s = e.slice
    if s.lower is None and s.upper is None and s.step is not None and au.is_const(s.step, -1):
      c = classify_snapshot_value(mod, e.value, qname, sizeexprs)
      if isinstance(c, tuple) and 'ascending' in c[1]:
        return 'ok'
      if c == 'ok':
        return ('bad', 'reversing a descending list gives ascending order')
      return None
    if s.lower is None and s.upper is None and s.step is None and norm(e.value) == qname:
      return ('bad', 'queue[:] is in heap order, not descending')
  if norm(e) == qname:
    return ('bad', 'the internal list itself is returned (aliased, heap order)')
  return None


def check_get_result(repo, rep, selfn_push, resultfield, sizefields):
  cls = repo.cls('heapdict.HeapDict')
  if 'get_result' not in cls.methods:
    raise Undecided('HeapDict.get_result vanished')
  f = cls.methods['get_result']
  rep.fn(f)
  mod = f.module
  selfn = f.params[0]
  sizeexprs = {'%s.%s' % (selfn, s) for s in sizefields}
  store = '%s.%s' % (selfn, resultfield)
  # other instance state consulted by the read (a cache of sorted snapshots, say) must be invalidated by push on every
  # path that changes a queue: otherwise what get_result returns depends on when it was called before
  consulted = {x.attr for x in walk_no_nested(f.node)
               if isinstance(x, ast.Attribute) and isinstance(x.value, ast.Name) and x.value.id == selfn and isinstance(x.ctx, ast.Load)
               and x.attr != resultfield and x.attr not in sizefields and x.attr not in cls.methods and x.attr not in cls.getters}
  pf_ = cls.methods.get('push')
  if consulted and pf_ is not None:
    pg = cfgmod.CFG(pf_.node)
    psn = pf_.params[0]
    for fld in sorted(consulted):
      ftxt = '%s.%s' % (psn, fld)

      def invalidates(n_, ftxt=ftxt):
        if n_.kind != 'stmt':
          return False
        for x in ast.walk(n_.ast):
          if isinstance(x, ast.Call) and isinstance(x.func, ast.Attribute) and norm(x.func.value) == ftxt and x.func.attr in ('pop', 'clear', 'popitem'):
            return True
          if isinstance(x, (ast.Attribute, ast.Subscript)) and isinstance(x.ctx, (ast.Store, ast.Del)) and (norm(x) == ftxt or norm(getattr(x, 'value', x)) == ftxt):
            return True
        return False
      heapnodes = [n_ for n_ in pg.nodes if n_.kind in ('stmt', 'return') and n_.ast is not None
                   and any((au.lib_name(pf_.module, c_.func) or '') in HEAP_OPS for c_ in au.calls_in(n_.ast))]
      stale = None
      for hn in heapnodes:
        if invalidates(hn):
          continue
        before = pg.path_avoiding(pg.entry, lambda m: m is hn, invalidates, cfgmod.no_exc)
        after = pg.path_avoiding(hn, lambda m: m is pg.exit, invalidates, cfgmod.no_exc)
        if before is not None and after is not None:
          stale = hn
      rep.check(stale is None, 'R3/snapshot', 'state consulted by get_result (%s) is invalidated by every push that changes a queue' % fld, pf_.qualname,
                'push path through `%s` leaves self.%s untouched' % (norm(stale.ast)[:50] if stale is not None else '', fld),
                'get_result consults self.%s, but push has a path that changes a queue (%s) without invalidating it: after a read, later pushes are not reflected and reading changes what later reads return'
                % (fld, norm(stale.ast)[:60] if stale is not None else ''), pf_.loc(stale.ast) if stale is not None else pf_.loc())
  # no write effect on the heap
  mut = []
  for sub in walk_no_nested(f.node):
    if isinstance(sub, (ast.Assign, ast.AugAssign, ast.Delete)):
      tg = sub.targets if isinstance(sub, (ast.Assign, ast.Delete)) else [sub.target]
      for t in tg:
        if norm(t).startswith(store):
          mut.append(sub)
    if isinstance(sub, ast.Call):
      ln = au.lib_name(mod, sub.func)
      if ln in HEAP_OPS or ln == 'heapq.heapify':
        mut.append(sub)
      if isinstance(sub.func, ast.Attribute) and sub.func.attr in (
          'sort', 'pop', 'append', 'clear', 'reverse', 'remove', 'insert', 'extend', 'popitem', 'update', 'setdefault'):
        mut.append(sub)
  # local aliases of queue lists: loop variables over .items()/.values()
  qvars = set()
  keyvars = {}
  for sub in walk_no_nested(f.node):
    gens = []
    if isinstance(sub, ast.For):
      gens.append((sub.target, sub.iter))
    if isinstance(sub, (ast.DictComp, ast.ListComp, ast.GeneratorExp)):
      gens += [(c.target, c.iter) for c in sub.generators]
    for tgt, it in gens:
      itn = norm(it)
      if itn == store + '.items()' and isinstance(tgt, ast.Tuple) and len(tgt.elts) == 2:
        qvars.add(norm(tgt.elts[1]))
        keyvars[norm(tgt.elts[0])] = True
      elif itn == store + '.values()':
        qvars.add(norm(tgt))
      elif itn in (store, store + '.keys()'):
        keyvars[norm(tgt)] = True
        qvars.add('%s[%s]' % (store, norm(tgt)))
  real_mut = []
  for m in mut:
    if isinstance(m, ast.Call) and isinstance(m.func, ast.Attribute) and m.func.attr in ('sort', 'pop', 'append', 'clear', 'reverse', 'remove', 'insert', 'extend', 'popitem', 'update', 'setdefault'):
      recv = norm(m.func.value)
      if recv in qvars or recv.startswith(store):
        real_mut.append(m)
    elif isinstance(m, ast.Call):
      if m.args and (norm(m.args[0]) in qvars or norm(m.args[0]).startswith(store)):
        real_mut.append(m)
    else:
      real_mut.append(m)
  rep.check(not real_mut, 'R3/snapshot', 'get_result does not modify the queues', f.qualname,
            '; '.join(norm(m) for m in real_mut), 'get_result mutates the stored queues (%s): reading changes the container'
            % '; '.join(norm(m) for m in real_mut), f.loc(real_mut[0]) if real_mut else f.loc())
  # value expressions
  values = []   # (expr, qname)
  ret = [s for s in walk_no_nested(f.node) if isinstance(s, ast.Return) and s.value is not None]
  if len(ret) != 1:
    rep.undecided('R3/snapshot', 'get_result', 'expected exactly one return', f.loc())
    return
  rv = ret[0].value
  fresh = False
  if isinstance(rv, ast.DictComp):
    fresh = True
    for q in qvars:
      values.append((rv.value, q))
    if not keyvars or norm(rv.key) not in keyvars:
      rep.undecided('R3/snapshot', 'get_result', 'dict comprehension key is not the queue key', f.loc(rv))
  elif isinstance(rv, ast.Name):
    # result = {} ... result[key] = value
    inits = [s for s in walk_no_nested(f.node) if isinstance(s, ast.Assign) and len(s.targets) == 1
             and norm(s.targets[0]) == rv.id]
    fresh = len(inits) == 1 and (isinstance(inits[0].value, ast.Dict) and not inits[0].value.keys or norm(inits[0].value) in ('dict()', 'collections.OrderedDict()'))
    for s in walk_no_nested(f.node):
      if isinstance(s, ast.Assign) and len(s.targets) == 1 and isinstance(s.targets[0], ast.Subscript) \
          and norm(s.targets[0].value) == rv.id:
        if norm(s.targets[0].slice) not in keyvars:
          rep.undecided('R3/snapshot', 'get_result', 'result stored under %s, not the queue key' % norm(s.targets[0].slice), f.loc(s))
        for q in qvars:
          values.append((s.value, q))
  else:
    if norm(rv) == store or norm(rv).startswith(store):
      rep.violation('R3/snapshot', f.qualname, norm(ret[0]), 'get_result returns the internal dictionary (aliased, unsorted)', f.loc(ret[0]))
      return
    rep.undecided('R3/snapshot', 'get_result', 'return shape not understood: %s' % norm(rv), f.loc(rv))
    return
  rep.check(fresh, 'R3/snapshot', 'result dictionary is allocated in get_result', f.qualname, norm(ret[0]),
            'get_result does not return a freshly allocated dictionary', f.loc(ret[0]))
  decided = False
  for e, q in values:
    c = classify_snapshot_value(mod, e, q, sizeexprs)
    if c is None:
      continue
    decided = True
    rep.check(c == 'ok', 'R3/snapshot', 'per-key value %s is a fresh descending list of every kept item' % norm(e),
              f.qualname, norm(e), 'get_result value %s: %s' % (norm(e), c[1] if isinstance(c, tuple) else ''), f.loc(e))
    break
  if not decided:
    rep.undecided('R3/snapshot', 'get_result', 'per-key value expression not understood: %s' % '; '.join(norm(e) for e, q in values[:2]), f.loc())


def _strip_tuple(e):
  while isinstance(e, ast.Call) and isinstance(e.func, ast.Name) and e.func.id == 'tuple' and len(e.args) == 1:
    e = e.args[0]
  return e


def _cmp_kind(c, a, b):
  """Classify a comparison between the two scores: 'lt' (own < other), 'ge', 'eq', ... or None."""
  if not (isinstance(c, ast.Compare) and len(c.ops) == 1):
    return None
  l, r, op = norm(_strip_tuple(c.left)), norm(_strip_tuple(c.comparators[0])), type(c.ops[0])
  sa, sb = '%s.score' % a, '%s.score' % b
  names = {ast.Lt: 'lt', ast.LtE: 'le', ast.Gt: 'gt', ast.GtE: 'ge', ast.Eq: 'eq', ast.NotEq: 'ne'}
  flip = {'lt': 'gt', 'le': 'ge', 'gt': 'lt', 'ge': 'le', 'eq': 'eq', 'ne': 'ne'}
  if op not in names:
    if op in (ast.Is,) and {l, r} == {a, b}:
      return 'same'
    return None
  if (l, r) == (sa, sb):
    return names[op]
  if (l, r) == (sb, sa):
    return flip[names[op]]
  return None


def check_lt(repo, rep):
  """Both __lt__ must be exactly "own score < other score" on every path."""
  n = 0
  for q in ('tbrmmdesign.TBRMMDesign', 'tbrmmscore.TBRMMScore'):
    cls = repo.cls(q)
    f = cls.methods.get('__lt__')
    if f is None:
      rep.absent_in_class(cls, 'R4/order', q, '__lt__ missing', '%s defines no __lt__: designs cannot be ordered by score' % q, cls.loc())
      continue
    rep.fn(f)
    n += 1
    a, b = f.params[0], f.params[1]
    g = cfgmod.CFG(f.node)
    rd_lt = dataflow.Reaching(g)
    for path in g.enumerate_paths(g.entry, lambda x: x in (g.exit, g.raise_exit), cfgmod.no_exc, back_limit=0):
      rep.analysed['paths'] += 1
      pf_lt = pathcond.PathFacts(path, rd_lt, keep=(a, b))
      if not pf_lt.feasible:
        continue
      ret = [x for x, lab in path if x.kind == 'return']
      guards = []
      for i, (x, lab) in enumerate(path):
        if x.kind == 'test':
          e, neg = au.strip_not(rd_lt.expand(x, x.expr, keep=(a, b), pathenv=pf_lt.env)[0])
          taken = path[i + 1][1] == 'true'
          guards.append((e, taken != neg))
      if not ret or ret[0].ast.value is None:
        rep.violation('R4/order', f.qualname, '__lt__ path without a comparison result',
                      '%s.__lt__ has a path that returns nothing / raises: designs are not totally ordered by score' % q, f.loc())
        continue
      rv = rd_lt.expand(ret[0], ret[0].ast.value, keep=(a, b), pathenv=pf_lt.env)[0]
      if isinstance(rv, ast.Call) and isinstance(rv.func, ast.Name) and rv.func.id == 'bool' and len(rv.args) == 1:
        rv = rv.args[0]
      kind = _cmp_kind(rv, a, b)
      if kind == 'lt' and not guards:
        rep.ok('R4/order', '%s.__lt__ is score < score' % q, loc=f.loc(rv))
        continue
      # guarded forms: accept only guards that imply the returned value under the tuple order
      implied = None
      if kind == 'lt':
        implied = True   # returning the canonical comparison is right under any guard
      else:
        okc, cv = au.const(rv)
        if okc and isinstance(cv, bool):
          for ge, truth in guards:
            k = _cmp_kind(ge, a, b)
            if k is None:
              continue
            facts = {('eq', True): False, ('ge', True): False, ('gt', True): False, ('same', True): False,
                     ('lt', True): True, ('lt', False): False, ('ne', False): False, ('le', False): False}
            if (k, truth) in facts and facts[(k, truth)] == cv:
              implied = True
      if implied:
        rep.ok('R4/order', '%s.__lt__ path returns %s consistently with score < score' % (q, norm(rv)), loc=f.loc(rv))
      elif kind is None and not (au.const(rv)[0] and isinstance(au.const(rv)[1], bool)) and au.aliens(rv, (a, b)):
        # neither the canonical comparison nor a recognised different relation between the two scores
        rep.undecided('R4/order', '%s.__lt__' % q, 'the returned value `%s` is not a recognised comparison of the two scores' % norm(rv)[:80], f.loc(ret[0].ast))
      else:
        gtxt = ' and '.join(('' if t else 'not ') + norm(e) for e, t in guards) or 'always'
        rep.violation('R4/order', f.qualname, 'return %s [%s]' % (norm(rv), gtxt),
                      '%s.__lt__ returns `%s` when %s: that is not "own score tuple strictly below the other", so the heap keeps / orders designs by a different relation'
                      % (q, norm(rv), gtxt), f.loc(rv))
  rep.floor('__lt__ definitions', n, 2)


def check_searches(repo, rep):
  mm = repo.cls('tbrmatchedmarkets.TBRMatchedMarkets')
  keys = []
  n_sites = 0
  for name in ('exhaustive_search', 'greedy_search'):
    f = mm.methods.get(name)
    if f is None:
      raise Undecided('search %s vanished' % name)
    rep.fn(f)
    g = cfgmod.CFG(f.node)
    rd = dataflow.Reaching(g)
    mod = f.module
    # heap allocations
    allocs = []
    for n in g.nodes:
      if n.kind == 'stmt' and isinstance(n.ast, ast.Assign) and isinstance(n.ast.value, ast.Call):
        r = repo.resolve_dotted(mod, core_dotted(n.ast.value.func))
        if r and r[0] == 'class' and r[1].name == 'HeapDict':
          allocs.append(n)
    pushes = []
    for n in g.nodes:
      for e in classfx._node_exprs(n):
        for call in au.calls_in(e):
          if isinstance(call.func, ast.Attribute) and call.func.attr == 'push':
            pushes.append((n, call))
    if allocs:
      rep.ok('R4/search', '%s allocates its result heap' % name, loc=f.loc())
    else:
      rep.absent(f, 'R4/search', f.qualname, 'no HeapDict(...) allocation', '%s does not allocate a result heap of its own' % name, f.loc(),
                 subject='%s allocates its result heap' % name)
    for a in allocs:
      n_sites += 1
      call = a.ast.value
      size = au.arg(call, 0, 'size')
      t, _ = rd.canon(a, size) if size is not None else ('', None)
      rep.check(t == 'self.parameters.n_designs', 'R4/search', '%s: heap capacity is n_designs' % name, f.qualname, norm(call),
                '%s builds its result heap with capacity %s instead of self.parameters.n_designs: more or fewer than n_designs designs are returned'
                % (name, t), f.loc(call))
    for n, call in pushes:
      n_sites += 1
      recv = call.func.value
      d = rd.single_def(n, recv.id) if isinstance(recv, ast.Name) else None
      okrecv = d is not None and any(d.node is a for a in allocs)
      rep.check(okrecv, 'R4/search', '%s pushes into the heap it allocated' % name, f.qualname, norm(call),
                '%s pushes into %s, which is not the heap allocated by this search' % (name, norm(recv)), f.loc(call))
      if call.args:
        keys.append((name, norm(call.args[0]), call, f))
    # the heap is what the search stores as _search_results
    stored = [n for n in g.nodes if n.kind == 'stmt' and isinstance(n.ast, ast.Assign)
              and any(norm(t) == 'self._search_results' for t in n.ast.targets)]
    for s in stored:
      v = s.ast.value
      d = rd.single_def(s, v.id) if isinstance(v, ast.Name) else None
      if isinstance(v, ast.Call) and any(c_ is v for c_, _ in au.delegations(repo, f)) or \
          (isinstance(v, ast.Call) and isinstance(v.func, ast.Attribute) and isinstance(v.func.value, ast.Name)
           and any(isinstance(c_, ast.Call) and (lambda dd: dd is not None and dd.value is c_)(rd.single_def(s, v.func.value.id)) for c_, _ in au.delegations(repo, f))):
        rep.undecided('R4/search', '%s stores its own heap as the result' % name, 'the stored value `%s` is produced by repository code that is not followed' % norm(v)[:60], f.loc(s.ast))
        continue
      rep.check(d is not None and any(d.node is a for a in allocs), 'R4/search', '%s stores its own heap as the result' % name,
                f.qualname, norm(s.ast), '%s stores %s as result heap, not the heap it filled' % (name, norm(v)), f.loc(s.ast))
    if not stored:
      rep.violation('R4/search', f.qualname, 'no store to self._search_results', '%s never installs its heap as self._search_results' % name, f.loc())
  rep.floor('heap construction/push sites in the searches', n_sites, 4)
  # retrieval
  f = mm.methods.get('search_results')
  if f is None:
    raise Undecided('search_results vanished')
  rep.fn(f)
  g = cfgmod.CFG(f.node)
  rd = dataflow.Reaching(g)
  rets = [n for n in g.nodes if n.kind == 'return']
  # an early `return []` (nothing retained) cannot reorder anything
  rets = [n for n in rets if not (isinstance(n.ast.value, ast.List) and not n.ast.value.elts)]
  outvars = {norm(n.ast.value) for n in rets if n.ast.value is not None}
  if len(outvars) != 1 or not all(isinstance(n.ast.value, ast.Name) for n in rets):
    rep.undecided('R4/order', 'search_results', 'return shape not understood', f.loc())
    return
  out = outvars.pop()
  loops = [n for n in g.nodes if n.kind == 'for']
  appends = []
  others = []
  for n in g.nodes:
    for e in classfx._node_exprs(n):
      for call in au.calls_in(e):
        if isinstance(call.func, ast.Attribute) and norm(call.func.value) == out:
          (appends if call.func.attr == 'append' else others).append((n, call))
      if isinstance(e, ast.Assign) and any(norm(t) == out for t in e.targets):
        if not (isinstance(e.value, ast.List) and not e.value.elts):
          others.append((n, e))
  bad_other = [(n, c) for n, c in others if not (isinstance(c, ast.Call) and c.func.attr in ('copy', 'index', 'count'))]
  rep.check(not bad_other, 'R4/order', 'search_results: nothing reorders the output list', f.qualname,
            '; '.join(norm(c) for n, c in bad_other),
            'search_results modifies its output list other than by append (%s): the heap order is not preserved'
            % '; '.join(norm(c) for n, c in bad_other), f.loc(bad_other[0][1]) if bad_other else f.loc())
  if len(loops) != 1 or len(appends) != 1:
    rep.undecided('R4/order', 'search_results', 'expected one loop with one append (found %d loops, %d appends)' % (len(loops), len(appends)), f.loc())
    return
  loop = loops[0]
  an, ac = appends[0]
  body = g.loop_body_nodes(loop)
  # every iteration appends exactly once: no path iter -> back to header avoiding the append
  p = g.iteration_skipping(loop, [an])
  leaves = [n for n in g.nodes if n.kind in ('break', 'return') and any(x is n.ast for x in ast.walk(loop.ast))]
  p = p or (leaves and [(leaves[0], None)])
  rep.check(any(x is an.ast for x in ast.walk(loop.ast)) and not p, 'R4/order', 'search_results appends once per retrieved design', f.qualname,
            'for %s: %s' % (norm(loop.ast.target), norm(ac)),
            'some iteration of the retrieval loop does not append its design (a design is dropped or the loop is left early)', f.loc(ac))
  # iterated sequence = get_result()[KEY] in heap order
  it, _ = rd.canon(loop, loop.ast.iter)
  import re
  m = re.fullmatch(r'self\._search_results\.get_result\(\)\[([^\]]+)\]', it) or \
      re.fullmatch(r'self\._search_results\.get_result\(\)\[([^\]]+)\] if self\._search_results\.get_result\(\) else \[\]', it) or \
      re.fullmatch(r'self\._search_results\.get_result\(\)\.get\(([^,\]]+), (\[\]|\(\))\)', it)
  if not m:
    bad = None
    for w in ('reversed(', 'sorted(', '[::-1]', 'set('):
      if w in it and 'self._search_results.get_result()' in it:
        bad = w
    if bad:
      rep.violation('R4/order', f.qualname, 'for ... in %s' % it, 'search_results iterates %s: the best-first order of the heap snapshot is changed' % it, f.loc(loop.ast))
    else:
      rep.undecided('R4/order', 'search_results', 'iterated sequence not understood: %s' % it, f.loc(loop.ast))
    return
  rkey = m.group(1)

  def _const_key(txt_, fn_):
    """A module-level constant naming the key (DESIGNS_KEY = 0) is that key."""
    v_ = fn_.module.assigns.get(txt_) if txt_.isidentifier() else None
    return norm(v_) if isinstance(v_, ast.Constant) else txt_
  rkey = _const_key(rkey, f)
  for name, k, call, sf in keys:
    k = _const_key(k, sf)
    rep.check(k == rkey, 'R4/search', '%s pushes under the key search_results reads (%s)' % (name, rkey), sf.qualname, norm(call),
              '%s pushes under key %s but search_results reads key %s' % (name, k, rkey), sf.loc(call))
  # appended element derives from the loop variable
  tv = norm(loop.ast.target)
  used = {x.id for x in ast.walk(ac) if isinstance(x, ast.Name)}
  rep.check(tv in used, 'R4/order', 'appended element is built from the iterated design', f.qualname, norm(ac),
            'the element appended by search_results does not derive from the iterated design %s' % tv, f.loc(ac))


def core_dotted(e):
  from mmsa.core import dotted
  return dotted(e)


def run(repo, rep, tier):
  selfn, resultfield, sizefields = check_push(repo, rep)
  check_get_result(repo, rep, selfn, resultfield, sizefields)
  check_lt(repo, rep)
  check_searches(repo, rep)
  rep.assume('items pushed are totally ordered by < (TBRMMDesign compares score tuples)')
