"""C18 — pointwise and cumulative effect series are well-formed for any experiment.

Decided: (R1) column algebra of the general branch: counterfactual + pointwise
difference == observed treatment series for the estimate and with the bounds
crossed (cf.lower + pw.upper, cf.upper + pw.lower); pre-period pointwise bounds
are the regression residuals themselves; fixed-cost branch: zero counterfactual,
difference == cost; (R2) cumulative bounds are quantiles of the same posterior
object whose first differences give the pointwise bounds; the cumulative
estimate is the cumulative sum of the same causal effect restricted to
experiment dates; (R3) quantile ordering for tail_probability (interval domain,
case split on tails); (R4) every returned series is wrapped in the validating
container, whose guards reject lower > estimate and upper < estimate;
(R5) inputs: analysis data built by sorted per-(group, date) aggregation
(C06.R1) and cached fields reset across fit() (C08 discipline).
Not decided: monotonicity of the posterior scale in t (needed for the pointwise
lower <= estimate <= upper, numeric); equality with posterior quantiles on the
last date.
"""
import ast
import re

import sympy

from mmsa import au, canon, cfg as cfgmod, dataflow, pathcond, sym, tbrrules
from mmsa.core import Undecided, norm, walk_no_nested
from mmsa.props import c08
from mmsa.types import FuncCtx

CLS = 'tbr_iroas.TBRiROAS'
EXPLANATION = (
    'Value numbering of the column dictionaries of estimate_pointwise_and_cumulative_effect into sympy terms (array expressions '
    'element-wise), same-distribution provenance by reaching definitions, interval domain for tail_probability, structure of the '
    'validating container, plus the shared TBR aggregation and cache-discipline rules.')
RULE_TEXT = 'one obligation per linear identity, per provenance clause, per (tails, quantile) pair and per container guard'


def dict_of(call):
  if call.args and isinstance(call.args[0], ast.Dict):
    return {au.const(k)[1]: v for k, v in zip(call.args[0].keys, call.args[0].values)}
  return None


def run(repo, rep, tier):
  cls = repo.cls(CLS)
  f = cls.methods.get('estimate_pointwise_and_cumulative_effect')
  if f is None:
    raise Undecided('estimate_pointwise_and_cumulative_effect vanished')
  rep.fn(f)
  ctx = FuncCtx.of(f)
  g, rd = ctx.g, ctx.rd
  # containers per variable name and branch
  conts = {}
  seen_sites = []
  roles = ('counterfactual_df', 'pointwise_difference_df', 'cumulative_effect_df')
  # the three series are identified by their position in the returned TimeSeries(...), whatever the locals are called
  for r in [x for x in g.nodes if x.kind == 'return' and x.ast.value is not None]:
    rv = r.ast.value
    if not (isinstance(rv, ast.Call) and norm(rv.func).endswith('TimeSeries') and len(rv.args) == 3 and not rv.keywords):
      if isinstance(rv, ast.Tuple) and len(rv.elts) == 3:
        rv = ast.Call(func=ast.Name(id='TimeSeries', ctx=ast.Load()), args=list(rv.elts), keywords=[])
      else:
        continue
    for name, arg in zip(roles, rv.args):
      sites = [(r, arg)]
      if isinstance(arg, ast.Name):
        sites = []
        for d in sorted(rd.defs_at(r, arg.id), key=lambda d_: d_.node.id):
          if d.how != 'assign' or d.value is None:
            rep.undecided('R4/container', name, 'a definition of the returned %s is not an assignment' % name, f.loc(r.ast))
            continue
          sites.append((d.node, d.value))
      for n, call in sites:
        if not isinstance(call, ast.Call):
          rep.undecided('R4/container', name, 'the returned %s is not built by a call: %s' % (name, norm(call)[:60]), f.loc(r.ast))
          continue
        fn = norm(rd.expand(n, call.func)[0])      # a local alias of the container class is looked through
        ok = fn.endswith('EstimatedTimeSeriesWithConfidenceInterval')
        if not ok and not (fn.split('.')[-1][:1].isupper() or fn.startswith('pd.') or fn.startswith('pandas.')):
          rep.undecided('R4/container', name, 'the returned %s is built by `%s(...)`: a helper whose result type is not followed' % (name, fn[-50:]), f.loc(call))
          continue
        rep.check(ok, 'R4/container', '%s is built by the validating container' % name, f.qualname, '%s = %s(...)' % (name, fn[-50:]),
                  '%s is built by %s, not by the container that enforces lower <= estimate <= upper' % (name, fn), f.loc(call))
        if (n, call) not in [(a_, b_) for a_, b_ in seen_sites]:
          seen_sites.append((n, call))
          conts.setdefault(name, []).append((n, dict_of(call)))
  rep.floor('series containers constructed', sum(len(v) for v in conts.values()), 6)
  # which branch is the fixed-cost one: dominated by the true branch of the scenario test
  test = [n for n in g.nodes if n.kind == 'test' and '_is_fixed_cost_scenario()' in norm(n.expr)]
  if len(test) != 1:
    rep.undecided('R1/column-algebra', 'branches', 'scenario test not found', f.loc())
    return
  tb = [m for m, lab in g.succ[test[0]] if lab == 'true'][0]
  fixed_nodes = g.reachable(tb, lambda a, b, lab: lab != 'exc' and not (b in [x for x, l in g.succ[test[0]] if l == 'false']))
  fb = [m for m, lab in g.succ[test[0]] if lab == 'false'][0]
  gen_reach = g.reachable(fb, cfgmod.no_exc)
  fix_reach = g.reachable(tb, cfgmod.no_exc)

  def pick(name, general):
    for n, d in conts.get(name, []):
      ing, inf_ = n in gen_reach, n in fix_reach
      if general and ing and not inf_:
        return n, d
      if (not general) and inf_ and not ing:
        return n, d
    return None, None
  # general branch identities
  cn, cf = pick('counterfactual_df', True)
  pn, pw = pick('pointwise_difference_df', True)
  un, cu = pick('cumulative_effect_df', True)
  if not (cf and pw and cu):
    rep.undecided('R1/column-algebra', 'general branch', 'column dictionaries not found', f.loc())
    return
  # the local naming the chosen model (metric_df in the pinned code): assigned self.tbr_response / self.tbr_cost
  mname = 'metric_df'
  for n_ in g.nodes:
    if n_.kind == 'stmt' and isinstance(n_.ast, ast.Assign) and isinstance(n_.ast.targets[0], ast.Name) and norm(n_.ast.value) in ('self.tbr_response', 'self.tbr_cost'):
      mname = n_.ast.targets[0].id
  cn_ = canon.of(repo)

  def mtext(e):
    """Canonical text with the model local renamed to metric_df."""
    e = cn_.expr(e)
    for x in ast.walk(e):
      if isinstance(x, ast.Name) and x.id == mname:
        x.id = 'metric_df'
    return norm(e)
  keep = ('treat_vec', 'lower', 'upper', 'pointwise_difference')
  S = {}

  def leaf(e):
    t = norm(e)
    return S.setdefault(t, sympy.Symbol('s%d' % len(S))) if not isinstance(e, (ast.BinOp, ast.UnaryOp, ast.Constant)) else None

  def term(node, e):
    return sym.to_sym(rd.expand(node, e, keep=keep)[0], leaf)
  tv = None
  for n in g.nodes:
    if n.kind == 'stmt' and isinstance(n.ast, ast.Assign) and norm(n.ast.targets[0]) == 'treat_vec':
      tv = n
  obs = leaf(ast.Name(id='treat_vec', ctx=ast.Load()))
  for a, b, what in (('estimate', 'estimate', 'counterfactual + difference == observed'), ('lower', 'upper', 'counterfactual lower + difference upper == observed'),
                     ('upper', 'lower', 'counterfactual upper + difference lower == observed')):
    try:
      resid = sympy.simplify(term(cn, cf[a]) + term(pn, pw[b]) - obs)
      ok = resid == 0
      # the identity is linear: decided when the residue cancels; a residue over opaque terms is a recognised mismatch only
      # when both columns are built from the two known series (observed, bounds) alone
      closed = not (au.aliens(rd.expand(cn, cf[a], keep=keep)[0], set(keep) | {mname}) or au.aliens(rd.expand(pn, pw[b], keep=keep)[0], set(keep) | {mname}))
    except (Undecided, KeyError):
      ok, closed = False, False
    rep.check3(True if ok else (False if closed else None), 'R1/column-algebra', what, f.qualname, 'cf.%s=%s ; pw.%s=%s' % (a, norm(cf.get(a))[:50] if cf.get(a) is not None else '?', b, norm(pw.get(b))[:50] if pw.get(b) is not None else '?'),
              'in the effect-series report %s does not hold: counterfactual %s is `%s` and pointwise %s is `%s`' % (
                  what, a, norm(cf.get(a))[:60] if cf.get(a) is not None else '?', b, norm(pw.get(b))[:60] if pw.get(b) is not None else '?'), f.loc(cn.ast),
               why_open='the columns read names the expansion did not resolve')
  if tv is not None:
    t = norm(rd.expand(tv, tv.ast.value, keep=('metric_data', 'metric_col'))[0])
    rep.check_term(t == 'metric_data.loc[metric_data[self.df_names.group] == self.groups.treatment, metric_col].reset_index(drop=True)', t, ('metric_data', 'metric_col'), 'R1/column-algebra',
              'observed series = treatment rows of the metric', f.qualname, 'treat_vec = ' + t[:120], 'the observed series is `%s`' % t[:100], f.loc(tv.ast),
              want='metric_data.loc[metric_data[self.df_names.group] == self.groups.treatment, metric_col].reset_index(drop=True)')
  # pointwise bounds: pre-period residuals followed by first differences of the cumulative quantiles of ONE distribution
  dist = None
  for bound, qarg in (('lower', 'tail_probability'), ('upper', '1 - tail_probability')):
    defs = sorted([d for d in rd.defs_at(pn, bound)], key=lambda d: d.node.lineno)
    if not defs:
      rep.undecided('R2/same-distribution', bound, 'no definition', f.loc())
      continue
    d = defs[-1]
    KEEP_ = ('delta_metric', 'pointwise_difference', 'test_start_date', 'tail_probability')
    if d.how == 'unpack' and len(defs) == 1:
      # lower, upper = (E(q) for q in (p, 1 - p)): the element at the target's position
      val_ = rd.expand(pn, ast.Name(id=bound, ctx=ast.Load()), keep=KEEP_)[0]
      if isinstance(val_, ast.Name) and val_.id == bound:
        rep.undecided('R2/same-distribution', bound, 'the bound is one element of an unpacked sequence that is not followed', f.loc(d.node.ast))
        continue
      d = type('D', (), {'node': d.node, 'value': val_, 'how': 'assign'})()
    t = norm(rd.expand(d.node, d.value, keep=KEEP_, depth=3)[0])
    pat = r"np\.concatenate\(\(pointwise_difference\.loc\[pointwise_difference\['date'\] < test_start_date, 'metric'\]\.to_numpy\(\), np\.diff\((\w+)\.ppf\(%s\), prepend=0\)\)\)" % re.escape(qarg)
    m = re.fullmatch(pat, t)
    rep.check_term(m is not None, rd.expand(d.node, d.value, keep=('delta_metric', 'pointwise_difference', 'test_start_date', 'tail_probability'))[0],
                   ('delta_metric', 'pointwise_difference', 'test_start_date', 'tail_probability', mname), 'R2/same-distribution', 'pointwise %s = [pre-period residuals, first differences of the cumulative %s quantile]' % (bound, qarg), f.qualname,
              '%s = %s' % (bound, t[:160]), 'the pointwise %s bound is `%s`: not the residuals before the test followed by the first differences of the cumulative posterior quantile at %s'
              % (bound, t[:140], qarg), f.loc(d.node.ast))
    if m:
      dist = dist or m.group(1)
      rep.check(m.group(1) == dist, 'R2/same-distribution', 'both pointwise bounds use one posterior object', f.qualname, m.group(1), 'bounds use different posterior objects', f.loc(d.node.ast))
  for bound, qarg in (('lower', 'tail_probability'), ('upper', '1 - tail_probability')):
    t = norm(rd.expand(un, cu[bound], keep=tuple(x for x in (dist, 'tail_probability') if x))[0]) if bound in cu else ''
    if dist is None:
      rep.undecided('R2/same-distribution', 'cumulative %s' % bound, 'the posterior object of the pointwise bounds was not identified', f.loc(un.ast))
      continue
    def same_quantile(txt):
      """dist.ppf(Q) with Q equal to the expected tail probability as an expression; dist.interval(c)[i] is read as the
      (1-c)/2 resp. 1-(1-c)/2 quantile."""
      m1 = re.fullmatch(r'%s\.interval\((.+)\)\[(0|1)\]' % re.escape(dist), txt)
      if m1:
        txt = '%s.ppf(%s)' % (dist, '(1 - (%s)) / 2' % m1.group(1) if m1.group(2) == '0' else '1 - (1 - (%s)) / 2' % m1.group(1))
      m2 = re.fullmatch(r'%s\.ppf\((.+)\)' % re.escape(dist), txt)
      if not m2:
        return False
      try:
        a_, b_ = (sym.to_sym(ast.parse(x_, mode='eval').body) for x_ in (m2.group(1), qarg))
        return sympy.simplify(a_ - b_) == 0
      except Exception:
        return False
    rep.check_term(t == '%s.ppf(%s)' % (dist, qarg) or same_quantile(t), t, (dist, 'tail_probability', mname), 'R2/same-distribution', 'cumulative %s = posterior quantile at %s of the same object' % (bound, qarg), f.qualname,
              'cumulative %s = %s' % (bound, t[:80]), 'the cumulative %s bound is `%s`, not the %s quantile of the posterior whose differences give the pointwise bounds' % (bound, t[:80], qarg), f.loc(un.ast))
  if dist:
    dd = rd.single_def(un, dist)
    t = mtext(rd.expand(dd.node, dd.value, keep=(mname,))[0]) if dd is not None and dd.value is not None else ''
    rep.check_term(t == 'metric_df.causal_cumulative_distribution()', t, ('metric_df',), 'R2/same-distribution', 'the posterior is the cumulative distribution of the chosen metric', f.qualname,
              '%s = %s' % (dist, t), 'the posterior object is `%s`' % t, f.loc())
  et = mtext(rd.expand(un, cu['estimate'], keep=(mname, 'periods', 'test_start_date', 'cooldown_end_date'), depth=4)[0]) if 'estimate' in cu else ''
  want = cn_.ctext("np.cumsum(metric_df.causal_effect(periods)).reset_index().rename(columns={0: 'metric'}).loc[np.cumsum(metric_df.causal_effect(periods)).reset_index().rename(columns={0: 'metric'})['date'].between(test_start_date, cooldown_end_date), 'metric']")
  rep.check_term(et == want, et, ('metric_df', 'periods', 'test_start_date', 'cooldown_end_date'), 'R2/same-distribution', 'cumulative estimate = cumsum of the causal effect restricted to experiment dates', f.qualname, 'estimate = ' + et[:200],
            'the cumulative estimate is `%s`' % et[:180], f.loc(un.ast), want=want)
  pe = mtext(rd.expand(pn, pw['estimate'], keep=(mname, 'periods'), depth=4)[0])
  rep.check_term(pe == "metric_df.causal_effect(periods).reset_index().rename(columns={0: 'metric'})['metric']", pe, ('metric_df', 'periods'), 'R2/same-distribution',
            'pointwise estimate = causal effect over pre, test and cooldown periods', f.qualname, 'estimate = ' + pe[:140], 'the pointwise estimate is `%s`' % pe[:120], f.loc(pn.ast),
            want="metric_df.causal_effect(periods).reset_index().rename(columns={0: 'metric'})['metric']")
  # fixed-cost branch
  cn2, cf2 = pick('counterfactual_df', False)
  pn2, pw2 = pick('pointwise_difference_df', False)
  if cf2 and pw2:
    z = all(au.is_const(cf2.get(k), 0) for k in ('lower', 'upper', 'estimate'))
    rep.check(z, 'R1/column-algebra', 'fixed-cost branch: zero counterfactual', f.qualname, 'counterfactual %s' % {k: norm(v) for k, v in cf2.items() if k != 'date'},
              'the fixed-cost counterfactual is not identically zero', f.loc(cn2.ast))
    vals = {norm(pw2.get(k)) for k in ('lower', 'upper', 'estimate')}
    rep.check(len(vals) == 1, 'R1/column-algebra', 'fixed-cost branch: difference == observed cost with degenerate bounds', f.qualname, 'difference %s' % sorted(vals),
              'the fixed-cost pointwise difference has different lower/estimate/upper: %s' % sorted(vals), f.loc(pn2.ast))
  un2, cu2 = pick('cumulative_effect_df', False)
  if cu2 and pw2:
    vals2 = {norm(cu2.get(k)) for k in ('lower', 'upper', 'estimate')}
    est2 = rd.expand(un2, cu2['estimate'], keep=('experiment_dates', 'dates'))[0]
    t2 = norm(est2)
    src = norm(rd.expand(pn2, pw2['estimate'], keep=('experiment_dates', 'dates'))[0])     # the pointwise series, e.g. tmp['cost']
    base_col = re.fullmatch(r"(.+)\[(.+)\]", src)
    ok2 = False
    if base_col:
      fr, col = base_col.group(1), base_col.group(2)
      forms = ["np.cumsum(%s.loc[%s['date'].isin(experiment_dates), %s])" % (fr, fr, col),
               "%s.loc[%s['date'].isin(experiment_dates), %s].cumsum()" % (fr, fr, col),
               "np.cumsum(%s[%s][%s['date'].isin(experiment_dates)])" % (fr, col, fr),
               "%s[%s][%s['date'].isin(experiment_dates)].cumsum()" % (fr, col, fr)]
      ok2 = t2 in forms
    if ok2 and len(vals2) == 1:
      rep.ok('R1/column-algebra', 'fixed-cost branch: cumulative = running total of the observed cost over the experiment dates (degenerate bounds)', loc=f.loc(un2.ast))
    elif len(vals2) != 1:
      rep.violation('R1/column-algebra', f.qualname, 'fixed-cost cumulative %s' % sorted(vals2),
                    'the fixed-cost cumulative series has different lower/estimate/upper: %s' % sorted(vals2), f.loc(un2.ast))
    else:
      # a running total over a different set of dates is recognised; anything else is left undecided
      masks = re.findall(r"\.isin\((\w+)\)|\.loc\[(\w+)\]", t2)
      other = [a or b for a, b in masks if (a or b) not in ('experiment_dates',)]
      single = re.findall(r"== self\.periods\.(\w+)", t2)
      if single and not other:
        other = ['the %s period only' % '/'.join(sorted(set(single)))]
      if 'cumsum' in t2 and other:
        rep.violation('R1/column-algebra', f.qualname, 'fixed-cost cumulative = %s' % t2[:160],
                      'the fixed-cost cumulative series accumulates the observed cost over `%s` instead of all experiment dates (test and cooldown): on the last date it no longer equals the incremental cost'
                      % ', '.join(other), f.loc(un2.ast))
      else:
        rep.undecided('R1/column-algebra', 'fixed-cost cumulative', 'not recognised as the running total of the pointwise series over experiment_dates: %s' % t2[:120], f.loc(un2.ast))
  # R3
  def sites(ctx_, rd_, reach):
    out = []
    for bound in ('lower', 'upper'):
      if bound in cu:
        val = cu[bound]
        at = un
        if isinstance(val, ast.Name):       # named quantile: cumulative_lower = delta.ppf(p)
          d_ = rd_.single_def(un, val.id)
          if d_ is not None and d_.how == 'assign' and d_.value is not None:
            val, at = d_.value, d_.node
        for c in au.calls_in(val):
          if isinstance(c.func, ast.Attribute) and c.func.attr == 'ppf' and c.args:
            out.append((bound, c.args[0], at, 'cumulative %s' % bound))
    return out
  n = tbrrules.quantile_order(rep, f, 'R3/quantile-order', tbrrules.Iv(0.0, 1.0, True, True), sites, prop_hint=' and the series container raises ValueError')
  rep.floor('quantile-order obligations', n, 4)
  # scipy's `dist.interval(c)` is the *central* interval: its ends are the (1-c)/2 and 1-(1-c)/2 quantiles. Used for a report
  # with a number of tails, the coverage must make (1-c)/2 equal the tail probability (1-level)/tails for tails = 1 and 2.
  import sympy as _sp
  for q_ in (CLS, 'tbr.TBR'):
    for fn_ in repo.cls(q_).all_functions():
      if not ({'level', 'tails'} <= set(fn_.params)):
        continue
      fctx_ = FuncCtx.of(fn_)
      for node_ in fctx_.g.nodes:
        for e_ in fctx_.node_exprs(node_):
          for c_ in au.calls_in(e_):
            if not (isinstance(c_.func, ast.Attribute) and c_.func.attr == 'interval' and len(c_.args) == 1 and not c_.keywords):
              continue
            cov = fctx_.rd.expand(node_, c_.args[0], keep=('level', 'tails'))[0]
            al_ = au.aliens(cov, ('level', 'tails'))
            if al_:
              rep.undecided('R3/quantile-order', '%s: %s' % (fn_.name, norm(c_)[:50]), 'the coverage `%s` reads unresolved names (%s)' % (norm(cov)[:50], ', '.join(al_)), fn_.loc(c_))
              continue
            try:
              L, Tl = sym.symbol('level'), sym.symbol('tails')
              cs = sym.to_sym(cov, lambda x_: L if norm(x_) == 'level' else (Tl if norm(x_) == 'tails' else None))
              bad_t = [t_ for t_ in (1, 2) if _sp.simplify((1 - cs.subs(Tl, t_)) / 2 - (1 - L) / t_) != 0]
            except Undecided:
              rep.undecided('R3/quantile-order', '%s: %s' % (fn_.name, norm(c_)[:50]), 'the coverage `%s` is not an arithmetic expression of level and tails' % norm(cov)[:50], fn_.loc(c_))
              continue
            rep.check(not bad_t, 'R3/quantile-order', '%s: interval(%s) has the tail probability (1-level)/tails on each side' % (fn_.name, norm(cov)[:40]), fn_.qualname,
                      '%s with coverage %s' % (norm(c_)[:40], norm(cov)[:60]),
                      '`%s` is the central interval with coverage `%s`: for tails=%s its lower end is the %s quantile, not the (1 - level)/tails quantile the report documents — the bound series are not the posterior quantiles of the requested one-/two-tailed report'
                      % (norm(c_)[:40], norm(cov)[:50], '/'.join(map(str, bad_t)), '(1 - (%s))/2' % norm(cov)[:30]), fn_.loc(c_))
  # R4 container guards
  cc = repo.cls('common_classes.EstimatedTimeSeriesWithConfidenceInterval')
  init = cc.methods.get('__init__')
  if init is None:
    rep.violation('R4/container', cc.qualname, 'no __init__', 'the series container no longer validates its bounds', cc.loc())
  else:
    rep.fn(init)
    ictx = FuncCtx.of(init)
    ig = ictx.g
    for want, what in (("self['lower'] > self['estimate']", 'lower > estimate is rejected'),
                       ("self['upper'] < self['estimate']", 'upper < estimate is rejected')):
      found = False
      for tn in ig.nodes:
        if tn.kind != 'test':
          continue
        ex = ictx.rd.expand(tn, tn.expr)[0]
        for lab in ('true', 'false'):
          dnf = pathcond.literals(ex, lab == 'true')
          if len(dnf) != 1 or len(dnf[0]) != 1:
            continue
          atom, tv = dnf[0][0]
          # np.any(A > B) found true / np.all(A <= B) found false
          if isinstance(atom, ast.Call) and len(atom.args) == 1 and isinstance(atom.args[0], ast.Compare):
            fname = norm(atom.func)
            if fname in ('np.any', 'numpy.any', 'any') and tv:
              forms = pathcond.rel_forms(atom.args[0], True)
            elif fname in ('np.all', 'numpy.all', 'all') and not tv:
              forms = pathcond.rel_forms(atom.args[0], False)
            else:
              continue
            succ = [m for m, l_ in ig.succ[tn] if l_ == lab]
            if want in forms and succ and ig.exit not in ig.reachable(succ[0], cfgmod.no_exc):
              found = True
      if not found:
        # some test of the container mentions both columns, or a helper is called with them: the guard exists in a form that is not followed
        cols_ = re.findall(r"'(\w+)'", want)
        mention = [tn for tn in ig.nodes for e_ in ictx.node_exprs(tn)
                   if any(isinstance(y_, ast.Compare) and all(("['%s']" % c_) in norm(y_) for c_ in cols_) for y_ in ast.walk(ictx.rd.expand(tn, e_)[0]))]
        if mention:
          rep.undecided('R4/container', 'container guard: %s' % what, 'the columns are compared at line %s in a form that is not followed' % getattr(mention[0].ast or mention[0].expr, 'lineno', '?'), init.loc())
          continue
        # absence has to hold wherever the guard could live: a call made by the constructor that is not one of the plain
        # library calls of the unchanged constructor (a rule object, a validator table, a helper) may carry it
        plain_ = {'super', 'issubset', 'KeyError', 'ValueError', 'any', 'all', 'set', 'len', 'isinstance', 'format', 'join', '__init__'}
        other_calls = [norm(c_)[:50] for tn in ig.nodes for e_ in ictx.node_exprs(tn) for c_ in au.calls_in(e_)
                       if (c_.func.attr if isinstance(c_.func, ast.Attribute) else getattr(c_.func, 'id', '?')) not in plain_
                       and not norm(c_.func).startswith(('np.', 'numpy.', 'pd.', 'pandas.'))]
        if other_calls:
          rep.undecided('R4/container', 'container guard: %s' % what, 'the constructor calls `%s`, which is not followed: the guard may live there' % other_calls[0], init.loc())
          continue
      rep.check(found, 'R4/container', 'container guard: %s' % what, init.qualname, what, 'the series container does not enforce that %s' % what, init.loc())
  # R5 shared input rules
  tbrrules.tbr_aggregation(repo, rep, 'R5/analysis-data')
  tbrrules.kwarg_subdict_rule(repo, rep, 'R5/analysis-data')
  for q in (CLS, 'tbr.TBR'):
    sub = type(rep)(rep.prop, rep.tier, rep.repo)
    c08.analyse_class(repo, sub, q)
    for i in sub.instances:
      if i.rule.startswith('R2/must-reset'):
        i.rule = 'R5/cache-invalidation'
        rep.instances.append(i)
    sub = type(rep)(rep.prop, rep.tier, rep.repo)
    c08.r4_reads_do_not_mutate(repo, sub, q)
    for i in sub.instances:
      i.rule = 'R5/read-does-not-mutate'
      rep.instances.append(i)
  from mmsa.props import c07
  sub = type(rep)(rep.prop, rep.tier, rep.repo)
  c07.r3_scenario(repo, sub)
  tbrrules.distribution_rules(repo, sub, '')
  for i in sub.instances:
    if i.rule == 'R3/scenario':
      i.rule = 'R5/scenario-branch'
      rep.instances.append(i)
    elif i.rule in ('R5/posterior-shape', 'R4/scale-sign'):
      i.rule = 'R2/posterior-' + i.rule.split('/', 1)[1]
      rep.instances.append(i)
  rep.assume('level in (0, 1) (documented), tails in {1, 2} (guard)')
