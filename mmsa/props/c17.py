"""C17 — design parameters are accepted exactly when in their documented domain.

Decided: (R1) field <-> validator <-> documented-domain table agreement: every
dataclass field is validated exactly once in __post_init__, with the operator,
bound (value and int/float-ness, which drives integrality), pair-order operator,
optionality (type hint + default None) and default the documentation states; the
operator table maps each spelling to the plain comparison.  (R2) helper
contracts by path analysis: every accepting path of each helper either is the
"None for an optional field" path or has asserted the numeric type test and the
comparison(s) with the operands in the right order (a positive assertion, so
NaN cannot pass) and the integrality test when the bound is an int.  (R3) only
ValueError can escape: explicit raises, table look-ups keyed by call-site
constants, and int() conversions reached only with finitely bounded values.
(R4) __eq__ compares the asdict() of both sides.
Not decided: floating-point neighbours of the bounds (the comparison is done by
CPython; the rule fixes operator, bound and operand order).
"""
import ast
import re
import math

from mmsa import au, cfg as cfgmod, dataflow, pathcond
from mmsa.types import FuncCtx
from mmsa.core import Undecided, norm, walk_no_nested

CLS = 'tbrmmdesignparameters.TBRMMDesignParameters'
EXPLANATION = (
    'Table extraction from __post_init__ (constants resolved through class attributes) compared with the documented-domain table; '
    'path-condition analysis of the three validation helpers (all CFG paths, guards split into literals after alias expansion); '
    'exception-effect analysis with call-site constant propagation for table look-ups and int() conversions.')
RULE_TEXT = 'one obligation per (field, table column), per helper path and per partial operation; non-trivial = constrains accepted values'

INF = float('inf')
# Documented domains (class docstring of TBRMMDesignParameters), one row per field:
# kind, lower, lower_op, upper, upper_op, pair_op, integral, optional, default
DOC = {
    'n_test':                 ('scalar', 1, '>=', None, None, None, True, False, 'REQUIRED'),   # "An integer >= 1 ... Required."
    'iroas':                  ('scalar', 0.0, '>=', None, None, None, False, False, 'REQUIRED'),  # "A float >= 0.0 ... Required."
    'volume_ratio_tolerance': ('scalar', 0.0, '>', None, None, None, False, True, None),        # "A float > 0. (Optional)"
    'geo_ratio_tolerance':    ('scalar', 0.0, '>', None, None, None, False, True, None),        # "A float > 0. (Optional)"
    'treatment_share_range':  ('pair', 0.0, '<', 1.0, '<', '<', False, True, None),             # "two floats both strictly between (0, 1)"
    'budget_range':           ('pair', 0.0, '<=', INF, '<', '<', False, True, None),            # "two floats >= 0.0" (min and max)
    'treatment_geos_range':   ('pair', 1, '<=', INF, '<', '<=', True, True, None),              # "two integers >= 1"
    'control_geos_range':     ('pair', 1, '<=', INF, '<', '<=', True, True, None),              # "two integers >= 1"
    'n_geos_max':             ('scalar', 2, '>=', None, None, None, True, True, None),          # "An integer >= 2. (Optional)"
    'n_pretest_max':          ('scalar', 3, '>=', None, None, None, True, False, 90),           # "An integer >= 3 ... Default 90."
    'n_designs':              ('scalar', 1, '>=', None, None, None, True, False, 1),            # "An integer >= 1 ... Default 1."
    'rho_max':                ('bounds', 0.9, '<=', 1.0, '<', None, False, False, 0.995),       # ">= 0.9 and < 1.0 ... Default 0.995"
    'sig_level':              ('bounds', 0.0, '<', 1.0, '<', None, False, False, 0.9),          # "> 0.0 and < 1.0"
    'power_level':            ('bounds', 0.0, '<', 1.0, '<', None, False, False, 0.8),          # "> 0.0 and < 1.0 ... Default 0.8"
    'min_corr':               ('bounds', 0.8, '<=', 1.0, '<', None, False, False, 0.8),         # ">= 0.8 and < 1.0 ... Default 0.8"
    'flevel':                 ('bounds', 0.9, '<=', 1.0, '<', None, False, False, 0.9),         # ">= 0.9 and < 1.0"
}
OPS = {'>': ast.Gt, '<': ast.Lt, '<=': ast.LtE, '>=': ast.GtE}
OPFUN = {'>': 'gt', '<': 'lt', '<=': 'le', '>=': 'ge'}
HELPERS = ('_test_value_vs_threshold', '_test_value_within_bounds', '_test_range')


def const_value(cls, e, selfn='self'):
  """(ok, python value) of a constant expression incl. class constants and float('inf')."""
  ok, v = au.const(e)
  if ok:
    return True, v
  if isinstance(e, ast.Attribute) and isinstance(e.value, ast.Name) and e.value.id in (selfn, cls.name) and e.attr in cls.attrs \
      and cls.attrs[e.attr] is not None:
    return const_value(cls, cls.attrs[e.attr], selfn)
  if isinstance(e, ast.Call) and isinstance(e.func, ast.Name) and e.func.id == 'float' and len(e.args) == 1:
    ok, v = au.const(e.args[0])
    if ok and isinstance(v, str):
      try:
        return True, float(v)
      except ValueError:
        return False, None
  if isinstance(e, ast.Tuple):
    vals = [const_value(cls, x, selfn) for x in e.elts]
    if all(o for o, _ in vals):
      return True, tuple(v for _, v in vals)
  return False, None


def same_num(a, b):
  """Equal value and equal int/float-ness (integrality is driven by the literal's type)."""
  if a is None or b is None:
    return a is b
  return a == b and isinstance(a, int) == isinstance(b, int) and not isinstance(a, bool)


def extract_calls(cls, rep):
  f = cls.methods.get('__post_init__')
  if f is None:
    raise Undecided('__post_init__ vanished')
  rep.fn(f)
  selfn = f.params[0]
  rows = {}
  sites = []
  dup = []
  for st in f.node.body:
    if isinstance(st, ast.Expr) and isinstance(st.value, ast.Constant):
      continue
    if isinstance(st, ast.Pass):
      continue
    if isinstance(st, ast.Assign) and len(st.targets) == 1 and isinstance(st.targets[0], ast.Attribute) \
        and isinstance(st.targets[0].value, ast.Name) and st.targets[0].value.id == selfn and st.targets[0].attr not in cls.field_order:
      # bookkeeping in a non-field attribute: does not take part in the validation (its uses are judged where they occur)
      rep.note('__post_init__ also stores the non-field attribute %s' % st.targets[0].attr)
      continue
    if not (isinstance(st, ast.Expr) and isinstance(st.value, ast.Call) and isinstance(st.value.func, ast.Attribute)
            and isinstance(st.value.func.value, ast.Name) and st.value.func.value.id == selfn):
      raise Undecided('__post_init__ statement not understood: %s' % norm(st)[:80])
    call = st.value
    h = call.func.attr
    vals = [const_value(cls, a, selfn) for a in call.args]
    if call.keywords or not all(o for o, _ in vals):
      raise Undecided('validator call with non-constant arguments: %s' % norm(call))
    v = [x for _, x in vals]
    if h == '_test_value_vs_threshold' and len(v) == 3:
      attr, op, bound = v
      if op in ('>', '>='):
        row = ('scalar', bound, op, None, None, None)
      else:
        row = ('scalar-upper', None, None, bound, op, None)
    elif h == '_test_value_within_bounds' and len(v) == 5:
      lower, op1, attr, op2, upper = v
      row = ('bounds', lower, op1, upper, op2, None)
    elif h == '_test_range' and len(v) == 5 and isinstance(v[2], tuple) and len(v[2]) == 2:
      lower, op1, (attr, op3), op2, upper = v
      row = ('pair', lower, op1, upper, op2, op3)
    else:
      raise Undecided('validator call not understood: %s' % norm(call))
    sites.append((h, v, call))
    if attr in rows:
      dup.append(attr)
    rows[attr] = (row, call, h)
  return f, rows, sites, dup


def r1_table(repo, rep, cls):
  f, rows, sites, dup = extract_calls(cls, rep)
  fields = [n for n in cls.field_order if not n.startswith('_')]
  rep.floor('dataclass fields', len(fields), 16)
  rep.check(set(fields) == set(DOC), 'R1/table', 'the field list equals the documented attribute list', f.qualname,
            'fields ' + ', '.join(sorted(set(fields) ^ set(DOC))),
            'fields %s are not in the documented attribute table (or documented fields are missing)' % sorted(set(fields) ^ set(DOC)), cls.loc())
  for a in dup:
    rep.violation('R1/table', f.qualname, 'field %s validated twice' % a, 'field %s is validated more than once (the later call wins nothing; table ambiguous)' % a, f.loc())
  for name in fields:
    if name not in DOC:
      continue
    kind, lo, lop, hi, hop, pop, integral, optional, default = DOC[name]
    if name not in rows:
      rep.violation('R1/table', f.qualname, 'field %s is never validated' % name,
                    'field %s is not validated in __post_init__: values outside its documented domain are accepted' % name, f.loc())
      continue
    (rk, rlo, rlop, rhi, rhop, rpop), call, h = rows[name]
    loc = f.loc(call)
    rep.check(rk == kind, 'R1/table', '%s: validator kind %s' % (name, kind), f.qualname, norm(call),
              '%s is validated as %s but documented as %s' % (name, rk, kind), loc)
    if rk != kind:
      continue
    # operators are written 'lower op value' for bounds/pairs and 'value op bound' for scalars
    rep.check(rlop == lop and same_num(rlo, lo), 'R1/table', '%s: lower bound %s %s' % (name, lop, lo), f.qualname, norm(call),
              '%s: lower bound is "%s %r" but the documented domain requires "%s %r" (value and int/float-ness matter: an int bound makes the field integer-valued)'
              % (name, rlop, rlo, lop, lo), loc)
    if hi is not None or rhi is not None:
      rep.check(rhop == hop and (rhi == hi), 'R1/table', '%s: upper bound %s %s' % (name, hop, hi), f.qualname, norm(call),
                '%s: upper bound is "%s %r" but the documented domain requires "%s %r"' % (name, rhop, rhi, hop, hi), loc)
    if kind == 'pair':
      rep.check(rpop == pop, 'R1/table', '%s: pair order lower %s upper' % (name, pop), f.qualname, norm(call),
                '%s: the two values must satisfy lower %s upper, the code tests %s' % (name, pop, rpop), loc)
    rep.check(isinstance(rlo, int) == integral, 'R1/table', '%s: %s' % (name, 'integer valued' if integral else 'real valued'),
              f.qualname, norm(call), '%s: integrality (driven by the int-ness of the bound %r) does not match the documentation (%s)'
              % (name, rlo, 'integer' if integral else 'float'), loc)
    # optionality and default
    ann = norm(cls.annotations[name]) if name in cls.annotations else ''
    is_opt = ann.startswith('Optional') or ann in ('OptionalFloat', 'OptionalInt', 'OptionalRange')
    rep.check(is_opt == optional, 'R1/table', '%s: %s' % (name, 'optional' if optional else 'required (None rejected)'), f.qualname,
              '%s: %s' % (name, ann), '%s has type hint %s, so None is %s, but the documentation says it is %s'
              % (name, ann, 'accepted' if is_opt else 'rejected', 'optional' if optional else 'not optional'), cls.loc(cls.annotations.get(name)))
    dv = cls.attrs.get(name)
    if default == 'REQUIRED':
      rep.check(dv is None, 'R1/table', '%s has no default' % name, f.qualname, '%s default' % name,
                '%s is documented as required but has default %s' % (name, norm(dv) if dv is not None else ''), cls.loc())
    else:
      ok, v = (const_value(cls, dv) if dv is not None else (False, None))
      rep.check(dv is not None and ok and v == default and (v is None) == (default is None), 'R1/table', '%s default is %r' % (name, default),
                f.qualname, '%s = %s' % (name, norm(dv) if dv is not None else '<none>'),
                '%s has default %s but the documented default is %r' % (name, norm(dv) if dv is not None else '<none>', default), cls.loc())
  # _is_optional's hint set
  iso = cls.methods.get('_is_optional')
  if iso is not None:
    rep.fn(iso)
    txt = norm(iso.node)
    # module-level and class-level tables the function reads (a set of hints kept as a constant)
    tables_, frontier_ = [], {x_.id for x_ in ast.walk(iso.node) if isinstance(x_, ast.Name)} | {x_.attr for x_ in ast.walk(iso.node) if isinstance(x_, ast.Attribute)}
    for _round in range(3):
      nxt_ = set()
      for nm_ in sorted(frontier_):
        v_ = iso.module.assigns.get(nm_) if nm_ in iso.module.assigns else cls.attrs.get(nm_)
        if v_ is not None and nm_ not in ('OptionalRange', 'OptionalFloat', 'OptionalInt'):
          tables_.append(norm(v_))
          nxt_ |= {x_.id for x_ in ast.walk(v_) if isinstance(x_, ast.Name)}
      frontier_ = nxt_
    txt_all = txt + ' ' + ' '.join(tables_)
    hints = {h for h in ('OptionalRange', 'OptionalFloat', 'OptionalInt') if h in txt_all}
    used = {norm(cls.annotations[n]) for n in fields if DOC.get(n, (0,) * 8)[7] and n in cls.annotations}
    import builtins as _b2
    opaque_ = sorted({x_.id for x_ in ast.walk(iso.node) if isinstance(x_, ast.Name) and isinstance(x_.ctx, ast.Load) and x_.id not in iso.params
                      and not hasattr(_b2, x_.id) and x_.id not in ('typing', 'OptionalRange', 'OptionalFloat', 'OptionalInt', 'Optional', 'Union')
                      and x_.id not in iso.module.assigns
                      and not any(isinstance(y_, ast.Name) and y_.id == x_.id and isinstance(y_.ctx, ast.Store) for y_ in ast.walk(iso.node))}
                     | {norm(c_.func) for c_ in ast.walk(iso.node) if isinstance(c_, ast.Call) and norm(c_.func) not in ('typing.get_type_hints', 'get_type_hints', 'isinstance', 'type')})
    rep.check3(True if used <= hints else (None if opaque_ else False), 'R1/table', '_is_optional recognises every optional hint in use', iso.qualname, txt[-80:],
               '_is_optional does not recognise the hints %s: None is rejected for documented-optional fields' % sorted(used - hints), iso.loc(),
               why_open='the hints %s are not named in _is_optional or the tables it reads, but it consults %s, which is not followed' % (sorted(used - hints), ', '.join(opaque_)[:60]))
    mod = cls.module
    for hname in hints:
      v = mod.assigns.get(hname)
      rep.check(v is not None and norm(v).startswith('Optional['), 'R1/table', 'hint alias %s is Optional[...]' % hname,
                iso.qualname, '%s = %s' % (hname, norm(v) if v is not None else '?'), 'hint alias %s is not Optional' % hname, iso.loc())
  # operator table
  tf = cls.attrs.get('_test_functions')
  if not isinstance(tf, ast.Dict):
    rep.undecided('R1/table', '_test_functions', 'operator table is not a dict literal', cls.loc())
  else:
    seen = {}
    for k, v in zip(tf.keys, tf.values):
      ok, kv = au.const(k)
      seen[kv] = v
    for sp, fn in OPFUN.items():
      if sp not in seen:
        rep.violation('R1/table', cls.qualname, 'operator %s missing' % sp, 'operator table has no entry for %s' % sp, cls.loc(tf))
        continue
      v = seen[sp]
      ln = au.lib_name(cls.module, v)
      good = ln == 'operator.' + fn
      if not good and isinstance(v, ast.Lambda) and len(v.args.args) == 2 and isinstance(v.body, ast.Compare) and len(v.body.ops) == 1:
        a, b = [x.arg for x in v.args.args]
        good = type(v.body.ops[0]) is OPS[sp] and norm(v.body.left) == a and norm(v.body.comparators[0]) == b
      if not good and isinstance(v, ast.Name):
        fq = '%s.%s' % (cls.module.name, v.id)
        if repo.has_func(fq):
          fd = repo.func(fq).node
          body = [b for b in fd.body if not (isinstance(b, ast.Expr) and isinstance(b.value, ast.Constant))]
          if len(body) == 1 and isinstance(body[0], ast.Return) and isinstance(body[0].value, ast.Compare) and len(body[0].value.ops) == 1 \
              and len(fd.args.args) == 2:
            a, b = [x.arg for x in fd.args.args]
            c = body[0].value
            good = type(c.ops[0]) is OPS[sp] and norm(c.left) == a and norm(c.comparators[0]) == b
      rep.check(good, 'R1/table', "operator table: '%s' is the plain comparison" % sp, cls.qualname,
                "'%s': %s" % (sp, norm(v)), "the operator table maps '%s' to %s, which is not the exact comparison %s: values outside the documented bounds can be accepted"
                % (sp, norm(v), 'operator.' + fn), cls.loc(v))
    inv = cls.attrs.get('_inverse_op')
  return f, rows, sites


def _is_call_to(e, pred):
  return isinstance(e, ast.Call) and pred(norm(e.func))


def r2_helpers(repo, rep, cls, sites):
  """Every accepting path of a helper has asserted type test + comparisons (+ integrality)."""
  for hname in HELPERS:
    f = cls.methods.get(hname)
    if f is None:
      if any(h == hname for h, v, c in sites):
        raise Undecided('helper %s vanished' % hname)
      continue
    rep.fn(f)
    g = cfgmod.CFG(f.node)
    rd = dataflow.Reaching(g)
    params = f.params
    selfn = params[0]
    paths = pathcond.paths_to(g, lambda n: n is g.exit, back_limit=0)
    rep.analysed['paths'] += len(paths)
    if not paths:
      rep.undecided('R2/helper', hname, 'no accepting path', f.loc())
      continue
    # names of roles
    if hname == '_test_value_vs_threshold':
      attr, lowers, uppers = params[1], [(params[2], params[3], 'value-first')], []
    elif hname == '_test_value_within_bounds':
      attr, lowers, uppers = params[3], [(params[2], params[1], 'bound-first')], [(params[4], params[5], 'value-first')]
    else:
      attr = None
      lowers = [(params[2], params[1], 'bound-first')]
      uppers = [(params[4], params[5], 'value-first')]
    n_accept = 0
    for p in paths:
      pf = pathcond.PathFacts(p, rd, keep=tuple(params))
      if not pf.feasible:
        continue
      txt = pf.text()
      # locals the path conditions read that are not resolved to the parameters (a flag or a value returned by a helper
      # through a tuple, a name with several definitions): the meaning of the path is then not fully known
      import builtins as _b
      def component_of_input(nm_):
        """A name bound only by unpacking a parameter or the attribute value under validation (attr, op = attr_op; lo, hi = value)."""
        ds_ = [d_ for n_ in g.nodes for d_ in rd.gen.get(n_, ()) if d_.name == nm_]
        if not ds_ or not all(d_.how == 'unpack' and d_.value is not None for d_ in ds_):
          return False
        for d_ in ds_:
          src_ = rd.expand(d_.node, d_.value, keep=tuple(params))[0]
          names_ = {y_.id for y_ in ast.walk(src_) if isinstance(y_, ast.Name)} - {'getattr'}
          if not names_ <= (set(params) | {q_ for q_ in names_ if component_of_input(q_) and q_ != nm_}):
            return False
        return True
      open_names = sorted({x_.id for conj_ in pf.dnf for e_, t_ in conj_ for x_ in ast.walk(e_)
                           if isinstance(x_, ast.Name) and x_.id not in params and not hasattr(_b, x_.id) and not x_.id[:1].isupper() and not x_.id.startswith('_v')
                           and not component_of_input(x_.id)})
      bound_ = {y_.id for conj_ in pf.dnf for e_, t_ in conj_ for c_ in ast.walk(e_) if isinstance(c_, (ast.GeneratorExp, ast.ListComp, ast.SetComp))
                for gen_ in c_.generators for y_ in ast.walk(gen_.target) if isinstance(y_, ast.Name)}
      open_names = [n_ for n_ in open_names if n_ not in bound_]

      # a loop on the path whose body can change the verdict (assigns a flag, breaks, raises): the path shows at most one
      # pass (or none), so it does not witness what the remaining elements do
      loop_caveat = []
      for n_, _l in p:
        if n_.kind in ('for', 'while'):
          if any(isinstance(m_, (ast.Assign, ast.AugAssign, ast.Break, ast.Raise)) for b_ in getattr(n_.ast, 'body', []) for m_ in ast.walk(b_)):
            loop_caveat.append('the loop at line %s examines one element per pass; the path follows at most one pass' % getattr(n_.ast, 'lineno', '?'))

      def chk(cond, *a_, **k_):
        return rep.check3(True if cond else (None if (open_names or loop_caveat) else False), *a_,
                          why_open=('the accepting path reads unresolved locals (%s): %s' % (', '.join(open_names[:3]), txt[:120])) if open_names
                          else '%s: %s' % (loop_caveat[0] if loop_caveat else '', txt[:100]), **k_)
      # optional-None path: asserts value is None and _is_optional
      def is_none_lit(e, t):
        s = norm(e)
        return ('is None' in s and t) or ('is not None' in s and not t)
      def is_optional_lit(e, t):
        return '_is_optional(' in norm(e) and t
      if pf.every_case_has(is_none_lit) and pf.every_case_has(is_optional_lit):
        rep.ok('R2/helper', '%s: accepting path for None requires an optional field' % hname, txt[:150], f.loc())
        continue
      n_accept += 1
      def type_lit(e, t):
        s = norm(e)
        if (not t) and s.startswith('any(') and isinstance(e, ast.Call) and e.args and isinstance(e.args[0], (ast.GeneratorExp, ast.ListComp)):
          # not any(not int and not float for x in v)  ==  all(int or float for x in v)
          dnf_ = pathcond.literals(e.args[0].elt, False)
          elems = [norm(a_) for c_ in dnf_ for a_, tv_ in c_ if tv_]
          return len(dnf_) >= 1 and all(len(c_) == 1 for c_ in dnf_) and any('int' in x_ for x_ in elems) and any('float' in x_ for x_ in elems) \
              and all(x_.startswith('isinstance(') for x_ in elems)
        return t and s.startswith('isinstance(') and (s.endswith(', int)') or s.endswith(', float)') or 'int' in s and 'float' in s) \
            or (t and s.startswith('all(') and 'isinstance(' in s and 'int' in s and 'float' in s)
      def cmp_lit_factory(opparam, boundparam, order, which):
        def pred(e, t):
          if not t or not isinstance(e, ast.Call):
            return False
          fn = norm(e.func)
          if fn != '%s._test_functions[%s]' % (selfn, opparam) or len(e.args) != 2:
            return False
          a0, a1 = norm(e.args[0]), norm(e.args[1])
          if hname == '_test_range':
            valtxt = "getattr(%s, %s)" % (selfn, 'attr')
            isval = lambda s: s not in params   # a component of the unpacked pair
          else:
            isval = lambda s: s == 'getattr(%s, %s)' % (selfn, attr)
          if order == 'value-first':
            return isval(a0) and a1 == boundparam
          return a0 == boundparam and isval(a1)
        return pred
      ok_type = pf.every_case_has(type_lit)
      chk(ok_type, 'R2/helper', '%s: accepted values passed the numeric type test' % hname, f.qualname,
                'accepting path: ' + txt[:200], '%s accepts a value on a path that never asserted isinstance(value, int/float): %s' % (hname, txt[:200]), f.loc())
      for (opparam, boundparam, order) in lowers + uppers:
        ok_cmp = pf.every_case_has(cmp_lit_factory(opparam, boundparam, order, None))
        chk(ok_cmp, 'R2/helper', '%s: accepted values positively satisfied the %s comparison' % (hname, opparam), f.qualname,
                  'accepting path lacks test %s(%s): %s' % (opparam, boundparam, txt[:160]),
                  '%s accepts a value without having positively tested it against %s with operator %s in the documented operand order (a NaN or out-of-range value passes): %s'
                  % (hname, boundparam, opparam, txt[:200]), f.loc())
      if hname == '_test_range':
        def order_lit(e, t):
          if not t or not isinstance(e, ast.Call) or len(e.args) != 2:
            return False
          fn = norm(e.func)
          return fn.startswith('%s._test_functions[' % selfn) and norm(e.args[0]) not in params and norm(e.args[1]) not in params
        chk(pf.every_case_has(order_lit), 'R2/helper', '_test_range: accepted pairs passed the order test', f.qualname,
                  'accepting path lacks the pair-order test: ' + txt[:160], '_test_range accepts a pair without testing lower against upper: %s' % txt[:200], f.loc())
        def tuple_lit(e, t):
          s = norm(e)
          return t and (('isinstance(' in s and 'tuple' in s) or 'len(' in s)
        chk(pf.every_case_has(tuple_lit), 'R2/helper', '_test_range: accepted values are 2-tuples', f.qualname,
                  'accepting path lacks the tuple/arity test', '_test_range accepts a value without the 2-tuple test: %s' % txt[:200], f.loc())
      # integrality
      bound_for_int = lowers[0][1]
      def int_lit(e, t):
        s = norm(e)
        if 'isinstance(%s, int)' % bound_for_int in s and not t:
          return True
        m_ = re.fullmatch(r'int\((.+)\) (!=|==) (.+)', s) or re.fullmatch(r'(.+) (!=|==) int\((.+)\)', s)
        if m_ and m_.group(1) == m_.group(3):
          return (m_.group(2) == '!=') != t    # `int(v) != v` false or `int(v) == v` true: v is integer-valued
        if not t and ('is_integer()' in s or 'int(' in s) :
          return True    # the "is not an integer" condition was false
        if t and 'is_integer()' in s and 'not ' not in s:
          return True
        if t and s.startswith('isinstance(') and s.endswith(', int)') and 'bound' not in s and s != 'isinstance(%s, int)' % bound_for_int:
          return True    # the value is an int
        return False
      if hname == '_test_range':
        # both ends of the range, each by a literal of its own: `int(c) != c` false, `c.is_integer()` / `isinstance(c, int)` true
        comps_ = []
        for n_ in g.nodes:
          if n_.kind == 'stmt' and isinstance(n_.ast, ast.Assign) and isinstance(n_.ast.targets[0], (ast.Tuple, ast.List)) and len(n_.ast.targets[0].elts) == 2 \
              and all(isinstance(t_, ast.Name) for t_ in n_.ast.targets[0].elts) and norm(rd.expand(n_, n_.ast.value, keep=tuple(params))[0]) in ('getattr(self, attr)', 'value'):
            comps_ = [t_.id for t_ in n_.ast.targets[0].elts]
        def comp_status(conj, c_):
          cre = re.escape(c_)
          unknown_ = False
          for e_, t_ in conj:
            s_ = norm(e_)
            # both ends at once: all(<integrality of x> for x in <the pair>) true / any(<non-integrality of x> ...) false
            mq_ = re.fullmatch(r'(all|any)\(\(?(.+?) for (\w+) in (value|getattr\(self, attr\)|\(%s, %s\)|\[%s, %s\])\)?\)' % ((re.escape(comps_[0]), re.escape(comps_[1])) * 2), s_)
            if mq_:
              q_, el_, v_ = mq_.group(1), mq_.group(2), mq_.group(3)
              pos_ = ('int(%s) == %s' % (v_, v_), '%s == int(%s)' % (v_, v_), '%s.is_integer()' % v_, 'float(%s).is_integer()' % v_, 'isinstance(%s, int)' % v_)
              neg_ = ('int(%s) != %s' % (v_, v_), '%s != int(%s)' % (v_, v_), 'not %s.is_integer()' % v_, 'not float(%s).is_integer()' % v_, 'not int(%s) == %s' % (v_, v_))
              if (q_ == 'all' and t_ and el_ in pos_) or (q_ == 'any' and not t_ and el_ in neg_):
                return 'int'
              if q_ == 'any' and t_ and el_ in pos_:
                continue            # understood, and too weak: some end is integer-valued, not each
              if 'is_integer' in el_ or re.search(r'(?<![\w.])int\(', el_):
                unknown_ = True     # (a bare `isinstance(x, int) or isinstance(x, float)` element is the type test, not integrality)
              continue
            if not re.search(r'(?<![\w.])%s(?!\w)' % cre, s_):
              if ('is_integer' in s_ or 'int(' in s_) and re.search(r'(?<![\w.])(value|getattr\(self, attr\))(?!\w)', s_) and not s_.startswith('isinstance('):
                unknown_ = True       # a test of the pair as a whole in a form that is not understood
              continue
            if (not t_ and re.fullmatch(r'int\(%s\) != %s' % (cre, cre), s_)) or (t_ and re.fullmatch(r'int\(%s\) == %s' % (cre, cre), s_)) \
                or (t_ and s_ in ('%s.is_integer()' % c_, 'isinstance(%s, int)' % c_, 'float(%s).is_integer()' % c_)):
              return 'int'
            if 'is_integer' in s_ or 'int(' in s_ or ', int)' in s_:
              unknown_ = True
          return 'unknown' if unknown_ else 'none'
        if len(comps_) == 2 and pf.dnf:
          worst_ = 'int'
          for conj in pf.dnf:
            if any((not t_) and norm(e_) == 'isinstance(%s, int)' % bound_for_int for e_, t_ in conj):
              continue        # the bound is not an int: nothing to enforce
            for c_ in comps_:
              st_ = comp_status(conj, c_)
              if st_ == 'none':
                worst_ = 'none:' + c_
                break
              if st_ == 'unknown' and worst_ == 'int':
                worst_ = 'unknown:' + c_
            if worst_.startswith('none'):
              break
          if worst_ != 'int':
            c_ = worst_.split(':')[1]
            rep.check3(None if (worst_.startswith('unknown') or open_names or loop_caveat) else False, 'R2/helper', '_test_range: integrality of %s enforced when the bound is an int' % c_, f.qualname,
                       'accepting path without integrality test of %s: %s' % (c_, txt[:140]),
                       '_test_range accepts a range for an int bound on a path that never tested that its end %s is integer-valued: non-integer sizes pass' % c_, f.loc(),
                       why_open='the end %s of the range is tested in a form that is not understood on the accepting path %s' % (c_, txt[:100]))
            continue
          # each end has an integrality literal of its own (or the quantified one over the pair) on every accepting case:
          # stronger than the generic per-path test below, which it replaces
          chk(True, 'R2/helper', '%s: integrality enforced when the bound is an int' % hname, f.qualname,
              'accepting path without integrality test: ' + txt[:160], '', f.loc())
          continue
      chk(pf.every_case_has(int_lit), 'R2/helper', '%s: integrality enforced when the bound is an int' % hname, f.qualname,
                'accepting path without integrality test: ' + txt[:160],
                '%s accepts a value for an int bound without an integrality test: non-integer values pass for integer-valued fields' % hname, f.loc())
    rep.floor('accepting non-None paths of %s' % hname, n_accept, 1)


def r3_exceptions(repo, rep, cls, sites):
  # explicit raises in the class used by construction
  n_raise = 0
  for f in cls.all_functions():
    if f.name in ('__eq__',):
      continue
    for sub in walk_no_nested(f.node):
      if isinstance(sub, ast.Raise):
        n_raise += 1
        exc = sub.exc
        if isinstance(exc, ast.Name):
          # raise error, with error = ValueError(...) assigned before
          rctx = FuncCtx.of(f)
          rn = rctx.node_at(sub)
          if rn is not None:
            exc = rctx.rd.expand(rn, exc)[0]
        exn = norm(exc.func) if isinstance(exc, ast.Call) else (norm(exc) if exc is not None else 're-raise')
        if exn != 'ValueError':
          exn2 = au.raised_class(repo, f, sub)
          if exn2 is None:
            rep.undecided('R3/only-ValueError', '%s raises ValueError' % f.name, 'the raised object `%s` is not followed to the construction of an exception' % norm(sub.exc)[:60], f.loc(sub))
            continue
          exn = exn2
        rep.check(exn == 'ValueError', 'R3/only-ValueError', '%s raises ValueError' % f.name, f.qualname, norm(sub)[:100],
                  '%s rejects with %s instead of ValueError' % (f.name, exn), f.loc(sub))
  rep.floor('explicit raise sites in the validators', n_raise, 9)
  # table look-ups keyed by call-site constants
  tf = cls.attrs.get('_test_functions')
  keys = set()
  if isinstance(tf, ast.Dict):
    keys = {au.const(k)[1] for k in tf.keys}
  inv = cls.attrs.get('_inverse_op')
  ikeys = {au.const(k)[1] for k in inv.keys} if isinstance(inv, ast.Dict) else set()
  fieldnames = set(cls.field_order)
  for h, v, call in sites:
    ops = [x for x in v if isinstance(x, str) and x not in fieldnames]
    attrs = [x for x in v if isinstance(x, str) and x in fieldnames]
    if h == '_test_range':
      ops.append(v[2][1])
      attrs.append(v[2][0])
    for o in ops:
      rep.check(o in keys, 'R3/only-ValueError', "operator '%s' is a key of the operator table" % o, cls.qualname + '.__post_init__',
                norm(call), "operator spelling '%s' is not in _test_functions: KeyError escapes the constructor" % o, cls.loc(call))
    for a in attrs:
      rep.check(a in fieldnames, 'R3/only-ValueError', 'attribute %s is an annotated field' % a, cls.qualname + '.__post_init__', norm(call),
                'attribute name %s is not an annotated field: KeyError/AttributeError escapes' % a, cls.loc(call))
    if h in ('_test_value_within_bounds', '_test_range'):
      o1 = v[1]
      rep.check(o1 in ikeys, 'R3/only-ValueError', "operator '%s' has an inverse spelling" % o1, cls.qualname + '.__post_init__',
                norm(call), "operator '%s' is not in _inverse_op: KeyError escapes when the error message is built" % o1, cls.loc(call))
  # int()/float() conversions: the converted value must be finitely bounded on every path reaching the conversion
  for hname in HELPERS:
    f = cls.methods.get(hname)
    if f is None:
      continue
    g = cfgmod.CFG(f.node)
    rd = dataflow.Reaching(g)
    params = f.params
    for n in g.nodes:
      exprs = [n.expr] if n.kind == 'test' else ([n.ast] if n.kind in ('stmt', 'return', 'raisestmt') and n.ast is not None else [])
      for e in exprs:
        for call in au.calls_in(e):
          if isinstance(call.func, ast.Name) and call.func.id == 'int' and len(call.args) == 1:
            target = norm(rd.expand(n, call.args[0], keep=tuple(params))[0])
            # which call sites can reach here, and is the value bounded above by a finite constant there?
            bad_sites = []
            for h, v, c in sites:
              if h != hname:
                continue
              if hname == '_test_value_vs_threshold':
                op, bound = v[1], v[2]
                bounded = op in ('<', '<=') and math.isfinite(bound)
                # value >= bound only: unbounded above
              elif hname == '_test_value_within_bounds':
                bounded = math.isfinite(v[4]) and math.isfinite(v[0])
              else:
                upper, op2 = v[4], v[3]
                bounded = math.isfinite(v[0]) and (math.isfinite(upper) or op2 == '<')
              if not bounded:
                bad_sites.append(c)
            # the conversion must also be guarded by the comparisons on every path reaching it
            paths = pathcond.paths_to(g, lambda m: m is n, back_limit=0)
            guarded = True
            for p in paths:
              pf = pathcond.PathFacts(p, rd, keep=tuple(params))
              if not pf.feasible:
                continue
              # short-circuit inside the same test: `isinstance(bound, int) and int(value) != value`
              if not pf.every_case_has(lambda ex, t: t and isinstance(ex, ast.Call) and '_test_functions[' in norm(ex.func)):
                guarded = False
            # discharger: the value is an int or a float with is_integer() on every feasible path (inf and nan are not integers)
            finite_int = bool(paths)
            for p in paths:
              pf = pathcond.PathFacts(p, rd, keep=tuple(params))
              if not pf.feasible:
                continue
              def intlike(ex, t, tgt=target):
                sx = norm(ex)
                return t and (sx == 'isinstance(%s, int)' % tgt or sx == '%s.is_integer()' % tgt)
              if not pf.every_case_has(intlike):
                finite_int = False
            if finite_int:
              rep.ok('R3/only-ValueError', '%s: int(%s) is applied to an int or an integer-valued (hence finite) float' % (hname, target), loc=f.loc(call))
              continue
            dl_ = au.delegations(repo, f)
            if not (not bad_sites and guarded) and dl_:
              rep.undecided('R3/only-ValueError', '%s: int(%s) only sees finitely bounded values' % (hname, target),
                            'the comparisons guarding the conversion are not in the recognised form, and %s hands the checks to %s, which is not followed' % (hname, dl_[0][1]), f.loc(call))
              continue
            rep.check(not bad_sites and guarded, 'R3/only-ValueError', '%s: int(%s) only sees finitely bounded values' % (hname, target),
                      f.qualname, norm(call),
                      'int(%s) in %s can be reached with an unbounded value (call sites: %s): float("inf") raises OverflowError instead of ValueError'
                      % (target, hname, '; '.join(norm(c) for c in bad_sites) or 'unguarded path'), f.loc(call))


def r4_eq(repo, rep, cls):
  f = cls.methods.get('__eq__')
  if f is None:
    if cls.is_dataclass:
      rep.ok('R4/eq', 'dataclass-generated __eq__ compares fields')
      return
    rep.violation('R4/eq', cls.qualname, 'no __eq__', 'no field-wise equality', cls.loc())
    return
  rep.fn(f)
  a, b = f.params[0], f.params[1]
  rets = [s for s in walk_no_nested(f.node) if isinstance(s, ast.Return) and s.value is not None]
  final = [r for r in rets if not au.const(r.value)[0]]
  good = False
  ectx = FuncCtx.of(f)
  for r in final:
    c = r.value
    at_ = ectx.node_at(r)
    if at_ is not None:
      c = ectx.rd.expand(at_, c, keep=(a, b))[0]          # as_dict = dataclasses.asdict; as_dict(self) == as_dict(other)
    if isinstance(c, ast.BoolOp) and isinstance(c.op, ast.Or):
      # `self is other or <field comparison>`: identical objects have equal fields
      rest = [v for v in c.values if not (isinstance(v, ast.Compare) and len(v.ops) == 1 and isinstance(v.ops[0], ast.Is)
                                          and {norm(v.left), norm(v.comparators[0])} == {a, b})]
      if len(rest) == 1:
        c = rest[0]
    if isinstance(c, ast.Compare) and len(c.ops) == 1 and isinstance(c.ops[0], ast.Eq):
      l, rr = norm(c.left), norm(c.comparators[0])
      if {l, rr} == {'dataclasses.asdict(%s)' % a, 'dataclasses.asdict(%s)' % b}:
        good = True
  closed_ = all(not au.aliens(ectx.rd.expand(ectx.node_at(r), r.value, keep=(a, b))[0], {a, b}) for r in final if ectx.node_at(r) is not None)
  rep.check3(True if good else (False if closed_ else None), 'R4/eq', '__eq__ compares asdict() of both operands', f.qualname, '; '.join(norm(r) for r in final)[:120],
             '__eq__ does not compare the field values of both operands (%s)' % '; '.join(norm(r) for r in final)[:120], f.loc(),
             why_open='the returned comparison reads names that are not resolved')
  for r in rets:
    okc, v = au.const(r.value)
    if okc and v is False:
      rep.violation('R4/eq', f.qualname, norm(r), '__eq__ has a path returning False regardless of field values', f.loc(r))


def run(repo, rep, tier):
  cls = repo.cls(CLS)
  f, rows, sites = r1_table(repo, rep, cls)
  r2_helpers(repo, rep, cls, sites)
  r3_exceptions(repo, rep, cls, sites)
  r4_eq(repo, rep, cls)
  rep.assume('bool is an int in Python: True/False are accepted where integers are (not part of the documented domain table)')
