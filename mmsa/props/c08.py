"""C08 — design diagnostics never serve stale values (cache-invalidation discipline).

Decided: for every memoised field of TBRMMDiagnostics (discovered from the
code: a field that some method tests against None and stores a computed value
to) and every writer of a field in its transitive read set, every normal path
through the writer that stores the input also resets the memo field (directly,
or through a callee/setter whose summary resets it on all of its paths).
Plus: a writer stores each of its state fields on every normal path
(uniform-write), and lru_cache'd methods read no instance state.
Not decided: numeric equality of recomputed values with a fresh object's.
"""
import ast
import re

from mmsa import classfx
from mmsa.cfg import no_exc
from mmsa.core import norm, walk_no_nested

CLASS = 'tbrmmdiagnostics.TBRMMDiagnostics'

EXPLANATION = (
    'Static must-reset (typestate) analysis of TBRMMDiagnostics: memo fields, their transitive read sets and '
    'the writers of their inputs are discovered from the AST; on the CFG of every writer each path from entry '
    'to a normal exit that stores an input field must pass a reset of every dependent memo field '
    '(interprocedural through self-method and property-setter summaries). Holds for every call history because '
    'it is a per-writer invariant. Decides the invalidation discipline, not numeric equality with a fresh object.')
RULE_TEXT = ('one obligation per (writer, memo field) pair, per (writer, state field) uniform-write pair and per cached '
             'method; non-trivial = the memo field really depends on a field the writer stores')


DICT_MEMO = set()        # (class, field) of dictionary-valued memo fields
DERIVED = set()          # (class, field) of fields the constructor derives from other state: refreshed by any store


def _fresh_container(v):
  return isinstance(v, (ast.Dict, ast.List, ast.Set)) and not (getattr(v, 'keys', None) or getattr(v, 'elts', None)) or \
      (isinstance(v, ast.Call) and norm(v.func).split('.')[-1] in ('dict', 'OrderedDict', 'defaultdict', 'list', 'set') and not [a for a in v.args if not isinstance(a, ast.Name)])


def _memo_fields(cf):
  """field -> list of (function, store node) where the function both tests
  `self.field is [not] None` and stores a non-None value into it."""
  memo = {}
  for f in cf.funcs.values():
    if f.kind == 'setter' or f.name == '__init__':
      continue
    sn = cf.selfname(f)
    tested = set()
    # locals that name a field: `setup = self._aasetup ... if setup is None:` tests the field
    alias = {}
    for sub in walk_no_nested(f.node):
      if isinstance(sub, ast.Assign) and len(sub.targets) == 1 and isinstance(sub.targets[0], ast.Name) and classfx.self_attr(sub.value, sn):
        alias[sub.targets[0].id] = classfx.self_attr(sub.value, sn)
    for sub in walk_no_nested(f.node):
      if isinstance(sub, ast.Compare) and len(sub.ops) == 1 and isinstance(sub.ops[0], (ast.Is, ast.IsNot, ast.Eq, ast.NotEq)) \
          and classfx.is_none(sub.comparators[0]):
        name = classfx.self_attr(sub.left, sn) or (alias.get(sub.left.id) if isinstance(sub.left, ast.Name) else None)
        if name:
          tested.add(name)
      # truthiness tests `if not self._f:` / `if self._f:`
      if isinstance(sub, (ast.If, ast.IfExp, ast.While)):
        t = sub.test
        if isinstance(t, ast.UnaryOp) and isinstance(t.op, ast.Not):
          t = t.operand
        name = classfx.self_attr(t, sn)
        if name:
          tested.add(name)
    for name, node, value, via in cf.stores(f):
      if via == 'field' and name in tested and value is not None and not classfx.is_none(value):
        memo.setdefault(name, []).append((f, node))
    # dictionary memo: `self.F[key] = value` in a function that also looks the key up in self.F
    g_ = cf.cfg(f)
    for n_ in g_.nodes:
      if n_.kind == 'stmt' and isinstance(n_.ast, ast.Assign):
        for t_ in n_.ast.targets:
          if isinstance(t_, ast.Subscript):
            nm = classfx.self_attr(t_.value, sn)
            if nm and any((isinstance(x_, ast.Attribute) and classfx.self_attr(x_, sn) == nm and isinstance(x_.ctx, ast.Load)) for x_ in walk_no_nested(f.node)
                          if not (isinstance(getattr(x_, '_parent', None), ast.Subscript) and isinstance(x_._parent.ctx, ast.Store))):
              memo.setdefault(nm, []).append((f, n_))
              DICT_MEMO.add((cf.cls.qualname, nm))
    # hasattr/getattr/try-except AttributeError based caches
    for sub in walk_no_nested(f.node):
      if isinstance(sub, ast.Call) and isinstance(sub.func, ast.Name) and sub.func.id in ('hasattr', 'getattr') \
          and len(sub.args) >= 2 and isinstance(sub.args[0], ast.Name) and sub.args[0].id == sn \
          and isinstance(sub.args[1], ast.Constant) and isinstance(sub.args[1].value, str):
        nm = sub.args[1].value
        for name, node, value, via in cf.stores(f):
          if name == nm and via == 'field' and value is not None and not classfx.is_none(value):
            memo.setdefault(name, []).append((f, node))
  return memo


def _reset_summary(cf, f, memo_names, _stack=()):
  """Fields that f resets to None on every normal path entry -> exit."""
  if f.qualname in _stack:
    return set()
  g = cf.cfg(f)
  resets = _reset_nodes(cf, f, memo_names, _stack + (f.qualname,))
  out = set()
  for field, nodes in resets.items():
    p = g.path_avoiding(g.entry, lambda n: n is g.exit, lambda n: n in nodes, no_exc)
    if p is None and g.exit in g.reachable(g.entry, no_exc):
      out.add(field)
  return out


def _reset_nodes(cf, f, memo_names, _stack=()):
  """field -> set of CFG nodes of f at which the field is certainly reset."""
  out = {}
  for name, node, value, via in cf.stores(f):
    if via == 'field' and value is not None and classfx.is_none(value):
      out.setdefault(name, set()).add(node)
    elif via == 'field' and value is not None and (cf.cls.qualname, name) in DICT_MEMO and _fresh_container(value):
      out.setdefault(name, set()).add(node)          # a dictionary memo is reset by installing a fresh container
    elif via == 'field' and (cf.cls.qualname, name) in DERIVED:
      out.setdefault(name, set()).add(node)          # an eagerly derived field is refreshed by storing it again
    elif via == 'setter':
      callee = cf.cls.setters[name]
      for fld in _reset_summary(cf, callee, memo_names, _stack):
        out.setdefault(fld, set()).add(node)
  for m, node, call in cf.self_method_calls(f):
    callee = cf.cls.methods[m]
    for fld in _reset_summary(cf, callee, memo_names, _stack):
      out.setdefault(fld, set()).add(node)
  # ... or by clearing it
  sn_ = cf.selfname(f)
  g_ = cf.cfg(f)
  for n_ in g_.nodes:
    if n_.kind == 'stmt' and isinstance(n_.ast, ast.Expr) and isinstance(n_.ast.value, ast.Call) and isinstance(n_.ast.value.func, ast.Attribute) \
        and n_.ast.value.func.attr == 'clear':
      nm = classfx.self_attr(n_.ast.value.func.value, sn_)
      if nm and (cf.cls.qualname, nm) in DICT_MEMO:
        out.setdefault(nm, set()).add(n_)
  return out


def _state_stores(cf, f, memo_names=()):
  """Stores of f that change an input: every field store into a non-memo field
  (clearing an input with None is a change too); for memo fields only non-None
  stores (per field: list of nodes)."""
  out = {}
  for name, node, value, via in cf.stores(f):
    if via != 'field':
      continue
    if name in memo_names and value is not None and (classfx.is_none(value) or _fresh_container(value)):
      continue
    out.setdefault(name, []).append(node)
  return out


def _array_valued(e):
  """Heuristic used only to choose between 'ignore' and 'undecided': array constructors / conversions of the argument."""
  t = norm(e)
  return any(k in t for k in ('array(', 'asarray(', 'Series(', 'astype(', 'to_numpy(', 'tolist('))


def _only_none_reaches(ctx, dnode, store, name, val):
  """Every feasible path entry -> store on which the last definition of `name` is at `dnode` asserts that the value is
  None (`name is None`, `not name is not None`, the same on the setter's parameter)."""
  from mmsa import pathcond
  g, rd = ctx.g, ctx.rd
  try:
    paths = list(g.enumerate_paths(g.entry, lambda n_: n_ is store, no_exc, max_paths=500, back_limit=0))
  except Exception:
    return False
  seen = False
  for path in paths:
    pf = pathcond.PathFacts(path, rd, keep=(val,))
    last = pf.env.get(name)
    if not pf.feasible or last is None or last[0].node is not dnode:
      continue
    seen = True
    for conj in pf.dnf:
      is_none = False
      for e, t in conj:
        txt = norm(e)
        if (t and txt in ('%s is None' % name, '%s is None' % val)) or ((not t) and txt in ('%s is not None' % name, '%s is not None' % val)):
          is_none = True
      if not is_none:
        return False
  return seen


def analyse_class(repo, rep, class_q, floors=None, prefix=''):
  """Cache-invalidation discipline of one class. floors: dict with minimal counts
  (memo, writers, pairs, cached) or None for classes that may have no memo field."""
  cls = repo.cls(class_q)
  cf = classfx.ClassFields(cls)
  # helpers whose every use was inlined into the anchors are examined there
  cf.funcs = {q_: f_ for q_, f_ in cf.funcs.items() if not repo.inlined_away(f_)}
  for f in cf.funcs.values():
    rep.fn(f)
  memo = _memo_fields(cf)
  memo_names = set(memo)
  if floors:
    rep.floor('memo fields discovered', len(memo_names), floors.get('memo', 0))
  rep.extra.setdefault('memo_fields', {})[class_q] = sorted(memo_names)
  R = lambda r: prefix + r

  # dependency sets: fields read (transitively) by the functions computing the memo
  deps = {}
  for name, sites in memo.items():
    d = set()
    for f, node in sites:
      d |= cf.reads(f)
    deps[name] = d - {name}
  # parametrised memo: a value cached in a field by a function *with parameters* is valid only for the arguments it was
  # computed from; the test that decides on reuse must look at every parameter the value depends on
  from mmsa import dataflow as _dfm
  for name, sites in sorted(memo.items()):
    for f_, node_ in sites:
      params_ = [p_ for p_ in f_.params[1:]] if f_.kind != 'static' else list(f_.params)
      if not params_ or not (node_.kind == 'stmt' and isinstance(node_.ast, ast.Assign)):
        continue
      g_ = cf.cfg(f_)
      rd_m = _dfm.Reaching(g_)
      try:
        vx_ = rd_m.expand(node_, node_.ast.value, depth=12, keep=tuple(params_), aliases=True)[0]
      except Exception:
        continue
      used_ = {x_.id for x_ in ast.walk(vx_) if isinstance(x_, ast.Name) and x_.id in params_}
      sn_ = cf.selfname(f_)
      alias_ = {s_.targets[0].id for s_ in walk_no_nested(f_.node) if isinstance(s_, ast.Assign) and len(s_.targets) == 1 and isinstance(s_.targets[0], ast.Name)
                and classfx.self_attr(s_.value, sn_) == name}
      keyed_ = set()
      n_tests = 0
      for t_ in g_.nodes:
        if t_.kind != 'test':
          continue
        tx_ = rd_m.expand(t_, t_.expr, depth=12, keep=tuple(params_) + tuple(alias_))[0]
        if any(classfx.self_attr(y_, sn_) == name or (isinstance(y_, ast.Name) and y_.id in alias_) for y_ in ast.walk(tx_)):
          n_tests += 1
          keyed_ |= {y_.id for y_ in ast.walk(tx_) if isinstance(y_, ast.Name) and y_.id in params_}
      # a dictionary memo is keyed by its subscript
      if isinstance(node_.ast.targets[0], ast.Subscript):
        kx_ = rd_m.expand(node_, node_.ast.targets[0].slice, depth=12, keep=tuple(params_))[0]
        keyed_ |= {y_.id for y_ in ast.walk(kx_) if isinstance(y_, ast.Name) and y_.id in params_}
        n_tests += 1
      if not n_tests:
        continue
      missing_ = sorted(used_ - keyed_)
      rep.check(not missing_, R('R3/memo-key'), '%s: the reuse test of self.%s covers every parameter the cached value depends on (%s)' % (f_.name, name, sorted(used_)),
                f_.qualname, 'self.%s cached by %s(%s)' % (name, f_.name, ', '.join(params_)),
                'the value cached in self.%s by %s depends on the parameter(s) %s, which the test deciding on reuse does not look at: a call with other arguments gets the value computed for the earlier ones'
                % (name, f_.name, ', '.join(missing_)), f_.loc(node_.ast))
  # eagerly derived fields: a field the constructor fills from an expression that reads other (settable) state of the
  # object is a cache of that state just like a lazily filled one; whoever replaces the state must refresh or reset it
  init_f = cls.methods.get('__init__')
  settable = set()
  for f_ in cf.funcs.values():
    if f_.name != '__init__':
      settable |= {k_ for k_ in _state_stores(cf, f_, memo_names)}
  derived = {}
  if init_f is not None and init_f.qualname in cf.funcs:
    sn_ = cf.selfname(init_f)
    for name, node, value, via in cf.stores(init_f):
      if via != 'field' or value is None or classfx.is_none(value) or name in memo_names:
        continue
      rd_ = set()
      try:
        from mmsa import dataflow as _df
        value = _df.Reaching(cf.cfg(init_f)).expand(node, value, depth=12, aliases=True)[0]
      except Exception:
        pass
      for x_ in ast.walk(value):
        nm_ = classfx.self_attr(x_, sn_)
        if nm_ is None or not isinstance(getattr(x_, 'ctx', None), ast.Load):
          continue
        if nm_ in cls.getters:
          rd_ |= cf.reads(cls.getters[nm_])
        elif nm_ in cls.methods:
          rd_ |= cf.reads(cls.methods[nm_])
        else:
          rd_.add(nm_)
      rd_ = (rd_ & settable) - {name}
      if rd_:
        derived[name] = rd_
  for name, rd_ in derived.items():
    memo_names.add(name)
    deps[name] = rd_
    DERIVED.add((class_q, name))
  rep.extra.setdefault('eagerly_derived_fields', {})[class_q] = {k: sorted(v) for k, v in sorted(derived.items())}
  rep.extra.setdefault('memo_dependencies', {})[class_q] = {k: sorted(v) for k, v in sorted(deps.items())}

  # writers: every function other than __init__ that installs state into a non-memo field,
  # or calls a state-changing method on an object held in a field
  writers = []
  for f in cf.funcs.values():
    if f.name == '__init__':
      continue
    st = {k: v for k, v in _state_stores(cf, f, memo_names).items() if k not in memo_names}
    st.update(_subobject_writes(repo, cf, f))
    if st:
      writers.append((f, st))
  if floors:
    rep.floor('writers of input fields', len(writers), floors.get('writers', 0))
  rep.extra.setdefault('writers', {}).update({f.qualname: sorted(st) for f, st in writers})

  n_pairs = 0
  for f, st in writers:
    g = cf.cfg(f)
    resets = _reset_nodes(cf, f, memo_names)
    for m in sorted(memo_names):
      written = sorted(set(st) & deps[m])
      if not written:
        rep.ok(R('R2/must-reset'), '%s: %s independent of %s' % (f.qualname, m, sorted(st)), nontrivial=False, loc=f.loc())
        continue
      n_pairs += 1
      rnodes = resets.get(m, set())
      bad = None
      for fld in written:
        for snode in st[fld]:
          if snode in rnodes:
            continue
          p1 = g.path_avoiding(g.entry, lambda n: n is snode, lambda n: n in rnodes, no_exc)
          if g.entry is snode:
            p1 = [(snode, None)]
          p2 = g.path_avoiding(snode, lambda n: n is g.exit, lambda n: n in rnodes, no_exc)
          if p1 is not None and p2 is not None:
            bad = (fld, snode, p1, p2)
            break
        if bad:
          break
      rep.analysed['paths'] += 1
      if bad and f.name.startswith('_') and not f.name.startswith('__') and f.kind == 'method':
        # a private step of a larger writer (fit -> _construct_analysis_data; _fit_pre_period_model): the memo may be reset by
        # the caller after the step.  Accepted when every call site in the class is followed, on every path to the caller's
        # exit, by a reset of the memo (directly or through another step that resets it on all its paths)
        callers = []
        for c_ in cf.funcs.values():
          if c_ is f:
            continue
          gc_ = cf.cfg(c_)
          sites_ = [n_ for n_ in gc_.nodes if n_.ast is not None and n_.kind in ('stmt', 'return', 'test')
                    and any(isinstance(x_, ast.Call) and isinstance(x_.func, ast.Attribute) and x_.func.attr == f.name and isinstance(x_.func.value, ast.Name)
                            and c_.params and x_.func.value.id == c_.params[0] for x_ in ast.walk(n_.ast if n_.kind != 'test' else n_.expr))]
          if sites_:
            callers.append((c_, gc_, sites_))
        if callers:
          compensated = True
          for c_, gc_, sites_ in callers:
            rn_ = _reset_nodes(cf, c_, memo_names).get(m, set())
            for sn_ in sites_:
              if sn_ in rn_:
                continue
              if gc_.path_avoiding(sn_, lambda n: n is gc_.exit, lambda n: n in rn_ and n is not sn_, no_exc) is not None:
                compensated = False
          if compensated:
            rep.ok(R('R2/must-reset'), '%s stores %s; every caller (%s) resets %s after the call on all paths' % (f.qualname, written, ', '.join(c_.name for c_, _g, _s in callers), m),
                   loc=f.loc())
            continue
      if bad and len(f.params) <= 1 and f.kind in ('getter', 'method'):
        # a function without parameters cannot install new input: what it stores is derived from the state that is
        # already there (a cache kept in a form the memo recogniser does not know)
        fld, snode, p1, p2 = bad
        rep.undecided(R('R2/must-reset'), '%s: self.%s vs self.%s' % (f.qualname, fld, m),
                      'self.%s is written by the parameterless %s without resetting self.%s: the field is derived state in a form the memo recogniser does not know, not an input' % (fld, f.name, m),
                      f.loc(snode.ast))
      elif bad:
        fld, snode, p1, p2 = bad
        via = ' -> '.join('L%d' % n.lineno for n, _ in (p1 + p2[1:]) if n.lineno)
        rep.violation(
            R('R2/must-reset'), f.qualname, 'self.%s written without resetting self.%s' % (fld, m),
            'cached field %s (depends on %s) is not reset on the path %s through %s, so a stale value is served after the input changes'
            % (m, fld, via, f.qualname), f.loc(snode.ast))
      else:
        rep.ok(R('R2/must-reset'), '%s resets %s whenever it stores %s' % (f.qualname, m, written),
               'reset nodes at lines %s' % sorted(n.lineno for n in rnodes), f.loc())
  if floors:
    rep.floor('(writer, dependent memo) pairs', n_pairs, floors.get('pairs', 0))

  # uniform-write: a field stored on some normal path of a setter is stored on every normal path
  for f, st in writers:
    if f.kind != 'setter':
      continue
    g = cf.cfg(f)
    allstores = {}
    for name, node, value, via in cf.stores(f):
      if via == 'field':
        allstores.setdefault(name, set()).add(node)
    for fld, nodes in sorted(allstores.items()):
      p = g.path_avoiding(g.entry, lambda n: n is g.exit, lambda n: n in nodes, no_exc)
      if p is not None:
        via = ' -> '.join('L%d' % n.lineno for n, _ in p if n.lineno)
        rep.violation(R('R2/uniform-write'), f.qualname, 'self.%s stored on some paths only' % fld,
                      '%s stores %s on some normal paths but not on the path %s: the field keeps its old value there'
                      % (f.qualname, fld, via), f.loc())
      else:
        rep.ok(R('R2/uniform-write'), '%s stores %s on every normal path' % (f.qualname, fld), loc=f.loc())

  # R3: memoising decorators must not read instance state
  inst = cf.instance_fields()
  n_cached = 0
  for f in cf.funcs.values():
    if any('cache' in d for d in f.decorators):
      n_cached += 1
      bad = sorted(cf.reads(f) & inst)
      rep.check(not bad, R('R3/cached-method-pure'), '%s reads no instance field' % f.qualname, f.qualname,
                'cached method reads ' + ', '.join('self.' + b for b in bad),
                '%s is memoised by %s but reads instance state %s, which can change after the first call'
                % (f.qualname, f.decorators, bad), f.loc())
  if floors:
    rep.floor('memoised (lru_cache) methods', n_cached, floors.get('cached', 0))
  return memo_names, deps


def _subobject_writes(repo, cf, f):
  """field -> [nodes] for calls `self.F.m(...)` where m changes the state of the object held in F
  (m is a method of a repo class with attribute stores, e.g. self.tbr_cost.fit(...))."""
  out = {}
  sn = cf.selfname(f)
  g = cf.cfg(f)
  for n in g.nodes:
    for e in classfx._node_exprs(n):
      for sub in walk_no_nested(e):
        if isinstance(sub, ast.Call) and isinstance(sub.func, ast.Attribute) and isinstance(sub.func.value, ast.Attribute):
          fld = classfx.self_attr(sub.func.value, sn)
          if fld is None:
            continue
          m = sub.func.attr
          owners = [c for c in repo.classes.values() if m in c.methods]
          if any(_has_self_stores(c.methods[m]) for c in owners):
            out.setdefault(fld, []).append(n)
  return out


def _has_self_stores(f):
  sn = f.params[0] if f.params else None
  for s in walk_no_nested(f.node):
    if isinstance(s, (ast.Assign, ast.AugAssign)):
      for t in (s.targets if isinstance(s, ast.Assign) else [s.target]):
        if isinstance(t, ast.Attribute) and isinstance(t.value, ast.Name) and t.value.id == sn:
          return True
  return False


NP_INPLACE_METHODS = {'sort', 'fill', 'resize', 'put', 'itemset', 'partition', 'setfield', 'byteswap', 'append', 'extend', 'pop', 'clear', 'update', 'insert', 'remove', 'reverse'}
FRESH_FUNCS = {'np.array', 'numpy.array', 'np.copy', 'copy.copy', 'copy.deepcopy', 'list', 'tuple', 'np.cumsum', 'np.abs', 'abs', 'np.sqrt'}


def r4_reads_do_not_mutate(repo, rep, class_q):
  """Getters and other non-writer methods do not modify, in place, objects held in (or reachable from) instance fields:
  reading a derived quantity must not change what another read returns."""
  from mmsa.types import FuncCtx
  cls = repo.cls(class_q)
  n_sites = 0
  for f in cls.all_functions():
    if f.kind == 'setter' or f.name == '__init__':
      continue
    ctx = FuncCtx.of(f)
    g, rd = ctx.g, ctx.rd
    sn = f.params[0] if f.params else 'self'

    def is_state_alias(e, node, depth=8):
      if depth <= 0 or e is None:
        return False
      if isinstance(e, ast.Attribute):
        if isinstance(e.value, ast.Name) and e.value.id == sn:
          return True
        return is_state_alias(e.value, node, depth - 1)
      if isinstance(e, ast.Subscript):
        return is_state_alias(e.value, node, depth - 1)
      if isinstance(e, ast.Starred):
        return is_state_alias(e.value, node, depth - 1)
      if isinstance(e, ast.Call):
        fn = norm(e.func)
        if fn in ('np.asarray', 'numpy.asarray', 'np.ravel', 'np.reshape', 'np.squeeze') and e.args:
          return is_state_alias(e.args[0], node, depth - 1)
        if isinstance(e.func, ast.Attribute) and e.func.attr in ('reshape', 'ravel', 'view', 'squeeze', 'T', 'transpose'):
          return is_state_alias(e.func.value, node, depth - 1)
        if isinstance(e.func, ast.Attribute) and e.func.attr in ('get', 'setdefault', 'pop', '__getitem__'):
          return is_state_alias(e.func.value, node, depth - 1)      # an entry of a container held in the instance
        return False
      if isinstance(e, ast.Name):
        ds = rd.defs_at(node, e.id)
        for d in ds:
          if d.how in ('assign', 'unpack') and d.value is not None and is_state_alias(d.value, d.node, depth - 1):
            return True
          if d.how in ('assign', 'unpack') and d.node is not None and stored_before(e.id, d.node, node):
            return True
        return False
      return False

    def stored_before(name, def_node, use_node):
      """Is the object bound to `name` at def_node put into the instance (`self.f = name`, `self.f[k] = name`, or as a
      constructor / tuple component of such a value) at a statement that can precede use_node?"""
      for st in g.nodes:
        if st.kind != 'stmt' or not isinstance(st.ast, ast.Assign):
          continue
        into_state = False
        for t in st.ast.targets:
          b = t
          while isinstance(b, (ast.Subscript, ast.Attribute)) and not (isinstance(b, ast.Attribute) and isinstance(b.value, ast.Name) and b.value.id == sn):
            b = b.value
          if isinstance(b, ast.Attribute) and isinstance(b.value, ast.Name) and b.value.id == sn:
            into_state = True
        if not into_state:
          continue
        v = st.ast.value
        comps = [v] + (list(v.elts) if isinstance(v, (ast.Tuple, ast.List)) else [])
        if not any(isinstance(c, ast.Name) and c.id == name for c in comps):
          continue
        if not any(d.node is def_node for d in rd.defs_at(st, name)):
          continue
        if st is not use_node and use_node in g.reachable(st, stop=lambda n: n is def_node):
          return True
      return False

    for node in g.nodes:
      for e in ctx.node_exprs(node):
        sites = []
        for sub in walk_no_nested(e):
          if isinstance(sub, ast.AugAssign):
            sites.append((sub.target if not isinstance(sub.target, ast.Name) else sub.target, norm(sub), sub))
          elif isinstance(sub, ast.Assign):
            for t in sub.targets:
              if isinstance(t, ast.Subscript):
                sites.append((t.value, norm(sub), sub))
          elif isinstance(sub, ast.Call):
            o = [k.value for k in sub.keywords if k.arg == 'out']
            for x in o:
              sites.append((x, norm(sub), sub))
            if isinstance(sub.func, ast.Attribute) and sub.func.attr in NP_INPLACE_METHODS:
              sites.append((sub.func.value, norm(sub), sub))
        for recv, txt, sub in sites:
          if isinstance(recv, ast.Attribute) and isinstance(recv.value, ast.Name) and recv.value.id == sn and isinstance(sub, ast.Assign):
            continue      # plain field store (handled by the cache rules)
          n_sites += 1
          alias = is_state_alias(recv, node)
          rep.check(not alias, 'R4/read-does-not-mutate', '%s: in-place operation %s does not touch cached state' % (f.name, txt[:40]), f.qualname, txt[:120],
                    '%s modifies `%s` in place (%s), and that object is held in (or is a view of) the instance\'s cached state: reading this quantity changes what later reads of other quantities return'
                    % (f.qualname, norm(recv)[:40], txt[:80]), f.loc(sub))
  rep.extra['in_place_sites_examined'] = n_sites


def r5_inputs_copied(repo, rep, class_q):
  """The series setters store a private copy (np.array(value)), not the caller's buffer: eagerly derived fields (means)
  and lazily derived ones (fit, variance) must see the same data even if the caller later modifies its array."""
  from mmsa.types import FuncCtx
  cls = repo.cls(class_q)
  n = 0
  for name, f in cls.setters.items():
    ctx = FuncCtx.of(f)
    val = f.params[1]
    for node in ctx.g.nodes:
      if node.kind == 'stmt' and isinstance(node.ast, ast.Assign) and any(classfx.self_attr(t, f.params[0]) for t in node.ast.targets):
        fld = [classfx.self_attr(t, f.params[0]) for t in node.ast.targets][0]
        if fld in cls.setters or classfx.is_none(node.ast.value):
          continue
        rhs = node.ast.value
        cands = [(node, rhs)]
        if isinstance(rhs, ast.Name):
          cands = [(d.node, d.value) for d in ctx.rd.defs_at(node, rhs.id) if d.how == 'assign' and d.value is not None and not classfx.is_none(d.value)]
        for dn, dv in cands:
          e = ctx.rd.expand(dn, dv, keep=(val,))[0]
          if isinstance(rhs, ast.Name) and dn is not node and _only_none_reaches(ctx, dn, node, rhs.id, val):
            continue          # this definition reaches the store only on paths where the value is None
          # only stores of the series itself (array-valued), not of scalars derived from it
          if not any(isinstance(x, ast.Name) and x.id == val for x in ast.walk(e)):
            continue
          if isinstance(e, ast.Call) and isinstance(e.func, ast.Attribute) and e.func.attr in ('mean', 'sum', 'std', 'var', 'max', 'min'):
            continue
          n += 1
          t = norm(e)
          copies = (re.fullmatch(r'(np|numpy)\.array\(%s(, dtype=[\w.]+)?\)' % val, t) is not None) or t.endswith('.copy()') or t.startswith('copy.')
          # recognised sharing forms: the parameter itself, or a view of it
          def is_view(x_):
            if isinstance(x_, ast.Name):
              return x_.id == val
            if isinstance(x_, ast.Call) and norm(x_.func) in ('np.asarray', 'numpy.asarray', 'np.asanyarray', 'np.ravel', 'np.atleast_1d', 'np.squeeze') and x_.args:
              return is_view(x_.args[0])
            if isinstance(x_, ast.Call) and isinstance(x_.func, ast.Attribute) and x_.func.attr in ('reshape', 'ravel', 'view', 'squeeze', 'transpose') :
              return is_view(x_.func.value)
            if isinstance(x_, ast.Attribute) and x_.attr in ('T', 'values', 'real'):
              return is_view(x_.value)
            if isinstance(x_, ast.Subscript) and isinstance(x_.slice, ast.Slice):
              return is_view(x_.value)
            if isinstance(x_, ast.Call) and norm(x_.func) in ('np.array', 'numpy.array') and x_.args and any(k.arg == 'copy' and au.is_const(k.value, False) for k in x_.keywords):
              return is_view(x_.args[0])
            return False
          if not copies and not is_view(e):
            rep.undecided('R5/inputs-copied', '%s setter: self.%s = %s' % (name, fld, t[:50]), 'the stored value is computed from the argument in a form that is neither a recognised copy nor a recognised view of it', f.loc(node.ast)) \
                if isinstance(e, (ast.Call, ast.Name)) and not isinstance(e, ast.BinOp) and _array_valued(e) else None
            continue
          rep.check(copies, 'R5/inputs-copied', '%s setter stores a private copy in %s' % (name, fld), f.qualname, 'self.%s = %s' % (fld, t[:80]),
                    'the %s setter stores `%s`: the object keeps the caller\'s array (no copy), so a later in-place change by the caller alters lazily computed results while eagerly computed ones (means) stay'
                    % (name, t[:60]), f.loc(node.ast))
        continue
        t = ''
        copies = (re.fullmatch(r'(np|numpy)\.array\(%s(, dtype=[\w.]+)?\)' % val, t) is not None) or t.endswith('.copy()') or t.startswith('copy.')
        rep.check(copies, 'R5/inputs-copied', '%s setter stores a private copy in %s' % (name, fld), f.qualname, 'self.%s = %s' % (fld, t[:80]),
                  'the %s setter stores `%s`: the object keeps the caller\'s array (no copy), so a later in-place change by the caller alters lazily computed results while eagerly computed ones (means) stay'
                  % (name, t[:60]), f.loc(node.ast))
  rep.floor('series stores in setters', n, 2)


def run(repo, rep, tier):
  analyse_class(repo, rep, CLASS, floors={'memo': 7, 'writers': 2, 'pairs': 14, 'cached': 2})
  r4_reads_do_not_mutate(repo, rep, CLASS)
  r5_inputs_copied(repo, rep, CLASS)
