"""C04 — diagnostics and score attached to a design belong to its reported geos.

Decided: (R1) at every pushed TBRMMDesign(score, T, C, diag) the diagnostics
object was built from aggregate_time_series(T), its control series last set
from aggregate_time_series(C), and the score object is built from that same
diagnostics object in the same state; (R2) a diagnostics object that is reused
across iterations (defined outside the innermost loop and mutated inside it)
reaches the retained design only through copy.deepcopy, and reaches the score
either through a deep copy or with its score tuple forced in the same
iteration; (R3) the data table is narrowed to its last n_pretest_max columns
before anything is derived from it; (R4) the index setter builds assignments,
index, row array and share array from the one argument, and the aggregates
index both arrays by their argument, summing over geos; (R5) with a budget
range the exhaustive search replaces the last score entry by
budget_range[1] / required_impact of the current control group and only then;
the greedy search never rewrites the score of a pushed design; (R6) index ->
ID mapping (C01.R5) and per-access index install (C10.R2).
Not decided: numeric equality with sums recomputed from the raw frame.
"""
import ast
import re

from mmsa import au, canon, cfg as cfgmod, dataflow, search, sym
from mmsa.core import Undecided, norm, walk_no_nested
from mmsa.types import FuncCtx

EXPLANATION = (
    'Def-use / reaching-definition analysis at the two construction sites of TBRMMDesign (latest dominating store of diag.x, unique '
    'construction of the diagnostics object), loop-carried-mutable escape rule, argument tables of the index setter and aggregates, '
    'algebraic identity of the replaced score entry, control dependence of the replacement on the budget range.')
RULE_TEXT = 'one obligation per provenance clause at each push site and per argument of the data-object methods'

AGG = 'self.data.aggregate_time_series(%s)'


def _denotes(view, at, arg, want, other, use_node):
  """Does expression `arg` (at node `at`) denote the pushed group `want` (text, valid at `use_node`)?
  True / False (it is the other pushed group) / None (not resolved)."""
  t = norm(arg)
  if t == want:
    return True
  try:
    full_a = norm(view.rd.expand(at, arg, aliases=True)[0])
    full_w = norm(view.rd.expand(use_node, ast.parse(want, mode='eval').body, aliases=True)[0])
    full_o = norm(view.rd.expand(use_node, ast.parse(other, mode='eval').body, aliases=True)[0])
  except SyntaxError:
    return None
  if full_a == full_w:
    return True
  if t == other or full_a == full_o:
    return False
  return None


def diag_provenance(view, node, D, T, C):
  """(verdict, why, x_store_node, def_node) — D built from aggregate(T), D.x last set from aggregate(C).
  verdict: True / False (a recognised other group feeds the diagnostics, or no control series is ever set) / None."""
  xs = view.attr_store_before(node, D, 'x')
  if xs is None:
    anyx = any(isinstance(x_, ast.Attribute) and x_.attr == 'x' and isinstance(x_.ctx, ast.Store) for x_ in ast.walk(view.f.node))
    escapes = any(isinstance(c_, ast.Call) and any(isinstance(a_, ast.Name) and a_.id == D for a_ in c_.args) and norm(c_.func).split('.')[-1] not in ('deepcopy', 'copy', 'TBRMMScore', 'TBRMMDesign')
                  for c_ in ast.walk(view.f.node))
    return (None if (anyx or escapes) else False), 'no store to %s.x dominates the use' % D, None, None
  xv = view.expand(xs, xs.ast.value)
  xt = norm(xv)
  if not (isinstance(xv, ast.Call) and norm(xv.func) == 'self.data.aggregate_time_series' and len(xv.args) == 1):
    return None, '%s.x is `%s`, not visibly the aggregate series of the pushed control group %s' % (D, xt, C), xs, None
  raw = xs.ast.value.args[0] if isinstance(xs.ast.value, ast.Call) and xs.ast.value.args else xv.args[0]
  sg = _denotes(view, xs, raw, C, T, node)
  if not sg:
    return sg, '%s.x is `%s`, not the aggregate series of the pushed control group %s' % (D, xt, C), xs, None
  d = view.rd.single_def(xs, D)
  if d is None or d.how != 'assign':
    return None, '%s has no unique construction' % D, xs, None
  cv = view.expand(d.node, d.value)
  ct = norm(cv)
  if not (isinstance(cv, ast.Call) and norm(cv.func).split('.')[-1] == 'TBRMMDiagnostics' and len(cv.args) == 2 and isinstance(cv.args[0], ast.Call)
          and norm(cv.args[0].func) == 'self.data.aggregate_time_series' and len(cv.args[0].args) == 1 and norm(cv.args[1]) == 'self.parameters'):
    return None, '%s is built as `%s`, not visibly from the aggregate series of the pushed treatment group %s' % (D, ct, T), xs, d.node
  rawt = d.value.args[0].args[0] if isinstance(d.value, ast.Call) and d.value.args and isinstance(d.value.args[0], ast.Call) and d.value.args[0].args else cv.args[0].args[0]
  sg = _denotes(view, d.node, rawt, T, C, node)
  if not sg:
    return sg, '%s is built as `%s`, not from the aggregate series of the pushed treatment group %s' % (D, ct, T), xs, d.node
  return True, '', xs, d.node


def strip_deepcopy(e):
  if isinstance(e, ast.Call) and norm(e.func) in ('copy.deepcopy', 'deepcopy') and len(e.args) == 1:
    return e.args[0], True
  return e, False


def r1_r2_r5_search(repo, rep, name):
  view = search.SearchView(repo, name)
  f, g, rd = view.f, view.g, view.rd
  rep.fn(f)
  for P_ in view.pushed:
    if not P_.args or P_.T is None:
      rep.undecided('R1/provenance', '%s push' % name, 'pushed object not built by TBRMMDesign here', f.loc(P_.push_call))
      continue
    T, C = norm(P_.T), norm(P_.C)
    dn = P_.design_node
    darg = P_.args.get('diag')
    sarg = P_.args.get('score')
    if darg is None or sarg is None:
      rep.violation('R1/provenance', f.qualname, norm(P_.ctor)[:120], '%s pushes a design without diagnostics or score' % name, f.loc(P_.ctor))
      continue
    D_expr, d_copied = strip_deepcopy(darg)
    if not isinstance(D_expr, ast.Name):
      rep.undecided('R1/provenance', '%s diag argument' % name, norm(darg)[:60], f.loc(P_.ctor))
      continue
    D = D_expr.id
    ok, why, xs, defn = diag_provenance(view, dn, D, T, C)
    rep.check3(ok, 'R1/provenance', '%s: design.diag holds the series of the pushed groups (%s, %s)' % (name, T, C), f.qualname,
               'TBRMMDesign(..., %s, %s, %s)' % (T, C, norm(darg)[:40]), '%s: the diagnostics attached to the design do not belong to its geos — %s' % (name, why), f.loc(P_.ctor),
               why_open=why)
    # score object
    sdef = rd.single_def(dn, sarg.id) if isinstance(sarg, ast.Name) else None
    sctor = sdef.value if sdef is not None and sdef.how == 'assign' else sarg
    snode = sdef.node if sdef is not None else dn
    for _hop in range(4):          # score = helper_local (an inlined helper's result variable): follow plain aliases
      if isinstance(sctor, ast.Name):
        d2 = rd.single_def(snode, sctor.id)
        if d2 is not None and d2.how == 'assign' and d2.value is not None:
          sctor, snode = d2.value, d2.node
          continue
      break
    if not (isinstance(sctor, ast.Call) and norm(sctor.func).endswith('TBRMMScore') and len(sctor.args) == 1) and au.aliens(sctor, (D, T, C)):
      rep.undecided('R1/provenance', '%s: score of the pushed design' % name, 'the score `%s` is not visibly a TBRMMScore built here' % norm(sctor)[:60], f.loc(P_.ctor))
      continue
    if not (isinstance(sctor, ast.Call) and norm(sctor.func).endswith('TBRMMScore') and len(sctor.args) == 1):
      rep.violation('R1/provenance', f.qualname, 'score=%s' % norm(sarg)[:60],
                    '%s: the score of the pushed design is `%s`, not a TBRMMScore built from the design\'s diagnostics' % (name, norm(sctor)[:80]), f.loc(P_.ctor))
      continue
    S_expr, s_copied = strip_deepcopy(sctor.args[0])
    same_obj = isinstance(S_expr, ast.Name) and S_expr.id == D and rd.defs_at(snode, D) == rd.defs_at(dn, D)
    same_state = same_obj and view.attr_store_before(snode, D, 'x') is xs
    if not same_state and not same_obj:
      # another name: an alias or a copy of the same object taken after the control series was set is the same state
      sx = rd.expand(snode, S_expr, aliases=True)[0]
      sx, _c = strip_deepcopy(sx)
      def root_ctor(at, nm, hops=5):
        """Definition node of the constructor call the object named `nm` descends from, through aliases and (deep) copies."""
        d_ = rd.single_def(at, nm)
        while d_ is not None and d_.how == 'assign' and d_.value is not None and hops > 0:
          v_, _cp = strip_deepcopy(d_.value)
          if isinstance(v_, ast.Name):
            d_, hops = rd.single_def(d_.node, v_.id), hops - 1
            continue
          if isinstance(v_, ast.Call) and norm(v_.func).split('.')[-1] == 'TBRMMDiagnostics':
            return d_.node
          return None
        return None
      r_s = root_ctor(snode, S_expr.id) if isinstance(S_expr, ast.Name) else None
      r_d = root_ctor(dn, D)
      if r_s is not None and r_d is not None and r_s is not r_d:
        same_state = False          # the score is computed from another, separately constructed diagnostics object
      elif r_s is not None and r_s is r_d:
        same_state = None           # copies / aliases of one object: whether both were taken in the same state is not followed
      elif isinstance(sx, ast.Name) and sx.id == D:
        same_state = None if xs is None else (xs in view.doms.get(snode, ()) or None)
      elif not isinstance(sx, ast.Name):
        same_state = None
      elif ok is None:
        same_state = None
    rep.check3(same_state, 'R1/provenance', '%s: score is computed from the same diagnostics object in the same state' % name, f.qualname,
              'TBRMMScore(%s) vs diag=%s' % (norm(sctor.args[0])[:40], norm(darg)[:40]),
              '%s: the score is built from `%s`, which is not the diagnostics object (with the control series) attached to the design' % (name, norm(sctor.args[0])[:60]),
              f.loc(sctor), why_open='whether `%s` is the diagnostics object of the design in the same state is not resolved' % norm(sctor.args[0])[:40])
    # R2: loop-carried mutable escape
    loops = view.loops_enclosing(dn)
    inner = loops[-1] if loops else None
    carried = False
    if inner is not None and defn is not None:
      body = g.loop_body_nodes(inner)
      mutated_inside = any(n.kind == 'stmt' and isinstance(n.ast, ast.Assign) and any(
          isinstance(t, ast.Attribute) and norm(t.value) == D for t in n.ast.targets) for n in body)
      carried = defn not in body and mutated_inside
    if carried:
      rep.check(d_copied, 'R2/copy-before-escape', '%s: reused diagnostics object is deep-copied into the design' % name, f.qualname,
                'diag=%s' % norm(darg)[:60], '%s: the diagnostics object `%s` is reused and modified by later iterations but stored in the design without copy.deepcopy: every retained design ends up reporting the series of the last control group tried'
                % (name, D), f.loc(P_.ctor))
      if not s_copied:
        # allowed only if the score tuple is forced before the next mutation: a read of <score>.score in this iteration dominating the push
        forced = False
        if isinstance(sarg, ast.Name):
          for n in view.doms.get(P_.node, ()):
            if inner is not None and n in g.loop_body_nodes(inner) and n.kind == 'stmt':
              for sub in walk_no_nested(n.ast):
                if isinstance(sub, ast.Attribute) and isinstance(sub.ctx, ast.Load) and norm(sub) == '%s.score' % sarg.id:
                  forced = True
        rep.check(forced, 'R2/copy-before-escape', '%s: score of a reused diagnostics object is forced before the object changes' % name, f.qualname,
                  'TBRMMScore(%s)' % norm(sctor.args[0])[:40],
                  '%s: the score object keeps a reference to the reused diagnostics object and its tuple is not evaluated in the same iteration: it is computed later from another control group' % name,
                  f.loc(sctor))
      else:
        rep.ok('R2/copy-before-escape', '%s: score built from a deep copy' % name, loc=f.loc(sctor))
    else:
      rep.ok('R2/copy-before-escape', '%s: diagnostics object is fresh per pushed design' % name, loc=f.loc(P_.ctor), nontrivial=False)
    # R5: score replacement
    repl = []
    if isinstance(sarg, ast.Name):
      # the score object may be known under several local names: design_score = score_obj (a plain alias, e.g. the result
      # variable of an inlined factory helper)
      aliases, cur_, at_ = {sarg.id: dn}, sarg.id, dn
      for _hop in range(4):
        d_ = rd.single_def(at_, cur_)
        if d_ is not None and d_.how == 'assign' and isinstance(d_.value, ast.Name):
          cur_, at_ = d_.value.id, d_.node
          aliases[cur_] = at_
        else:
          break
      for n in g.nodes:
        if n.kind == 'stmt' and isinstance(n.ast, ast.Assign):
          for t in n.ast.targets:
            if isinstance(t, ast.Attribute) and t.attr == 'score' and norm(t.value) in aliases \
                and rd.defs_at(n, norm(t.value)) == rd.defs_at(aliases[norm(t.value)], norm(t.value)):
              repl.append(n)
    if name == 'greedy_search':
      rep.check(not repl, 'R5/score-entry', 'greedy_search never rewrites the score of a pushed design', f.qualname,
                '; '.join(norm(n.ast)[:80] for n in repl), 'greedy_search overwrites the score of a pushed design (%s): the last entry is no longer 1 / required_impact'
                % '; '.join(norm(n.ast)[:60] for n in repl), f.loc(repl[0].ast) if repl else f.loc())
    else:
      if not repl:
        rep.violation('R5/score-entry', f.qualname, 'no score replacement', 'exhaustive_search with a budget range no longer replaces the last score entry by max budget / required impact', f.loc())
      for n in repl:
        facts_none = {'self.parameters.budget_range': 'none'}
        resolve_at = lambda node, e_: rd.expand(node, e_)[0]
        reach = g.reachable(g.entry, cfgmod.edge_filter_under(g, facts_none, resolve_at=resolve_at, extra=cfgmod.no_exc))
        rep.check(n not in reach, 'R5/score-entry', 'replacement happens only when a budget range is given', f.qualname, norm(n.ast)[:100],
                  'the last score entry is replaced even without a budget range', f.loc(n.ast))
        v = n.ast.value
        kw = None
        if isinstance(v, ast.Call) and isinstance(v.func, ast.Attribute) and v.func.attr == '_replace':
          kws = {k.arg: k.value for k in v.keywords}
          base = norm(view.expand(n, v.func.value))
          rep.check(set(kws) == {'inv_required_impact'} and base in {'%s.score' % a_ for a_ in aliases}, 'R5/score-entry', 'only the last entry of this design\'s own score is replaced', f.qualname,
                    norm(v)[:100], 'the replacement `%s` changes entries other than inv_required_impact or starts from another score' % norm(v)[:80], f.loc(n.ast))
          kw = kws.get('inv_required_impact')
        if kw is None:
          rep.undecided('R5/score-entry', 'replacement', norm(v)[:80], f.loc(n.ast))
          continue
        ex = view.expand(n, kw)
        leftover = {x.id for x in ast.walk(ex) if isinstance(x, ast.Name)} - {'self', D}
        good_defs = True
        why = ''
        for nm in leftover:
          defs = rd.defs_at(n, nm)
          if not (defs and all(d.how == 'assign' and d.value is not None and norm(d.value) == '%s.required_impact' % D for d in defs)):
            good_defs = False
            why = '%s <- %s' % (nm, '; '.join(sorted({norm(d.value) if d.value is not None else d.how for d in defs}))[:80])
        # every read of D.required_impact in the entry happens in the state with the pushed control series
        imp_nodes = [n] + [d.node for nm in leftover for d in rd.defs_at(n, nm)]
        same_state = all(view.attr_store_before(m, D, 'x') is xs for m in imp_nodes)
        rep.check(good_defs and same_state, 'R5/score-entry', 'the impact used is the required impact of the current control group', f.qualname,
                  'inv_required_impact=%s %s' % (norm(ex)[:80], why),
                  'the replaced entry uses an impact that is not %s.required_impact of the pushed control group (e.g. the optimistic estimate): %s' % (D, why or norm(ex)[:80]), f.loc(n.ast))
        try:
          R, B = sym.symbol('R', True), sym.symbol('B', True)
          leaf = lambda e: R if (norm(e) in leftover or norm(e) == '%s.required_impact' % D) else (B if norm(e) in ('self.parameters.budget_range[1]',) else None)
          okalg = sym.equal(sym.to_sym(ex, leaf), B / R)
        except Undecided:
          okalg = False
        rep.check(okalg, 'R5/score-entry', 'replaced entry == budget_range[1] / required_impact', f.qualname, 'inv_required_impact=%s' % norm(ex)[:80],
                  'the replaced last score entry `%s` is not maximum budget / required impact' % norm(ex)[:80], f.loc(n.ast))


def r3_window(repo, rep):
  cls = repo.cls(search.MM)
  f = cls.methods['__init__']
  rep.fn(f)
  ctx = FuncCtx.of(f)
  g, rd = ctx.g, ctx.rd
  data, par = f.params[1], f.params[2]
  narrow = [n for n in g.nodes if n.kind == 'stmt' and isinstance(n.ast, ast.Assign) and any(norm(t) == '%s.df' % data for t in n.ast.targets)]
  if len(narrow) != 1:
    rep.violation('R3/window', f.qualname, 'no narrowing of data.df', 'the constructor no longer restricts the data to the most recent n_pretest_max dates (found %d stores to data.df)' % len(narrow), f.loc())
    return
  n = narrow[0]
  v = n.ast.value
  ok = False
  def as_slice(x_):
    """A slice object spelled slice(lo, hi[, step]) is the subscript slice lo:hi:step."""
    x_ = rd.expand(n, x_, keep=(data, par))[0] if not isinstance(x_, ast.Slice) else x_
    if isinstance(x_, ast.Call) and isinstance(x_.func, ast.Name) and x_.func.id == 'slice' and not x_.keywords and 1 <= len(x_.args) <= 3:
      a_ = [None if au.is_const(y_, None) else y_ for y_ in x_.args]
      if len(a_) == 1:
        return ast.Slice(lower=None, upper=a_[0], step=None)
      return ast.Slice(lower=a_[0], upper=a_[1], step=a_[2] if len(a_) > 2 else None)
    return x_
  vx = v
  if not (isinstance(v, ast.Subscript) and norm(v.value) == '%s.df.iloc' % data):
    v_full = rd.expand(n, v, keep=(data, par))[0]        # the indexer / the slices named first
    if isinstance(v_full, ast.Subscript) and norm(v_full.value) == '%s.df.iloc' % data:
      v = v_full
  if isinstance(v, ast.Subscript) and norm(v.value) == '%s.df.iloc' % data and isinstance(v.slice, ast.Tuple) and len(v.slice.elts) == 2:
    rows, cols = (as_slice(x_) for x_ in v.slice.elts)
    lo_ = rd.expand(n, cols.lower, keep=(data, par))[0] if isinstance(cols, ast.Slice) and cols.lower is not None else None
    ok = isinstance(rows, ast.Slice) and rows.lower is None and rows.upper is None and rows.step is None and \
        isinstance(cols, ast.Slice) and cols.upper is None and cols.step is None and lo_ is not None and \
        norm(lo_) == '-%s.n_pretest_max' % par
    vx = rd.expand(n, v, keep=(data, par))[0]
  rep.check_term(ok, vx, (data, par), 'R3/window', 'data.df is narrowed to its last n_pretest_max columns', f.qualname, norm(n.ast),
                 'the narrowing `%s` does not keep exactly the most recent n_pretest_max dates (all rows, columns -n_pretest_max:)' % norm(v), f.loc(n.ast))
  doms = g.dominators(cfgmod.no_exc)
  for m in g.nodes:
    if m.kind == 'stmt' and m is not n and '%s.df' % data in norm(m.ast) and not isinstance(m.ast, (ast.FunctionDef,)):
      if isinstance(m.ast, ast.Assign) and len(m.ast.targets) == 1 and isinstance(m.ast.targets[0], ast.Name):
        t_ = m.ast.targets[0].id
        uses_ = [x_ for x_ in ast.walk(f.node) if isinstance(x_, ast.Name) and x_.id == t_ and isinstance(x_.ctx, ast.Load)]
        in_n_ = {id(x_) for x_ in ast.walk(n.ast)}
        if uses_ and all(id(x_) in in_n_ for x_ in uses_):
          continue        # a name for part of the narrowing expression itself (the indexer), used nowhere else
      rep.check(n in doms.get(m, ()), 'R3/window', 'the window is applied before `%s`' % norm(m.ast)[:50], f.qualname, norm(m.ast)[:100],
                '`%s` reads the data table before it is narrowed to the analysis window' % norm(m.ast)[:60], f.loc(m.ast))


def r4_data_object(repo, rep):
  dcls = repo.cls('tbrmmdata.TBRMMData')
  st = dcls.setters.get('geo_index')
  if st is None:
    raise Undecided('geo_index setter vanished')
  rep.fn(st)
  ctx = FuncCtx.of(st)
  geos = st.params[1]
  want = {
      'geo_assignments': r'self\.geo_eligibility\.get_eligible_assignments\(%s, True\)' % geos,
      '_geo_index': r'(list\()?%s\)?' % geos,
      '_array': r'self\.df\.loc\[%s\]\.(to_numpy\(\)|values)' % geos,
      '_array_geo_share': r'(np|numpy)\.array\(self\.geo_share(\.loc)?\[%s\]\)|self\.geo_share(\.loc)?\[%s\]\.(to_numpy\(\)|values)' % (geos, geos),
  }
  found = {}
  cn = canon.of(repo)
  for n in ctx.g.nodes:
    if n.kind == 'stmt' and isinstance(n.ast, ast.Assign):
      for t in n.ast.targets:
        if isinstance(t, ast.Attribute) and norm(t.value) == st.params[0] and t.attr in want:
          found[t.attr] = (n, cn.text(ctx.rd.expand(n, n.ast.value, keep=(geos,))[0]))
  for fld, pat in want.items():
    if fld not in found:
      dyn = [x_ for x_ in ast.walk(st.node) if isinstance(x_, ast.Call) and norm(x_.func) in ('setattr', 'object.__setattr__', 'self.__dict__.update', 'vars(self).update')]
      if dyn:
        rep.undecided('R4/single-source', 'self.%s' % fld, 'the setter stores fields through %s: which fields it installs is not followed' % norm(dyn[0])[:60], st.loc())
      else:
        rep.violation('R4/single-source', st.qualname, 'self.%s not set' % fld, 'the geo_index setter no longer sets %s: aggregates use a stale array' % fld, st.loc())
      continue
    n, txt = found[fld]
    # positions in the installed arrays / index sets are positions in the *given order*: a value that reads the argument only
    # through membership or set operations (X[X.isin(geos)], set(geos)) is the same for every permutation of the list, so its
    # rows follow some other order (a witness is any permutation of the argument)
    deep_ = ctx.rd.expand(n, n.ast.value, keep=(geos,), depth=12)[0]
    # everything the value is computed from: the definitions (of any kind) of the locals it reads, transitively
    feeding, seen_, work_ = [deep_], set(), [(n, deep_)]
    while work_ and len(seen_) < 60:
      at_, ex_ = work_.pop()
      for nm_ in {x_.id for x_ in ast.walk(ex_) if isinstance(x_, ast.Name) and isinstance(x_.ctx, ast.Load)} - {geos, st.params[0]}:
        for d_ in ctx.rd.defs_at(at_, nm_):
          if d_.value is not None and id(d_) not in seen_:
            seen_.add(id(d_))
            feeding.append(d_.value)
            work_.append((d_.node, d_.value))
    verdicts_ = [au.order_blind(x_, geos) for x_ in feeding]
    all_blind = any(v_ is True for v_ in verdicts_) and not any(v_ is False for v_ in verdicts_)
    if re.fullmatch(pat, txt) is None and all_blind and fld != '_geo_index':
      rep.violation('R4/single-source', st.qualname, 'self.%s = %s' % (fld, txt[:100]),
                    'self.%s is built as `%s`, which reads the given geo list only through order-insensitive operations (membership / set): its rows are in the order of the underlying table, not in the given order, so index i denotes a different geo here than in geo_index'
                    % (fld, norm(deep_)[:120]), st.loc(n.ast))
      continue
    rep.check_term(re.fullmatch(pat, txt) is not None, ctx.rd.expand(n, n.ast.value, keep=(geos,))[0], (geos,), 'R4/single-source', '%s is built from the setter argument in its order' % fld, st.qualname,
              'self.%s = %s' % (fld, txt[:100]), 'self.%s is `%s`: not built from the given geo list in the given order, so indices no longer refer to the same geos as the arrays'
              % (fld, txt[:80]), st.loc(n.ast))
  # every normal path through the setter installs all four fields (no early return that keeps stale arrays)
  stores = [n for n in ctx.g.nodes if n.kind == 'stmt' and isinstance(n.ast, ast.Assign)
            and any(isinstance(t, ast.Attribute) and norm(t.value) == st.params[0] and t.attr in want for t in n.ast.targets)]
  for fld in want:
    nodes = [n for n in stores if any(isinstance(t, ast.Attribute) and t.attr == fld for t in n.ast.targets)]
    p_ = ctx.g.path_avoiding(ctx.g.entry, lambda n: n is ctx.g.exit, lambda n: n in nodes, cfgmod.no_exc)
    rep.check(p_ is None, 'R4/single-source', 'every path through the geo_index setter re-installs %s' % fld, st.qualname,
              'path without store of self.%s: %s' % (fld, ' -> '.join('L%d' % n.lineno for n, _ in (p_ or []) if n.lineno)),
              'the geo_index setter can return without rebuilding self.%s (path %s): after the data window or the index changed, aggregates are computed from a stale array'
              % (fld, ' -> '.join('L%d' % n.lineno for n, _ in (p_ or []) if n.lineno)), st.loc())
  for mname, arr, axis in (('aggregate_time_series', '_array', '0'), ('aggregate_geo_share', '_array_geo_share', None)):
    m = dcls.methods.get(mname)
    if m is None:
      raise Undecided('%s vanished' % mname)
    rep.fn(m)
    arg = m.params[1]
    rets = [s for s in walk_no_nested(m.node) if isinstance(s, ast.Return) and s.value is not None]
    mctx = FuncCtx.of(m)
    for r in rets:
      txt = cn.text(mctx.rd.expand(mctx.node_at(r), r.value, keep=(arg,))[0])
      pat = r'(float\()?self\.%s\[(list|sorted)\(%s\)\]\.sum\(%s\)\)?' % (arr, arg, ('(axis=0|0)' if axis else '(axis=None|None)?'))
      rep.check_term(re.fullmatch(pat, txt) is not None, mctx.rd.expand(mctx.node_at(r), r.value, keep=(arg,))[0], (arg,), 'R4/single-source', '%s sums the rows of %s selected by its argument' % (mname, arr), m.qualname, txt[:100],
                '%s returns `%s`: not the sum over the given geo indices of %s%s' % (mname, txt[:80], arr, ' along the geo axis' if axis else ''), m.loc(r))


def r4_data_memo(repo, rep, rule='R4/single-source'):
  """Values memoised inside the data object (per-group shares or series kept in a field) must be dropped when the geo index
  or the table they were computed from is replaced: the cache-invalidation discipline of C08, applied to TBRMMData."""
  from mmsa.props import c08
  sub = type(rep)(rep.prop, rep.tier, rep.repo)
  c08.analyse_class(repo, sub, 'tbrmmdata.TBRMMData')
  for i in sub.instances:
    if i.rule.startswith('R2/must-reset'):
      i.rule = rule
      rep.instances.append(i)


def run(repo, rep, tier):
  for name in ('exhaustive_search', 'greedy_search'):
    r1_r2_r5_search(repo, rep, name)
  r3_window(repo, rep)
  r4_data_object(repo, rep)
  r4_data_memo(repo, rep)
  from mmsa.props import c01, c10
  c01.r5_ids(repo, rep)
  sub = type(rep)(rep.prop, rep.tier, rep.repo)
  c10.r2_queries(repo, sub)
  for i in sub.instances:
    if i.rule == 'R2/index-install':
      i.rule = 'R6/index-install'
      rep.instances.append(i)
  rep.floor('obligations', len(rep.instances), 20)
