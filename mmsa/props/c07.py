"""C07 — the iROAS summary is coherent with its incremental response and cost.

Decided: (R1) fixed-cost algebra: the response summary is requested with
rescale = 1/cost where cost = sum(causal effect of the cost model), with the
caller's tails/level/threshold; incremental_response_lower/upper are the
report's lower/upper times that cost (matching suffixes); rescale*cost == 1;
(R2) determinism: every random draw reachable from TBRiROAS.summary takes its
seed from the random_state parameter and no global RNG is used; cached fields
of TBRiROAS/TBR obey the invalidation discipline across fit();
(R3) the scenario predicate tests the order of magnitude of
sum(cost | period == pre) + sum(cost | period == test, control group) and the
label is 'fixed' exactly on that branch; (R4) quantile ordering and scale sign
for the bounds in both branches (C06.R3/R4 on the response summary; percentile
arguments in the variable-cost branch).
Not decided: lower <= estimate <= upper in the variable-cost branch (the
estimate is the mean of a ratio of t-variates), unit equivariance of the
simulated figures, invariance of probability.
"""
import ast
import re

from mmsa import au, canon, cfg as cfgmod, dataflow, pathcond, sym, tbrrules
from mmsa.core import Undecided, norm, walk_no_nested
from mmsa.props import c08
from mmsa.types import FuncCtx

CLS = 'tbr_iroas.TBRiROAS'
VOC = ('tails', 'level', 'posterior_threshold', 'periods', 'random_state', 'nsims', 'tail_probability', 'report')
EXPLANATION = (
    'Column-algebra table of the fixed-cost branch (sympy identity rescale*cost == 1, suffix agreement), RNG-seeding rule over every draw '
    'reachable from summary(), cache-invalidation discipline of TBRiROAS and TBR across fit(), provenance of the scenario predicate, and '
    'interval/sign domains for the bounds.')
RULE_TEXT = 'one obligation per column, per random draw, per selection of the scenario predicate and per (tails, quantile) pair'


def r1_fixed_cost(repo, rep, f, ctx):
  g, rd = ctx.g, ctx.rd
  calls = [(n, c) for n in g.nodes if n.kind == 'stmt' for c in au.calls_in(n.ast) if norm(rd.expand(n, c.func)[0]) == 'self.tbr_response.summary']
  if len(calls) != 1:
    rep.undecided('R1/fixed-cost-algebra', 'TBRiROAS.summary', 'expected one call of tbr_response.summary', f.loc())
    return None
  n, c = calls[0]
  kws = canon.of(repo).bound(c)
  for k, want in (('tails', 'tails'), ('level', 'level'), ('threshold', 'posterior_threshold')):
    rep.check_term(k in kws and norm(rd.expand(n, kws[k])[0]) == want, rd.expand(n, kws[k])[0] if k in kws else ast.Constant(value=None), VOC, 'R1/fixed-cost-algebra', 'response summary called with %s=%s' % (k, want), f.qualname,
              '%s=%s' % (k, norm(kws[k]) if k in kws else 'missing'), 'the response summary is requested with %s=%s instead of the caller\'s %s' % (k, norm(kws[k]) if k in kws else 'default', want), f.loc(c))
  resc = kws.get('rescale')
  cost_sym = sym.symbol('cost', True)
  cost_txt = None
  if resc is not None:
    names = [x.id for x in ast.walk(resc) if isinstance(x, ast.Name)]
    cname = names[0] if len(names) == 1 else None
    if cname:
      d = rd.single_def(n, cname)
      cost_txt = norm(rd.expand(d.node, d.value, keep=('periods',))[0]) if d is not None and d.value is not None else None
    try:
      ok = cname is not None and sym.equal(sym.to_sym(resc, lambda e: cost_sym if norm(e) == cname else None) * cost_sym, 1)
    except Undecided:
      ok = False
    if cname is None and not ok:
      rep.undecided('R1/fixed-cost-algebra', 'rescale * cost == 1', 'the rescale factor `%s` is not a function of one local naming the cost' % norm(resc)[:60], f.loc(c))
    else:
      rep.check(ok, 'R1/fixed-cost-algebra', 'rescale * cost == 1', f.qualname, 'rescale=%s' % norm(resc), 'the response summary is rescaled by `%s`, which is not 1/cost' % norm(resc), f.loc(c))
    rep.check_term(cost_txt in ('np.sum(self.tbr_cost.causal_effect(periods))', 'self.tbr_cost.causal_effect(periods).sum()', 'self.tbr_cost.causal_effect(periods=periods).sum()',
                                'np.sum(self.tbr_cost.causal_effect(periods=periods))'), cost_txt, VOC, 'R1/fixed-cost-algebra',
              'cost = total causal effect of the cost model over the analysed periods', f.qualname, 'cost = %s' % cost_txt,
              'the incremental cost is `%s`, not the summed causal effect of the cost model' % cost_txt, f.loc(c), want='np.sum(self.tbr_cost.causal_effect(periods))')
  else:
    rep.violation('R1/fixed-cost-algebra', f.qualname, norm(c)[:100], 'the response summary is not rescaled by 1/cost', f.loc(c))
    cname = None
  rname = None
  st = au.enclosing_stmt(c) if hasattr(c, '_parent') else None
  if isinstance(n.ast, ast.Assign) and isinstance(n.ast.targets[0], ast.Name):
    rname = n.ast.targets[0].id
  # column stores on the fixed-cost report
  n_cols = 0
  for m in g.nodes:
    if m.kind == 'stmt' and isinstance(m.ast, ast.Assign) and isinstance(m.ast.targets[0], ast.Subscript) and norm(m.ast.targets[0].value) == rname \
        and rd.defs_at(m, rname) == frozenset(d for d in rd.defs_at(m, rname) if d.node is n):
      col = au.const(m.ast.targets[0].slice)[1]
      val = norm(m.ast.value)
      if col in ('incremental_response_lower', 'incremental_response_upper'):
        n_cols += 1
        suf = col.rsplit('_', 1)[1]
        ok = val in ("%s['%s'] * %s" % (rname, suf, cname), "%s * %s['%s']" % (cname, rname, suf))
        alts_ = au.alternatives(rd, m, m.ast.value, keep=(rname, cname, 'level', 'tails'))
        rep.check_term(ok, alts_[0] if not ok else m.ast.value, set(VOC) | {rname, cname}, 'R1/fixed-cost-algebra', "%s = report['%s'] * cost" % (col, suf), f.qualname, '%s = %s' % (col, val),
                  "in the fixed-cost report %s is `%s`, not the iROAS %s bound times the incremental cost" % (col, val, suf), f.loc(m.ast))
      if col == 'incremental_cost':
        rep.check_term(val == cname, m.ast.value, set(VOC) | {rname, cname}, 'R1/fixed-cost-algebra', 'incremental_cost = cost', f.qualname, '%s = %s' % (col, val), 'incremental_cost is `%s`' % val, f.loc(m.ast))
      if col == 'scenario':
        rep.check_term(val == "'fixed'", m.ast.value, VOC, 'R3/scenario', "the fixed-cost branch is labelled 'fixed'", f.qualname, 'scenario = %s' % val, 'the fixed-cost branch is labelled %s' % val, f.loc(m.ast))
  rep.floor('incremental-response bound columns of the fixed-cost report', n_cols, 2)
  return n


def r1b_variable_cost(repo, rep, f, ctx):
  """Column table of the variable-cost branch: every figure derives from the paired simulations
  sims_iroas = rvs(response posterior) / rvs(cost posterior over the test period)."""
  g, rd = ctx.g, ctx.rd
  cols = {}
  rname = None
  for n in g.nodes:
    if n.kind == 'stmt' and isinstance(n.ast, ast.Assign) and isinstance(n.ast.targets[0], ast.Subscript) and isinstance(n.ast.targets[0].value, ast.Name):
      col = au.const(n.ast.targets[0].slice)[1]
      if isinstance(col, str):
        d = rd.single_def(n, n.ast.targets[0].value.id)
        if d is not None and d.value is not None and norm(d.value).startswith('pd.DataFrame(index='):
          cols.setdefault(col, []).append(n)
          rname = n.ast.targets[0].value.id
  if not cols:
    rep.undecided('R1/variable-cost-table', 'TBRiROAS.summary', 'variable-cost report not found', f.loc())
    return
  opaque_cols = []
  for n in g.nodes:
    for e_ in ctx.node_exprs(n):
      for x_ in ast.walk(e_):
        if isinstance(x_, ast.Call) and isinstance(x_.func, ast.Attribute) and norm(x_.func.value) == rname and x_.func.attr in ('assign', 'update', 'insert', 'join', 'merge'):
          opaque_cols.append(norm(x_)[:60])
    if n.kind == 'stmt' and isinstance(n.ast, ast.Assign):
      for t_ in n.ast.targets:
        if isinstance(t_, ast.Subscript) and norm(t_.value) == rname and not isinstance(au.const(t_.slice)[1], str):
          opaque_cols.append(norm(t_)[:60])
  keep = ('random_state', 'nsims', 'posterior_threshold', 'level', 'tails')
  TP = '(1 - level) / tails'
  RESP = 'self.tbr_response.causal_cumulative_distribution(time=-1)'
  COST = 'self.tbr_cost.causal_cumulative_distribution(periods=(self.periods.test,), time=-1)'
  SIMS = '%s.rvs(nsims, random_state=random_state) / %s.rvs(nsims, random_state=random_state)' % (RESP, COST)
  want = {
      'estimate': ['np.mean(%s)' % SIMS, 'np.median(%s)' % SIMS],
      'lower': ['np.percentile(%s, 100 * (%s))' % (SIMS, TP)],
      'upper': ['np.percentile(%s, 100 * (1 - %s))' % (SIMS, TP), 'np.inf'],
      'probability': ['np.mean(%s > posterior_threshold)' % SIMS],
      'incremental_cost': ["%s.kwds['loc']" % COST],
      'incremental_response': ["%s.kwds['loc']" % RESP],
      'incremental_response_lower': ['%s.ppf(%s)' % (RESP, TP)],
      'incremental_response_upper': ['%s.ppf(1 - %s)' % (RESP, TP), 'np.inf'],
      'scenario': ["'variable'"],
  }
  n_ok = 0
  cn = canon.of(repo)
  SIMS = cn.ctext(SIMS)
  for col, forms in want.items():
    forms = [cn.ctext(x) for x in forms]
    if col not in cols:
      elsewhere = [m_ for m_ in g.nodes if m_.kind == 'stmt' and m_.ast is not None and any(
          (isinstance(x_, ast.Subscript) and isinstance(x_.ctx, ast.Store) and au.const(x_.slice)[1] == col) or
          (isinstance(x_, ast.Dict) and any(k_ is not None and au.const(k_)[1] == col for k_ in x_.keys)) or
          (isinstance(x_, ast.keyword) and x_.arg == col) for x_ in ast.walk(m_.ast))]
      if elsewhere and not opaque_cols:
        opaque_cols.append('column %s is written at line %s in a form that is not followed' % (col, getattr(elsewhere[0].ast, 'lineno', '?')))
      if opaque_cols:
        rep.undecided('R1/variable-cost-table', 'column %s' % col, 'the report is completed in a form that is not followed (%s)' % opaque_cols[0][:60], f.loc())
      else:
        rep.violation('R1/variable-cost-table', f.qualname, 'column %s missing' % col, 'the variable-cost report has no %s column' % col, f.loc())
      continue
    for n, ex_ in [(n_, a_) for n_ in cols[col] for a_ in au.alternatives(rd, n_, n_.ast.value, keep)]:
      t = cn.text(ex_)
      if isinstance(ex_, ast.IfExp) and norm(ex_.test) in ('tails == 1', 'tails != 1', 'tails == 2', 'tails != 2', '1 == tails'):
        # one statement choosing by the number of tails: every alternative must be an admissible form
        leaves = [cn.text(ex_.body), cn.text(ex_.orelse)]
        if all(x in forms for x in leaves):
          t = leaves[0]
      n_ok += 1
      rep.check_term(t in forms, ex_, keep, 'R1/variable-cost-table', 'variable-cost %s = %s' % (col, t[:60]), f.qualname, '%s = %s' % (col, t[:140]),
                'in the variable-cost report %s is `%s`; expected %s (ratio of the paired response and cost simulations / quantities of the two posteriors)'
                % (col, t[:120], ' or '.join(x[:80] for x in forms)), f.loc(n.ast), want=list(forms))
  if 'precision' in cols:
    for n in cols['precision']:
      t = norm(n.ast.value)
      rep.check_term(re.fullmatch(r"%s\['estimate'\] - \w+" % rname, t) is not None and cn.text(rd.expand(n, n.ast.value, depth=12, keep=keep)[0]).endswith('np.percentile(%s, 100 * (%s))' % (SIMS, TP)),
                rd.expand(n, n.ast.value, depth=12, keep=keep)[0], set(keep) | {rname},
                'R1/variable-cost-table', 'variable-cost precision = estimate - lower', f.qualname, 'precision = %s' % t[:80], 'precision is `%s`, not estimate - lower' % t[:80], f.loc(n.ast))
  rep.floor('variable-cost report columns checked', n_ok, 9)


def _global_rng_use(rep, fn, site, text):
  """A use of numpy's / random's global generator.  With a `random_state` in scope the report is still a function of the
  data and random_state when the use is reached only for random_state None (no seed was asked for, as in the unchanged
  code); it is a violation when a path reaches it for a seed that is not None (witness: random_state = 0)."""
  fctx = FuncCtx.of(fn)
  node = fctx.node_at(site)
  in_scope = 'random_state' in fn.params or any(isinstance(x_, ast.Name) and x_.id == 'random_state' for x_ in ast.walk(fn.node))
  if node is None or not in_scope:
    rep.violation('R2/determinism', fn.qualname, text[:100], 'the global random number generator is used (%s): the report depends on hidden RNG state' % text[:60], fn.loc(site))
    return
  g = fctx.g
  reach0 = g.reachable(g.entry, tbrrules.edge_filter_for(g, {'random_state': 0}))
  reach_all = g.reachable(g.entry, cfgmod.no_exc)
  if node in reach0:
    # is that because the tests were decided, or because nothing was decided?  Undecided tests between entry and the use
    # that mention random_state leave the question open
    ef_none = tbrrules.edge_filter_for(g, {'random_state': None})
    reach_none = g.reachable(g.entry, ef_none)
    tests_rs = [n_ for n_ in g.nodes if n_.kind == 'test' and n_ in reach_all and re.search(r'\brandom_state\b', norm(fctx.rd.expand(n_, n_.expr, keep=('random_state',))[0]))]
    decided = all(tbrrules.decide_scalar(fctx.rd.expand(n_, n_.expr, keep=('random_state',))[0], {'random_state': 0}) is not None for n_ in tests_rs)
    if decided:
      rep.violation('R2/determinism', fn.qualname, text[:100],
                    'the global random number generator (%s) is reached for random_state=0 (a seed, not None): the report then depends on hidden RNG state although a random_state was given' % text[:60], fn.loc(site))
    else:
      rep.undecided('R2/determinism', 'global generator %s' % text[:40], 'whether the use is reached only when random_state is None depends on a test that is not decided', fn.loc(site))
  else:
    rep.ok('R2/determinism', 'the global generator %s is reached only when no random_state was given' % text[:40], loc=fn.loc(site))


def r2_determinism(repo, rep, f, ctx):
  g, rd = ctx.g, ctx.rd
  n_draw = 0
  for q in (CLS, 'tbr.TBR'):
    cls = repo.cls(q)
    for fn in cls.all_functions():
      for c in au.calls_in(fn.node):
        t = norm(c.func)
        if isinstance(c.func, ast.Attribute) and c.func.attr in ('rvs',):
          n_draw += 1
          fctx_ = FuncCtx.of(fn)
          at_ = fctx_.node_at(c)
          cx_ = canon.of(repo).expr(fctx_.rd.expand(at_, c, keep=tuple(fn.params))[0]) if at_ is not None else c
          rs = au.kwarg(cx_, 'random_state') if isinstance(cx_, ast.Call) else au.kwarg(c, 'random_state')
          if rs is None:
            # rv_frozen.rvs(size=None, random_state=None): the second positional argument
            pos_ = cx_.args if isinstance(cx_, ast.Call) else c.args
            if len(pos_) >= 2 and not any(isinstance(a_, ast.Starred) for a_ in pos_[:2]):
              rs = pos_[1]
          ok = rs is not None and norm(rs) == 'random_state' and 'random_state' in fn.params
          if not ok and isinstance(cx_, ast.Call) and (any(k.arg is None for k in cx_.keywords) or any(isinstance(a_, ast.Starred) for a_ in cx_.args)):
            rep.undecided('R2/determinism', 'draw %s' % norm(c)[:40], 'the arguments of the draw are passed through an unresolved */** table', fn.loc(c))
            continue
          if not ok and rs is not None and any((isinstance(x_, ast.Attribute) and x_.attr == 'random_state') or (isinstance(x_, ast.Name) and x_.id == 'random_state')
                                               for x_ in ast.walk(rs)):
            # seeded from something called random_state that is not the parameter of this function itself (a field of a
            # parameter object, a helper's own parameter): where it comes from is not followed
            rep.undecided('R2/determinism', 'draw %s' % norm(c)[:40], 'the draw is seeded with `%s`: its origin in the random_state argument of summary() is not followed' % norm(rs)[:60], fn.loc(c))
            continue
          verdict_ = True if ok else (False if (rs is None or not au.aliens(rs, ())) else None)
          rep.check3(verdict_, 'R2/determinism', 'draw %s is seeded from the random_state parameter' % norm(c)[:40], fn.qualname, norm(c)[:100],
                     'the simulation draw `%s` is not seeded from the random_state argument: the report is not a function of the data and random_state' % norm(c)[:80], fn.loc(c),
                     why_open='the seed `%s` reads names that are not resolved' % (norm(rs)[:60] if rs is not None else ''))
        elif re.match(r'(np|numpy)\.random\.|random\.(random|sample|choice|gauss|uniform|shuffle|seed)', t):
          n_draw += 1
          if re.fullmatch(r'(np|numpy)\.random\.(RandomState|default_rng|Generator|PCG64|MT19937|SeedSequence)', t) and (c.args or c.keywords):
            continue          # a generator of its own, constructed from a seed: not the global stream
          _global_rng_use(rep, fn, c, norm(c))
      # the generator behind np.random.* named as an object (np.random.mtrand._rand, np.random.random.__self__)
      for a_ in ast.walk(fn.node):
        if isinstance(a_, ast.Attribute) and re.fullmatch(r'(np|numpy)\.random\.(mtrand\._rand|mtrand|_rand)', norm(a_)) \
            and not isinstance(getattr(a_, '_parent', None), ast.Attribute):
          n_draw += 1
          _global_rng_use(rep, fn, a_, norm(a_))
  rep.floor('random draws reachable from the iROAS summary', n_draw, 2)
  for q in (CLS, 'tbr.TBR'):
    sub = type(rep)(rep.prop, rep.tier, rep.repo)
    c08.analyse_class(repo, sub, q)
    for i in sub.instances:
      if i.rule.startswith('R2/must-reset') or i.rule.startswith('R3/cached'):
        i.rule = 'R2/' + ('cache-invalidation' if 'must-reset' in i.rule else 'cached-method-pure')
        rep.instances.append(i)
    sub = type(rep)(rep.prop, rep.tier, rep.repo)
    c08.r4_reads_do_not_mutate(repo, sub, q)
    for i in sub.instances:
      i.rule = 'R2/read-does-not-mutate'
      rep.instances.append(i)


def float_order_shape(fo):
  """Every return of float_order is floor(log10(|x|)) under |x| > 0 or -inf under its negation."""
  c = FuncCtx.of(fo)
  x = fo.params[0]
  seen = set()
  open_ = False
  for r in [n for n in c.g.nodes if n.kind == 'return']:
    if r.ast.value is None:
      return False
    t = norm(c.rd.expand(r, r.ast.value, keep=(x,))[0]).replace('np.absolute(', 'np.abs(').replace('np.fabs(', 'np.abs(')
    conds = set()
    for e, taken, tn in cfgmod.dominating_conditions(c.g, r):
      conds |= {z.replace('np.absolute(', 'np.abs(').replace('np.fabs(', 'np.abs(') for z in pathcond.asserted_forms(c.rd.expand(tn, e, keep=(x,))[0], taken)}
    pos = {'np.abs(%s) > 0' % x, 'abs(%s) > 0' % x, '%s != 0' % x}
    nonpos = {'np.abs(%s) <= 0' % x, 'abs(%s) <= 0' % x, 'np.abs(%s) == 0' % x, '%s == 0' % x}
    is_log = t in ('np.floor(np.log10(np.abs(%s)))' % x, 'np.floor(np.log10(abs(%s)))' % x, 'math.floor(math.log10(abs(%s)))' % x)
    is_inf = t in ('-np.inf', "-float('inf')", '-math.inf', "float('-inf')")
    if is_log and conds & pos:
      seen.add('log')
    elif is_inf and conds & nonpos:
      seen.add('inf')
    elif (is_log and conds & nonpos) or (is_inf and conds & pos):
      return False          # the two cases are swapped
    elif (is_log or is_inf):
      open_ = True          # right value, guard not understood
    elif au.aliens(c.rd.expand(r, r.ast.value, keep=(x,))[0], {x}):
      open_ = True          # the returned value reads unresolved names
    else:
      return False          # a closed term over x that is neither floor(log10|x|) nor -inf
  if open_:
    return None
  return seen == {'log', 'inf'}


def _scenario_counts(t):
  """(counts got, counts wanted, universe) for the predicate text `float_order(<total>) < -10`, or None when the total is not
  a sum of row selections of the cost model's analysis data that masks.py reads."""
  from mmsa import masks
  try:
    e = ast.parse(t, mode='eval').body
  except SyntaxError:
    return None
  if not (isinstance(e, ast.Compare) and len(e.ops) == 1 and isinstance(e.ops[0], ast.Lt) and norm(e.comparators[0]) == '-10'
          and isinstance(e.left, ast.Call) and norm(e.left.func) in ('utils.float_order', 'float_order') and len(e.left.args) == 1):
    return None
  frame = masks.Frame('self.tbr_cost.analysis_data',
                      {'period': {'self.df_names.period', "'period'"}, 'group': {'self.df_names.group', "'group'"}}, index0='group')
  frame.aliases = ('self.tbr_cost.analysis_data.reset_index()',)
  periods = ['self.periods.pre', 'self.periods.test', 'self.periods.cooldown', '<other period>']
  groups = ['self.groups.control', 'self.groups.treatment', '<other group>']
  universe = [{'period': p_, 'group': g_} for p_ in periods for g_ in groups]
  try:
    got = masks.counts(frame, e.left.args[0], universe, {'self.df_names.cost', "'cost'"})
  except masks.Unknown:
    return None
  want = [1 if (r_['period'] == 'self.periods.pre' or (r_['period'] == 'self.periods.test' and r_['group'] == 'self.groups.control')) else 0 for r_ in universe]
  return got, want, universe


def r3_scenario(repo, rep):
  cls = repo.cls(CLS)
  f = cls.methods.get('_is_fixed_cost_scenario')
  if f is None:
    raise Undecided('_is_fixed_cost_scenario vanished')
  rep.fn(f)
  ctx = FuncCtx.of(f)
  rets = [n for n in ctx.g.nodes if n.kind == 'return' and n.ast.value is not None and not isinstance(n.ast.value, ast.Attribute)]
  def canonical(e):
    """The predicate with the order of magnitude on the left: `-10 > order` is `order < -10`."""
    forms = sorted(x for x in pathcond.rel_forms(e, True) if x.startswith('utils.float_order(') or x.startswith('float_order('))
    return forms[0] if forms else norm(e)
  exprs = []
  for r in rets:
    exprs.append(canonical(ctx.rd.expand(r, r.ast.value, depth=12)[0]))
  main = [t for t in exprs if 'float_order' in t]
  if not main:
    # cached variant: the value is stored in a field first
    for n in ctx.g.nodes:
      if n.kind == 'stmt' and isinstance(n.ast, ast.Assign) and 'float_order' in norm(ctx.rd.expand(n, n.ast.value, depth=12)[0]):
        main.append(canonical(ctx.rd.expand(n, n.ast.value, depth=12)[0]))
  if len(main) != 1:
    rep.undecided('R3/scenario', '_is_fixed_cost_scenario', 'predicate not found', f.loc())
    return
  t = main[0]
  A = 'self.tbr_cost.analysis_data'
  per = "%s[self.df_names.period]" % A
  pre = "%s.loc[%s == self.periods.pre, self.df_names.cost]" % (A, per)      # (the chained spelling .loc[mask][col] is normalised to this at load time)
  tst = "%s.loc[%s == self.periods.test].loc[self.groups.control][self.df_names.cost]" % (A, per)
  want = 'utils.float_order(sum(%s) + sum(%s)) < -10' % (pre, tst)
  # semantic form: which kinds of rows (period x group) are added up, whatever the spelling of the masks
  sem = _scenario_counts(t)
  if sem is not None:
    got_, want_, universe_ = sem
    bad_ = [(r_, g_, w_) for r_, g_, w_ in zip(universe_, got_, want_) if g_ != w_]
    rep.check(not bad_, 'R3/scenario', 'fixed-cost iff order of magnitude of (pre-period costs + control test-period costs) < -10 [row kinds counted: %s]' % sum(got_), f.qualname, t[:200],
              'the scenario predicate `%s` adds up the wrong rows: a row with period %s and group %s is counted %d time(s), it must be counted %d time(s) (pre-period costs of all groups plus test-period costs of the control group)'
              % ((t[:120],) + ((bad_[0][0]['period'].split('.')[-1], bad_[0][0]['group'].split('.')[-1], bad_[0][1], bad_[0][2]) if bad_ else ('', '', 0, 0))), f.loc())
  else:
    rep.check_term(t == want, t, (), 'R3/scenario', 'fixed-cost iff order of magnitude of (pre-period costs + control test-period costs) < -10', f.qualname, t[:200],
              'the scenario predicate is `%s`: it does not test exactly the pre-period costs of all groups plus the test-period costs of the control group' % t[:180], f.loc())
  fo = repo.func('utils.float_order')
  rep.fn(fo)
  ok_fo = float_order_shape(fo)
  rep.check3(ok_fo, 'R3/scenario', 'float_order = floor(log10|x|), -inf at 0', fo.qualname,
             'float_order body', 'float_order no longer computes floor(log10(|x|)) with -inf for 0', fo.loc(), nontrivial=False,
             why_open='a return of float_order (or the test guarding it) is not in a recognised form')


def r4_bounds(repo, rep, f, ctx):
  g = ctx.g
  def sites(ctx_, rd_, reach):
    out = []
    for n in g.nodes:
      if n.kind != 'stmt':
        continue
      for c in au.calls_in(n.ast):
        fn = norm(c.func)
        tgt = norm(n.ast.targets[0]) if isinstance(n.ast, ast.Assign) else ''
        # the role (lower / upper bound) is that of the nearest naming context: dictionary key, keyword, assignment target
        cur, par, role = c, getattr(c, '_parent', None), None
        while par is not None and role is None:
          if isinstance(par, ast.Dict):
            for k_, v_ in zip(par.keys, par.values):
              if v_ is cur and k_ is not None and isinstance(au.const(k_)[1], str):
                role = au.const(k_)[1]
          elif isinstance(par, ast.keyword) and par.arg:
            role = par.arg
          elif isinstance(par, ast.stmt):
            break
          cur, par = par, getattr(par, '_parent', None)
        role = role or tgt
        m_sub = re.fullmatch(r"\w+\['(\w+)'\]", role or '')
        if m_sub:
          role = m_sub.group(1)
        # a local that is later stored into a report column takes the column's name (the API-level role)
        if re.fullmatch(r'\w+', role or ''):
          for m_ in g.nodes:
            if m_.kind == 'stmt' and isinstance(m_.ast, ast.Assign) and isinstance(m_.ast.value, ast.Name) and m_.ast.value.id == role \
                and isinstance(m_.ast.targets[0], ast.Subscript) and isinstance(au.const(m_.ast.targets[0].slice)[1], str):
              role = au.const(m_.ast.targets[0].slice)[1]
              break
            hit = None
            for d_ in ast.walk(m_.ast) if m_.ast is not None else ():
              if isinstance(d_, ast.keyword) and d_.arg and isinstance(d_.value, ast.Name) and d_.value.id == role:
                hit = d_.arg
              if isinstance(d_, ast.Dict):
                for k_, v_ in zip(d_.keys, d_.values):
                  if isinstance(v_, ast.Name) and v_.id == role and k_ is not None and isinstance(au.const(k_)[1], str):
                    hit = au.const(k_)[1]
            if hit:
              role = hit
              break
        if 'upper' not in role and 'lower' not in role:
          continue          # a quantile whose role is not named here (a helper's argument, an element of a tuple): not a site of this rule
        tgt = role
        if fn == 'np.percentile' and len(c.args) == 2:
          kind = 'upper-pct' if 'upper' in tgt else 'lower-pct'
          what = 'percentile for %s' % role
          out.append((kind, c.args[1], n, what))
        elif isinstance(c.func, ast.Attribute) and c.func.attr == 'ppf' and c.args:
          kind = 'upper' if 'upper' in tgt else 'lower'
          out.append((kind, c.args[0], n, 'quantile for %s' % role))
    return out
  n = tbrrules.quantile_order(rep, f, 'R4/quantile-order', tbrrules.Iv(0.0, 1.0, True, True), sites)
  rep.floor('quantile-order obligations of TBRiROAS.summary', n, 6)
  sub = type(rep)(rep.prop, rep.tier, rep.repo)
  tbrrules.summary_rules(repo, sub, '')
  tbrrules.distribution_rules(repo, sub, '')
  for i in sub.instances:
    if i.rule in ('R3/quantile-order', 'R4/scale-sign'):
      i.rule = 'R4/' + i.rule.split('/', 1)[1]
      rep.instances.append(i)
    elif i.rule in ('R2/one-distribution', 'R5/posterior-shape'):
      i.rule = 'R1/response-summary-' + i.rule.split('/', 1)[1]
      rep.instances.append(i)


def run(repo, rep, tier):
  cls = repo.cls(CLS)
  f = cls.methods.get('summary')
  if f is None:
    raise Undecided('TBRiROAS.summary vanished')
  rep.fn(f)
  ctx = FuncCtx.of(f)
  r1_fixed_cost(repo, rep, f, ctx)
  r1b_variable_cost(repo, rep, f, ctx)
  r2_determinism(repo, rep, f, ctx)
  r3_scenario(repo, rep)
  tbrrules.kwarg_subdict_rule(repo, rep, 'R3/scenario')
  r4_bounds(repo, rep, f, ctx)
  # the branch is chosen by the predicate
  tests = [n for n in ctx.g.nodes if n.kind == 'test' and norm(au.strip_not(ctx.rd.expand(n, n.expr)[0])[0]) == 'self._is_fixed_cost_scenario()']
  called = any(norm(c_.func) == 'self._is_fixed_cost_scenario' for c_ in au.calls_in(f.node))
  rep.check3(True if tests else (None if called else False), 'R3/scenario', 'the report branch is chosen by _is_fixed_cost_scenario()', f.qualname, '; '.join(norm(n.expr) for n in tests),
             'the fixed/variable branch is not selected by _is_fixed_cost_scenario()', f.loc(),
             why_open='_is_fixed_cost_scenario() is called, but no branch tests its result in a recognised form')
  rep.assume('level in (0, 1) (documented), tails in {1, 2} (guard)')
