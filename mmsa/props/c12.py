"""C12 — search results are invariant to how the input is presented.

Decided: (R1) geo IDs are canonicalised to str before any set or index is built
from them, in both TBRMMData.__init__ and GeoEligibility.__init__; (R2) the raw
frame reaches the state only through a label-based reshape (pivot_table on
'geo' x 'date'): no positional access to it; (R3) no iteration over an
unordered (set-kinded) collection of geo IDs flows into the geo index, the row
order of the array or a returned list; (R4) dates are used only as ordered
column labels (negative slice), no date arithmetic in the design path;
(R5) scale equivariance by dimension analysis: along the call graph of both
searches every addition and comparison combines quantities of the same power of
the response unit (budget range carries the unit), and no absolute tolerance
(np.isclose/allclose default atol, eps thresholds) is applied to a
response-scaled quantity.
Not decided: the metamorphic relations themselves (two runs), tie-breaking among
exactly equal means/scores.
"""
import ast
import re

from mmsa import au, cfg as cfgmod, dataflow, dims as dimsmod, types as typesmod
from mmsa.core import Undecided, norm, walk_no_nested
from mmsa.props import c15
from mmsa.types import FuncCtx

EXPLANATION = (
    'Dominance of ID canonicalisation, label-based ingestion, an order-taint rule for unordered collections and a dimension (unit) '
    'analysis over the call graph of both searches: every +, - and comparison must relate equal powers of the response unit, which is '
    'the structural form of "multiplying responses and budgets by c changes nothing but the scale".')
RULE_TEXT = 'one obligation per ingestion clause, per iteration over ID collections and per addition/comparison/tolerance site in the design path'

MM = 'tbrmatchedmarkets.TBRMatchedMarkets'
SEEDS = {
    ('field', 'tbrmmdiagnostics.TBRMMDiagnostics', '_y'): 1, ('field', 'tbrmmdiagnostics.TBRMMDiagnostics', '_x'): 1,
    ('field', 'tbrmmdiagnostics.TBRMMDiagnostics', '_y_mean'): 1, ('field', 'tbrmmdiagnostics.TBRMMDiagnostics', '_x_mean'): 1,
    ('attr', 'self.geo_req_impact'): 1, ('attr', 'self.data.geo_share'): 0, ('attr', 'self.data._array'): 1, ('attr', 'self._array'): 1,
    ('attr', 'self.data._array_geo_share'): 0, ('attr', 'self._array_geo_share'): 0,
    ('attr', 'self.data.df'): 1, ('attr', 'data.df'): 1, ('attr', 'self.df'): 1, ('attr', 'self._df'): 1,
    ('tbrmmdiagnostics.TBRMMDiagnostics.y@setter', 'value'): 1, ('tbrmmdiagnostics.TBRMMDiagnostics.x@setter', 'value'): 1,
    ('tbrmmdiagnostics.TBRMMDiagnostics.__init__', 'y'): 1, ('tbrmmdiagnostics.TBRMMDiagnostics.tbrfit', 'xt'): 1,
    ('tbrmmdiagnostics.TBRMMDiagnostics.tbrfit', 'yt'): 1, ('tbrmmdiagnostics.TBRMMDiagnostics.estimate_required_impact', 'corr'): 0,
}


def r1_r2_ingestion(repo, rep):
  from mmsa.props import c16
  sub = type(rep)(rep.prop, rep.tier, rep.repo)
  c16.r2_validation(repo, sub)
  for i in sub.instances:
    if i.rule == 'R2/canonical-ids':
      i.rule = 'R1/canonical-ids'
      rep.instances.append(i)
  sub = type(rep)(rep.prop, rep.tier, rep.repo)
  c15.r1_r2_init(repo, sub)
  for i in sub.instances:
    if i.rule == 'R1/ingestion-ids':
      i.rule = 'R1/canonical-ids'
      rep.instances.append(i)
    elif i.rule == 'R1/ingestion-pivot' or (i.rule == 'R1/ingestion' and i.status != 'discharged'):
      # the canonical table must be the label-based pivot of the rows on every path: a second way of building it (a
      # positional fast path) that the ingestion rules do not decide leaves row-order invariance undecided as well
      i.rule = 'R2/label-based'
      rep.instances.append(i)
  f = repo.cls('tbrmmdata.TBRMMData').methods['__init__']
  rep.fn(f)
  frame = f.params[1]
  ctx = FuncCtx.of(f)
  # positional access to the raw (pre-pivot) frame
  pivots = [n for n in ctx.g.nodes if n.kind == 'stmt' and 'pivot_table(' in norm(n.ast)]
  bad = []
  for n in ctx.g.nodes:
    if n.kind != 'stmt' or (pivots and pivots[0] in ctx.g.dominators(cfgmod.no_exc).get(n, ()) and n is not pivots[0]):
      continue
    for sub_ in walk_no_nested(n.ast):
      if isinstance(sub_, ast.Attribute) and sub_.attr in ('iloc', 'iat', 'values', 'to_numpy', 'iterrows', 'itertuples', 'head', 'tail') \
          and norm(sub_.value).split('.')[0].split('[')[0] == frame:
        bad.append(sub_)
  # order-dependent selections on the raw frame (keep-first de-duplication, first/last/nth, head/tail)
  od = []
  for n in ctx.g.nodes:
    if n.kind != 'stmt' or (pivots and pivots[0] in ctx.g.dominators(cfgmod.no_exc).get(n, ()) and n is not pivots[0]):
      continue
    for sub_ in walk_no_nested(n.ast):
      if isinstance(sub_, ast.Call) and isinstance(sub_.func, ast.Attribute) and sub_.func.attr in ('drop_duplicates', 'first', 'last', 'nth', 'head', 'tail', 'duplicated', 'cumcount') \
          and norm(sub_.func.value).split('.')[0].split('[')[0].split('(')[0] == frame:
        od.append(sub_)
  piv_all = [n for n in ctx.g.nodes if n.kind == 'stmt' and ('pivot_table(' in norm(n.ast) or '.pivot(' in norm(n.ast))]
  for n in piv_all:
    t_ = norm(ctx.rd.expand(n, n.ast.value if isinstance(n.ast, ast.Assign) else n.ast, aliases=True)[0]) if isinstance(n.ast, ast.Assign) else norm(n.ast)
    for w_ in ('drop_duplicates(', '.first()', '.last()', '.nth(', '.head(', '.tail('):
      if w_ in t_:
        od.append(n.ast)
  rep.check(not od, 'R2/label-based', 'no order-dependent selection (keep-first de-duplication, head/tail, first/last) on the raw rows', f.qualname,
            '; '.join(norm(b)[:60] for b in od)[:140],
            'the raw rows go through an order-dependent selection (%s): with repeated (geo, date) records the result depends on the order of the input rows' % '; '.join(norm(b)[:50] for b in od)[:120],
            f.loc(od[0]) if od else f.loc())
  rep.check(not bad, 'R2/label-based', 'the raw frame is never accessed by position before the pivot', f.qualname, '; '.join(norm(b) for b in bad)[:100],
            'the raw long-format frame is accessed positionally (%s): the result depends on the row order of the input' % '; '.join(norm(b) for b in bad)[:80],
            f.loc(bad[0]) if bad else f.loc())


def r3_order_taint(repo, rep):
  n = 0
  for q in ('tbrmmdata.TBRMMData', MM, 'geoeligibility.GeoEligibility'):
    cls = repo.cls(q)
    for f in cls.all_functions():
      ctx = FuncCtx.of(f)
      for node in ctx.g.nodes:
        for e in ctx.node_exprs(node):
          for sub in walk_no_nested(e):
            it = None
            if isinstance(sub, (ast.ListComp, ast.GeneratorExp)):
              it = [(g_.iter, 'ordered result') for g_ in sub.generators]
            elif isinstance(sub, ast.Call) and isinstance(sub.func, ast.Name) and sub.func.id in ('list', 'tuple') and len(sub.args) == 1:
              it = [(sub.args[0], 'list(...)')]
            elif isinstance(sub, ast.Call) and isinstance(sub.func, ast.Attribute) and sub.func.attr == 'join' and len(sub.args) == 1:
              continue      # error messages only
            if not it:
              continue
            for x, what in it:
              if c15.set_kinded(ctx, node, x):
                # does the ordered result flow into geo_index / array order / return value?
                st = au.enclosing_stmt(sub) if hasattr(sub, '_parent') else None
                txt = norm(st) if st is not None else ''
                sink = bool(re.search(r'geo_index|_array|return |self\.df', txt)) and 'sorted(' not in txt and 'set(' not in txt.split('=')[0]
                wrapped = isinstance(getattr(sub, '_parent', None), ast.Call) and norm(sub._parent.func) in ('sorted', 'set', 'frozenset', 'len', 'sum', 'any', 'all')
                n += 1
                # the produced sequence lists the geos themselves only when its element is the iteration variable (or the
                # set is listed directly); a sequence of derived objects handed back by a helper is consumed in a way the
                # rule does not follow
                geos_themselves = not isinstance(sub, (ast.ListComp, ast.GeneratorExp)) or (
                    isinstance(sub.elt, ast.Name) and any(isinstance(g_.target, ast.Name) and g_.target.id == sub.elt.id for g_ in sub.generators))
                if sink and not wrapped and not geos_themselves and not re.search(r'geo_index|_array|self\.df', txt):
                  rep.undecided('R3/order-taint', '%s: iteration over the unordered %s' % (f.name, norm(x)[:30]),
                                'a sequence of objects derived from the elements of the set is returned; how its order is used is not followed', f.loc(sub))
                  continue
                rep.check(not sink or wrapped, 'R3/order-taint', '%s: iteration over the unordered %s does not fix an order' % (f.name, norm(x)[:30]), f.qualname,
                          txt[:120], 'an ordered sequence is produced by iterating the unordered set `%s` and used as geo order (%s): the result depends on hash order, i.e. on how IDs are spelled'
                          % (norm(x)[:40], txt[:80]), f.loc(sub))
  # a long (geo, date, value) frame laid out as a matrix by position: column.to_numpy().reshape(n_dates, n_geos) is the
  # geo-by-date table only if the rows are in (date, geo) or (geo, date) order, i.e. after a sort on BOTH keys
  dcls_ = repo.cls('tbrmmdata.TBRMMData')
  for f in dcls_.all_functions():
    if repo.inlined_away(f):
      continue
    ctx = FuncCtx.of(f)
    for node in ctx.g.nodes:
      for e in ctx.node_exprs(node):
        for sub in walk_no_nested(e):
          if not (isinstance(sub, ast.Call) and isinstance(sub.func, ast.Attribute) and sub.func.attr == 'reshape'):
            continue
          recv = norm(ctx.rd.expand(node, sub.func.value, depth=10, keep=tuple(f.params))[0])
          if not re.search(r"\[(response_column|'response'|self\.\w*response\w*)\]", recv):
            continue
          n += 1
          keys = re.findall(r"sort_values\(([^)]*)\)", recv)
          both = any(("'geo'" in k_ and "'date'" in k_) for k_ in keys)
          rep.check(both, 'R3/order-taint', '%s: the response column is reshaped into a matrix only after a sort on both geo and date' % f.name, f.qualname, norm(sub)[:120],
                    'the response values are laid out as a geo-by-date matrix by position (`%s`) without a sort on both keys (sorted by: %s): which value lands in which cell depends on the order of the input rows'
                    % (norm(sub)[:80], '; '.join(keys) or 'nothing'), f.loc(sub))
  ga = repo.cls(MM).getters.get('geo_assignments')
  ctx = FuncCtx.of(ga)
  for node in ctx.g.nodes:
    if node.kind == 'stmt' and isinstance(node.ast, ast.Assign) and any(norm(t) == 'self.data.geo_index' for t in node.ast.targets):
      t = ctx.rd.expand(node, node.ast.value)[0]
      ok = isinstance(t, ast.ListComp) and re.fullmatch(r'list\(self\.geo_req_impact\.index\)|self\.geo_req_impact\.index|list\(self\.geo_req_impact\.sort_values\(.*\)\.index\)',
                                                         norm(t.generators[0].iter)) is not None
      ok = ok or (isinstance(t, ast.Call) and norm(t.func) == 'sorted')
      n += 1
      rep.check(ok, 'R3/order-taint', 'the installed geo order is taken from the data (per-geo impact table), not from a set', ga.qualname, norm(t)[:120],
                'the geo index `%s` does not take its order from the data-derived impact table' % norm(t)[:100], ga.loc(node.ast))
  # truncation / ranking of geo IDs must be ordered by the data, never by the IDs themselves
  for fname in ('geos_within_constraints', 'geo_assignments'):
    ff = repo.cls(MM).getters.get(fname)
    if ff is None:
      continue
    cx = FuncCtx.of(ff)
    for node in cx.g.nodes:
      for e in cx.node_exprs(node):
        for sub in walk_no_nested(e):
          seqs = []
          if isinstance(sub, ast.Subscript) and isinstance(sub.slice, ast.Slice) and isinstance(sub.ctx, ast.Load):
            seqs.append(sub.value)
          if isinstance(sub, ast.Assign) and any(norm(t_) == 'self.data.geo_index' for t_ in sub.targets):
            seqs.append(sub.value)
          for sq in seqs:
            ex = cx.rd.expand(node, sq, depth=10)[0]
            for call in [c for c in ast.walk(ex) if isinstance(c, ast.Call)]:
              fn = norm(call.func)
              if fn not in ('sorted',) and not fn.endswith('.sort'):
                continue
              n += 1
              key = au.kwarg(call, 'key')
              id_dep = key is None
              if isinstance(key, ast.Lambda):
                arg = key.args.args[0].arg
                for x in ast.walk(key.body):
                  if isinstance(x, ast.Name) and x.id == arg:
                    inside_lookup = False
                    for sb in ast.walk(key.body):
                      if isinstance(sb, ast.Subscript) and any(y is x for y in ast.walk(sb.slice)):
                        inside_lookup = True
                    if not inside_lookup:
                      id_dep = True
              rep.check(not id_dep, 'R3/order-taint', '%s: ranking `%s` orders geos by data only' % (fname, norm(call)[:50]), ff.qualname, norm(call)[:120],
                        '%s ranks geo IDs with `%s`, whose order depends on the IDs themselves (ties or the whole order follow the spelling of the IDs): renaming the geos changes which geos survive the cut'
                        % (fname, norm(call)[:90]), ff.loc(sub))
  rep.floor('order-taint sites examined', n, 1)


def r4_dates(repo, rep):
  bad = []
  for q in ('tbrmmdata.TBRMMData', MM, 'tbrmmdiagnostics.TBRMMDiagnostics'):
    for f in repo.cls(q).all_functions():
      for sub in walk_no_nested(f.node):
        t = norm(sub) if isinstance(sub, (ast.Call, ast.Attribute)) else ''
        if re.search(r'Timestamp\(|timedelta|to_datetime\(|\.dt\.|date_range\(|\.dayofweek|\.weekday', t):
          bad.append((f, sub))
  rep.check(not bad, 'R4/dates-as-labels', 'no date arithmetic in the design path', MM, '; '.join(norm(s)[:40] for f, s in bad)[:120],
            'the design path does arithmetic on dates (%s): shifting all dates can change the result' % '; '.join(norm(s)[:40] for f, s in bad)[:100],
            bad[0][0].loc(bad[0][1]) if bad else '')


def r5_dimensions(repo, rep):
  T = typesmod.Types(repo)
  mm = repo.cls(MM)
  roots = [mm.methods[m] for m in ('exhaustive_search', 'greedy_search', '__init__') if m in mm.methods]
  for q in ('tbrmmdesign.TBRMMDesign', 'tbrmmscore.TBRMMScore'):
    c = repo.cls(q)
    if '__lt__' in c.methods:
      roots.append(c.methods['__lt__'])
  closure, edges = T.closure(roots)
  D = dimsmod.Dims(repo, T, SEEDS)
  D.universe = closure
  n_cmp = n_known = n_add = n_round = 0
  for q, f in sorted(closure.items()):
    if f.module.name in ('heapdict', 'geoeligibility', 'tbrmmdata', 'tbrmmdesign'):
      continue
    rep.fn(f)
    ctx = FuncCtx.of(f)
    for node in ctx.g.nodes:
      for e in ctx.node_exprs(node):
        for sub in walk_no_nested(e):
          if isinstance(sub, ast.Compare) and all(isinstance(o, (ast.Lt, ast.LtE, ast.Gt, ast.GtE, ast.Eq, ast.NotEq)) for o in sub.ops):
            ops = [sub.left] + list(sub.comparators)
            for a, b in zip(ops, ops[1:]):
              n_cmp += 1
              da, db = D.dim(f, a, node), D.dim(f, b, node)
              if da is None or db is None:
                continue
              n_known += 1
              d, bad = dimsmod.unify(da, db)
              rep.check(not bad, 'R5/dimension', '%s: comparison %s relates equal units (U^%s)' % (f.name, norm(sub)[:40], d), f.qualname, norm(sub)[:120],
                        'the comparison `%s` relates a quantity in (response unit)^%s with one in (response unit)^%s — e.g. a response-scaled value against a fixed number: multiplying all responses by c changes its outcome'
                        % (norm(sub)[:80], da, db), f.loc(sub), nontrivial=(da not in (0, dimsmod.POLY) or db not in (0, dimsmod.POLY)))
          if isinstance(sub, ast.Call):
            ln = au.lib_name(f.module, sub.func) or norm(sub.func)
            # rounding to a fixed grid (round(x, 2), numpy.floor(x), x.round(1)) is an absolute tolerance
            grid_arg = None
            if ln in ('round', 'numpy.round', 'numpy.around', 'numpy.floor', 'numpy.ceil', 'numpy.trunc', 'numpy.rint', 'math.floor', 'math.ceil',
                      'math.trunc') and sub.args:
              grid_arg = sub.args[0]
            elif isinstance(sub.func, ast.Attribute) and sub.func.attr == 'round' and au.lib_name(f.module, sub.func) is None:
              grid_arg = sub.func.value
            if grid_arg is not None:
              n_round += 1
              dg = D.dim(f, grid_arg, node)
              rep.check(dg is None or dg in (0, dimsmod.POLY), 'R5/dimension', '%s: rounding %s applies to a unit-free quantity' % (f.name, norm(sub)[:40]),
                        f.qualname, norm(sub)[:120],
                        'the call `%s` rounds a quantity in (response unit)^%s to a fixed grid: an absolute precision on a response-scaled value, so multiplying all responses (and the budget range) by c changes which designs pass the tests that use it'
                        % (norm(sub)[:80], dg), f.loc(sub), nontrivial=dg is not None)
            if ln in ('numpy.isclose', 'numpy.allclose', 'math.isclose', 'numpy.testing.assert_allclose') and len(sub.args) >= 2:
              da, db = D.dim(f, sub.args[0], node), D.dim(f, sub.args[1], node)
              atol = au.kwarg(sub, 'atol') or au.kwarg(sub, 'abs_tol')
              has_abs = (ln.startswith('numpy') and not (atol is not None and au.const(atol)[0] and au.const(atol)[1] == 0)) or \
                        (ln == 'math.isclose' and atol is not None and not (au.const(atol)[0] and au.const(atol)[1] == 0))
              scaled = any(isinstance(x, int) and x != 0 or (x is not None and x not in (0, dimsmod.POLY)) for x in (da, db))
              unknown = da is None and db is None
              if has_abs and not scaled and not unknown and (da is None or db is None):
                rep.undecided('R5/dimension', '%s: %s' % (f.name, norm(sub)[:50]), 'an absolute tolerance is applied to a quantity whose unit is not inferred (%s, %s)' % (da, db), f.loc(sub))
                continue
              rep.check(not (has_abs and (scaled or unknown)), 'R5/dimension', '%s: tolerance test %s has no absolute tolerance on scaled quantities' % (f.name, norm(sub)[:40]),
                        f.qualname, norm(sub)[:120],
                        'the tolerance test `%s` applies an absolute tolerance (default atol=1e-8) to a response-scaled quantity (units %s, %s): for small response scales everything counts as equal'
                        % (norm(sub)[:80], da, db), f.loc(sub))
  for (f, e, txt, l, r) in D.mismatches:
    n_add += 1
    rep.violation('R5/dimension', f.qualname, txt[:120],
                  'the expression `%s` adds quantities in (response unit)^%s and (response unit)^%s: the result is not equivariant under scaling of the responses' % (txt[:80], l, r),
                  f.loc(e))
  rep.extra['comparisons_in_design_path'] = n_cmp
  rep.extra['rounding_sites_in_design_path'] = n_round
  rep.extra['comparisons_with_both_dimensions_known'] = n_known
  rep.floor('comparisons with known dimensions', n_known, 15)


ABS_GRID = ('round', 'math.floor', 'math.ceil', 'math.trunc', 'np.round', 'np.around', 'np.floor', 'np.ceil', 'np.trunc', 'np.rint', 'numpy.round', 'numpy.floor',
            'numpy.ceil', 'numpy.trunc', 'numpy.rint', 'numpy.around')


def r6_stored_parameters(repo, rep):
  """The design parameters are stored as given (integer-valued sizes as ints): a validated amount that is rounded to a
  fixed grid before it is stored (`math.floor(x * 100) / 100`, `round(x, 2)`) makes every later decision depend on the
  unit the amounts are expressed in -- scaling responses and budgets by c no longer scales the design."""
  from mmsa.types import FuncCtx
  cls = repo.cls('tbrmmdesignparameters.TBRMMDesignParameters')
  n = 0
  for f in cls.all_functions():
    ctx = FuncCtx.of(f)
    selfn = f.params[0] if f.params else 'self'
    for node in ctx.g.nodes:
      if node.kind != 'stmt':
        continue
      vals = []
      st = node.ast
      if isinstance(st, ast.Assign) and any(isinstance(t_, ast.Attribute) and isinstance(t_.value, ast.Name) and t_.value.id == selfn for t_ in st.targets):
        vals.append(st.value)
      for c_ in au.calls_in(st):
        if isinstance(c_.func, ast.Name) and c_.func.id == 'setattr' and len(c_.args) == 3 and isinstance(c_.args[0], ast.Name) and c_.args[0].id == selfn:
          vals.append(c_.args[2])
      for v in vals:
        n += 1
        vx = ctx.rd.expand(node, v, depth=8, keep=tuple(f.params))[0]
        scope = [vx]
        # every definition that may flow into the stored value (names with several reaching definitions are not expanded)
        seen_, work_ = set(), [(node, vx)]
        while work_ and len(seen_) < 200:
          at_, e_ = work_.pop()
          for nm_ in {x_.id for x_ in ast.walk(e_) if isinstance(x_, ast.Name) and isinstance(x_.ctx, ast.Load)}:
            for d_ in ctx.rd.defs_at(at_, nm_):
              if id(d_) in seen_ or d_.value is None or d_.how not in ('assign', 'unpack', 'augassign'):
                continue
              seen_.add(id(d_))
              scope.append(d_.value)
              work_.append((d_.node, d_.value))
        # a helper of the class that computes the stored form: its returns are part of the stored value
        for c_ in ast.walk(vx):
          if isinstance(c_, ast.Call) and isinstance(c_.func, ast.Attribute) and isinstance(c_.func.value, ast.Name) and c_.func.value.id in (selfn, cls.name) \
              and c_.func.attr in cls.methods and cls.methods[c_.func.attr] is not f:
            h_ = cls.methods[c_.func.attr]
            hctx = FuncCtx.of(h_)
            for rn_ in hctx.g.nodes:
              if rn_.kind == 'return' and rn_.ast.value is not None:
                scope.append(hctx.rd.expand(rn_, rn_.ast.value, depth=8, keep=tuple(h_.params))[0])
        grid = [c_ for e_ in scope for c_ in ast.walk(e_) if isinstance(c_, ast.Call) and norm(c_.func) in ABS_GRID] \
            + [b_ for e_ in scope for b_ in ast.walk(e_) if isinstance(b_, ast.BinOp) and isinstance(b_.op, (ast.FloorDiv, ast.Mod))]
        rep.check(not grid, 'R6/stored-parameters', '%s stores the validated value (sizes as ints), not a value rounded to a fixed grid' % f.name, f.qualname,
                  norm(st)[:100],
                  '%s stores a parameter after rounding it on an absolute grid (`%s`): the stored range depends on the unit of the amounts, so designs are not invariant under a common rescaling of responses and budgets'
                  % (f.name, norm(grid[0])[:70] if grid else ''), f.loc(st))
  rep.floor('stores of validated parameters', n, 2)


def run(repo, rep, tier):
  r6_stored_parameters(repo, rep)
  r1_r2_ingestion(repo, rep)
  r3_order_taint(repo, rep)
  r4_dates(repo, rep)
  r5_dimensions(repo, rep)
