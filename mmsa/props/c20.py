"""C20 — expansion of excluded days is exact.

Decided (structure): (R1) expand_time_windows returns the accumulated days through
a de-duplicating construct; (R2) every window is expanded with
pd.date_range(first_day, last_day) at daily frequency, both ends included;
(R3) both loops iterate the whole input and every iteration accumulates;
(R4) find_days_to_exclude dispatches on the number of '-'-separated parts: one
part -> (d, d), two parts -> (first, second) in order, anything else raises
ValueError; every raise is ValueError and handlers convert only ValueError;
windows are built by TimeWindow, whose ordering guard (first_day > last_day ->
ValueError) dominates normal construction.
Not decided: what pd.Timestamp accepts as a day string (e.g. '' parses to NaT,
times of day), which is library behaviour.
"""
import ast
import re

from mmsa import au, cfg as cfgmod, dataflow, pathcond
from mmsa.core import Undecided, norm, walk_no_nested

EXPLANATION = (
    'Structural rules on utils.expand_time_windows, utils.find_days_to_exclude and common_classes.TimeWindow: de-duplicating return, '
    'argument table of pd.date_range, whole-input iteration with an accumulate on every iteration (CFG path rule), arity dispatch '
    'proved by path conditions for every path that appends a window, exception-type discipline, dominance of the ordering guard.')
RULE_TEXT = 'one obligation per clause and per appending path; all constrain the returned list'

DEDUP_FUNCS = {'set', 'frozenset'}


def _dedups(mod, e):
  """Does expression e de-duplicate its argument? returns inner expr or None."""
  if isinstance(e, ast.Call):
    fn = au.lib_name(mod, e.func) or norm(e.func)
    if fn in ('list', 'sorted', 'tuple') and len(e.args) == 1:
      return _dedups(mod, e.args[0])
    if fn in DEDUP_FUNCS and len(e.args) == 1:
      return e.args[0]
    if fn in ('dict.fromkeys', 'collections.OrderedDict.fromkeys', 'pandas.unique', 'numpy.unique') and e.args:
      return e.args[0]
    if isinstance(e.func, ast.Attribute) and e.func.attr in ('unique', 'drop_duplicates') and not e.args:
      return e.func.value
    if isinstance(e.func, ast.Attribute) and e.func.attr in ('tolist', 'to_list') and not e.args:
      return _dedups(mod, e.func.value)
  if isinstance(e, ast.SetComp):
    return e
  return None


def watermark_regressions(f, g, rd, loops):
  """Loop-carried "covered so far" markers that are not updated monotonically.

  A variable V is a high-water mark of loop L when it is assigned inside L from the loop element and read inside L before that
  assignment in a comparison or as the base of the next start (`x <= V`, `V + step`).  Its update must be `max(V, ...)` or be
  guarded by a comparison with V; a plain `V = elem.attr` moves it backwards for nested elements."""
  out = []
  doms = g.dominators(cfgmod.no_exc)
  for loop in loops:
    elem = {x.id for x in ast.walk(loop.ast.target) if isinstance(x, ast.Name)}
    body = [n for n in g.nodes if n.ast is not None and n is not loop and any(x is n.ast for x in ast.walk(loop.ast))]
    for n in body:
      if not (n.kind == 'stmt' and isinstance(n.ast, ast.Assign) and len(n.ast.targets) == 1 and isinstance(n.ast.targets[0], ast.Name)):
        continue
      v = n.ast.targets[0].id
      val = n.ast.value
      from_elem = any(isinstance(x, ast.Name) and x.id in elem for x in ast.walk(val))
      if not from_elem or v in elem:
        continue
      # read of v inside the loop that can see the value of a previous iteration (the definition at n reaches it around the back edge)
      carried = False
      compared = False
      for m in body:
        for e in ([m.expr] if m.kind == 'test' else ([m.ast] if m.kind in ('stmt',) else [])):
          for x in ast.walk(e):
            if isinstance(x, ast.Name) and x.id == v and isinstance(x.ctx, ast.Load) and m is not n:
              if any(d.node is n for d in rd.defs_at(m, v)) and n not in doms.get(m, ()):
                carried = True
                par = getattr(x, '_parent', None)
                if isinstance(par, (ast.Compare, ast.BinOp)) or m.kind == 'test':
                  compared = True
      if not (carried and compared):
        continue
      def mono(e):
        if isinstance(e, ast.Call) and norm(e.func) in ('max', 'np.maximum', 'numpy.maximum') and any(norm(a) == v for a in e.args):
          return True
        if isinstance(e, ast.IfExp):
          t = norm(e.test)
          if t == '%s is None' % v:
            return mono(e.orelse)
          if t == '%s is not None' % v:
            return mono(e.body)
          if isinstance(e.test, ast.Compare) and v in {x.id for x in ast.walk(e.test) if isinstance(x, ast.Name)}:
            return norm(e.body) == v or norm(e.orelse) == v     # `x if x > v else v`
        return False
      monotone = mono(val)
      if not monotone:
        # guarded update: `if elem.attr > v: v = elem.attr`
        par = getattr(n.ast, '_parent', None)
        if isinstance(par, ast.If) and v in {x.id for x in ast.walk(par.test) if isinstance(x, ast.Name)} and isinstance(par.test, ast.Compare) \
            and any(n.ast is st_ for st_ in par.body) and 'is None' not in norm(par.test):
          monotone = True
        # first assignment of the marker: `if v is None: v = elem.attr` (nothing covered yet)
        if isinstance(par, ast.If) and ((norm(par.test) == '%s is None' % v and any(n.ast is st_ for st_ in par.body))
                                        or (norm(par.test) == '%s is not None' % v and any(n.ast is st_ for st_ in par.orelse))):
          monotone = True
      if not monotone:
        out.append((loop, v, n))
    # second shape: a list of merged blocks whose last block is extended in place,
    #   first, last = blocks[-1] ... if elem.first_day <= last (+ step): blocks[-1] = (first, elem.last_day)
    # the new end must be max(last, elem.last_day): a window nested in the block otherwise pulls the end back
    for n in body:
      if not (n.kind == 'stmt' and isinstance(n.ast, ast.Assign) and len(n.ast.targets) == 1 and isinstance(n.ast.targets[0], ast.Subscript)):
        continue
      tgt, val = n.ast.targets[0], n.ast.value
      if isinstance(val, ast.Call) and len(val.args) == 2 and not val.keywords and isinstance(tgt.value, ast.Name) and norm(val.func).split('.')[-1][:1].isupper():
        # blocks[-1] = Window(blocks[-1].first, elem.last): the same shape with a value type instead of a pair
        slot = norm(ast.Subscript(value=tgt.value, slice=tgt.slice, ctx=ast.Load()))
        first_, end_ = val.args
        if slot in norm(first_):
          from_elem_ = any(isinstance(x, ast.Name) and x.id in elem for x in ast.walk(end_))
          uses_old_ = slot in norm(end_)
          is_max_ = isinstance(end_, ast.Call) and norm(end_.func) in ('max', 'np.maximum') and uses_old_
          guarded_ = False
          par_ = getattr(n.ast, '_parent', None)
          while par_ is not None and par_ is not loop.ast:
            if isinstance(par_, ast.If) and isinstance(par_.test, ast.Compare) and slot in norm(par_.test) \
                and any(('last' in norm(x).lower() or 'end' in norm(x).lower()) and any(isinstance(y, ast.Name) and y.id in elem for y in ast.walk(x))
                        for x in [par_.test.left] + list(par_.test.comparators)) \
                and not any('first' in norm(x).lower() and any(isinstance(y, ast.Name) and y.id in elem for y in ast.walk(x)) for x in [par_.test.left] + list(par_.test.comparators)):
              guarded_ = True
            par_ = getattr(par_, '_parent', None)
          if from_elem_ and not is_max_ and not guarded_ and not uses_old_:
            out.append((loop, slot, n))
        continue
      if not (isinstance(val, (ast.Tuple, ast.List)) and len(val.elts) == 2 and isinstance(tgt.value, ast.Name)):
        continue
      blocks = tgt.value.id
      # names unpacked from the same element of the block list on the way to this store
      olds = [d for nm in {x.id for x in ast.walk(val.elts[0]) if isinstance(x, ast.Name)} for d in rd.defs_at(n, nm)
              if d.how == 'unpack' and d.value is not None and norm(d.value) == norm(ast.Subscript(value=tgt.value, slice=tgt.slice, ctx=ast.Load()))]
      if not olds:
        continue
      old_end_names = {d2.name for nd in {d.node for d in olds} for d2 in rd.gen.get(nd, ()) if d2.how == 'unpack' and d2.index == 1}
      end = val.elts[1]
      from_elem = any(isinstance(x, ast.Name) and x.id in elem for x in ast.walk(end))
      uses_old = any(isinstance(x, ast.Name) and x.id in old_end_names for x in ast.walk(end))
      is_max = isinstance(end, ast.Call) and norm(end.func) in ('max', 'np.maximum') and uses_old
      guarded = False
      par = getattr(n.ast, '_parent', None)
      while par is not None and par is not loop.ast:
        if isinstance(par, ast.If) and isinstance(par.test, ast.Compare) and any(isinstance(x, ast.Name) and x.id in old_end_names for x in ast.walk(par.test)) \
            and any('last_day' in norm(x) or 'end' in norm(x).lower() for x in [par.test.left] + list(par.test.comparators) if any(isinstance(y, ast.Name) and y.id in elem for y in ast.walk(x))) \
            and not any('first_day' in norm(x) for x in [par.test.left] + list(par.test.comparators)):
          guarded = True        # `if elem.last_day > last:` guards the extension
        par = getattr(par, '_parent', None)
      if from_elem and not is_max and not guarded and old_end_names:
        out.append((loop, '%s[%s]' % (blocks, norm(tgt.slice)), n))
  return out


def _loop_rule(rep, f, g, loop, param, acc_pred, rule, what):
  """`for x in <param>`: iterates the parameter itself; every iteration reaches an accumulate node or raises."""
  it_e = loop.ast.iter
  # element-wise wrappers keep every entry: map(f, X), enumerate(X), iter/list/tuple(X), (g(x) for x in X) without filter
  while True:
    if isinstance(it_e, ast.Call) and isinstance(it_e.func, ast.Name) and it_e.func.id == 'map' and len(it_e.args) == 2:
      it_e = it_e.args[1]
    elif isinstance(it_e, ast.Call) and isinstance(it_e.func, ast.Name) and it_e.func.id in ('enumerate', 'iter', 'list', 'tuple') and it_e.args:
      it_e = it_e.args[0]
    elif isinstance(it_e, (ast.GeneratorExp, ast.ListComp)) and len(it_e.generators) == 1 and not it_e.generators[0].ifs:
      it_e = it_e.generators[0].iter
    else:
      break
  it = norm(it_e)
  sliced = isinstance(it_e, ast.Subscript) or (isinstance(it_e, ast.Call) and norm(it_e.func).split('.')[-1] in ('islice', 'filter', 'takewhile', 'dropwhile', 'set', 'frozenset'))
  rep.check3(True if it == param else (False if (sliced or not au.aliens(it_e, (param,))) else None), rule, '%s iterates its whole input' % f.name, f.qualname, 'for ... in %s' % it,
             '%s iterates `%s`, not every entry of `%s`: entries are skipped' % (f.name, it, param), f.loc(loop.ast),
             why_open='the iterated expression `%s` reads names that are not resolved' % it[:60])
  body = [n for n in g.nodes if n.ast is not None and any(x is n.ast for x in ast.walk(loop.ast))]
  leave = [n for n in body if n.kind in ('break', 'return')]
  rep.check(not leave, rule, '%s never leaves the loop early' % f.name, f.qualname,
            '; '.join(n.text() for n in leave) or 'loop', '%s leaves the loop before all %s are consumed (%s)' % (f.name, what, '; '.join(n.text() for n in leave)),
            f.loc(leave[0].ast) if leave else f.loc())
  accs = {n for n in body if acc_pred(n)}
  p = g.iteration_skipping(loop, accs)
  if not accs:
    rep.undecided(rule, 'every iteration of %s accumulates (or raises)' % f.name, 'no statement of the loop body adds to the result in a recognised form (append / += / extend / add / update)', f.loc(loop.ast))
    return accs
  if p is not None:
    # a skipping path that runs through a call or an update of some container other than the accumulator: the accumulation
    # may happen there (helper, second-level container)
    mid = [n for n, _ in p[1:-1]]
    other_acc = [n for n in mid if n.kind == 'stmt' and any(isinstance(c_, ast.Call) and isinstance(c_.func, ast.Attribute) and c_.func.attr in ('append', 'extend', 'add', 'update', 'insert')
                                                             for c_ in ast.walk(n.ast))]
    if other_acc:
      rep.undecided(rule, 'every iteration of %s accumulates (or raises)' % f.name, 'an iteration adds to another container (`%s`): whether that reaches the result is not followed' % norm(other_acc[0].ast)[:60], f.loc(loop.ast))
      return accs
  rep.check(bool(accs) and p is None, rule, 'every iteration of %s accumulates (or raises)' % f.name, f.qualname,
            'iteration without accumulate: ' + (' -> '.join(n.text()[:30] for n, _ in p[1:-1]) if p else 'none'),
            'an iteration of %s can finish without adding its %s to the result' % (f.name, what), f.loc(loop.ast))
  return accs


def r_expand(repo, rep):
  f = repo.func('utils.expand_time_windows')
  rep.fn(f)
  mod = f.module
  g = cfgmod.CFG(f.node)
  rd = dataflow.Reaching(g)
  param = f.params[0]
  rets = [n for n in g.nodes if n.kind == 'return' and n.ast.value is not None]
  rets = [n for n in rets if not (isinstance(n.ast.value, ast.List) and not n.ast.value.elts)]     # `return []` for no windows
  if len(rets) != 1:
    rep.undecided('R1/dedup', f.name, 'expected one return', f.loc())
    return
  rv = rd.expand(rets[0], rets[0].ast.value)[0]      # look through locals: unique = set(days); return list(unique)
  inner = _dedups(mod, rv)
  loops = [n for n in g.nodes if n.kind == 'for']
  if inner is None:
    # accumulate-and-return-as-is is a recognised violation; other algorithms are not decided
    plain = rv
    while isinstance(plain, ast.Call) and norm(plain.func) in ('list', 'sorted', 'tuple') and len(plain.args) == 1:
      plain = plain.args[0]
    has_set = any(isinstance(s, (ast.Set, ast.SetComp)) or (isinstance(s, ast.Call) and norm(s.func) in ('set', 'frozenset'))
                  for s in walk_no_nested(f.node))
    if isinstance(plain, ast.Name) and not has_set and len(loops) == 1 and not any(n.kind == 'test' for n in g.nodes):
      rep.violation('R1/dedup', f.qualname, norm(rets[0].ast),
                    'expand_time_windows returns the accumulated list `%s` without de-duplicating it: days covered by overlapping or repeated windows appear more than once'
                    % norm(rv), f.loc(rets[0].ast))
    else:
      wm = [(f, x_) for x_ in watermark_regressions(f, g, rd, loops)]
      # helpers the function hands its windows to (merge / normalise steps that were not inlined)
      names_ = {x_.attr if isinstance(x_, ast.Attribute) else x_.id for x_ in ast.walk(f.node) if isinstance(x_, (ast.Attribute, ast.Name))}
      for q_ in sorted(getattr(repo, 'residual_helpers', ())):
        h_ = repo.functions.get(q_)
        if h_ is not None and h_.name in names_ and h_.module is f.module:
          rep.fn(h_)
          gh_ = cfgmod.CFG(h_.node)
          wm += [(h_, x_) for x_ in watermark_regressions(h_, gh_, dataflow.Reaching(gh_), [n_ for n_ in gh_.nodes if n_.kind == 'for'])]
      for (fn_, (loopn, var, node)) in wm:
        rep.violation('R1/dedup', fn_.qualname, norm(node.ast),
                      'expand_time_windows does not de-duplicate its result and relies on the running marker `%s` to skip days already covered, but `%s` can move the marker backwards '
                      '(a window nested in an earlier, longer one): days covered by a later overlapping window are then listed twice or dropped' % (var, norm(node.ast)), fn_.loc(node.ast))
      rep.undecided('R1/dedup', f.name, 'return value %s is not a recognised de-duplicating construct; the algorithm is not decided statically' % norm(rv)[:80], f.loc(rv))
    return
  rep.ok('R1/dedup', 'returned list is de-duplicated: %s' % norm(rv), loc=f.loc(rv))
  accname = norm(inner) if isinstance(inner, ast.Name) else None
  if len(loops) != 1 or accname is None:
    rep.undecided('R3/consume', f.name, 'expected one loop accumulating into a local list', f.loc())
    return
  loop = loops[0]

  def is_acc(n):
    if n.kind != 'stmt':
      return False
    st = n.ast
    if isinstance(st, ast.AugAssign) and norm(st.target) == accname and isinstance(st.op, ast.Add):
      return True
    if isinstance(st, ast.Expr) and isinstance(st.value, ast.Call) and isinstance(st.value.func, ast.Attribute) \
        and norm(st.value.func.value) == accname and st.value.func.attr in ('extend', 'append', 'update', 'add'):
      return True
    if isinstance(st, ast.Assign) and len(st.targets) == 1 and norm(st.targets[0]) == accname and accname in dataflow.names_loaded(st.value):
      return True
    return False
  accs = _loop_rule(rep, f, g, loop, param, is_acc, 'R3/consume', 'windows')
  # accumulator starts empty and is only grown
  inits = [n for n in g.nodes if n.kind == 'stmt' and isinstance(n.ast, ast.Assign) and norm(n.ast.targets[0]) == accname and n not in accs]
  rep.check(len(inits) == 1 and isinstance(inits[0].ast.value, (ast.List, ast.Call, ast.Set)) and norm(inits[0].ast.value) in ('[]', 'list()', 'set()'),
            'R3/consume', 'accumulator starts empty and is never reset', f.qualname, '; '.join(norm(n.ast) for n in inits),
            'the accumulator is re-initialised or starts non-empty: %s' % '; '.join(norm(n.ast) for n in inits), f.loc())
  # R2: date_range arguments
  wvar = norm(loop.ast.target)
  n_dr = 0
  for a in accs:
    val = a.ast.value if isinstance(a.ast, (ast.AugAssign, ast.Assign, ast.Expr)) else a.ast
    root = rd.expand(a, val, keep=(wvar, accname))[0]      # look through locals naming the expanded days
    for x_ in ast.walk(root):
      for ch_ in ast.iter_child_nodes(x_):
        ch_._parent = x_
    root._parent = None
    for call in au.calls_in(root):
      ln = au.lib_name(mod, call.func)
      if ln in ('pandas.date_range', 'pandas.bdate_range', 'pandas.period_range'):
        n_dr += 1
        start = au.arg(call, 0, 'start')
        end = au.arg(call, 1, 'end')
        freq = au.arg(call, 3, 'freq')
        bad = []
        if ln != 'pandas.date_range':
          bad.append('%s is not a calendar-day range' % ln)
        if start is None or norm(start) != '%s.first_day' % wvar:
          bad.append('start is %s, not the first day of the window' % (norm(start) if start is not None else 'missing'))
        if end is None or norm(end) != '%s.last_day' % wvar:
          bad.append('end is %s, not the last day of the window' % (norm(end) if end is not None else 'missing'))
        if freq is not None and not (au.is_const(freq, 'D') or au.is_const(freq, '1D') or au.is_const(freq, 'd')):
          bad.append('frequency %s is not daily' % norm(freq))
        for kw in ('inclusive', 'closed'):
          v = au.kwarg(call, kw)
          if v is not None and not (au.is_const(v, 'both') or au.is_const(v, None)):
            bad.append('%s=%s drops an end point of the closed range' % (kw, norm(v)))
        for kw in ('periods', 'normalize'):
          if au.kwarg(call, kw) is not None and kw == 'periods':
            bad.append('periods= limits the number of days')
        rep.check(not bad, 'R2/closed-daily-range', 'window expands to every day first_day..last_day inclusive', f.qualname, norm(call),
                  'date_range call %s: %s' % (norm(call), '; '.join(bad)), f.loc(call))
        # post-processing of the range must not drop elements
        par = getattr(call, '_parent', None)
        while par is not None:
          if isinstance(par, ast.Subscript):
            rep.violation('R2/closed-daily-range', f.qualname, norm(par), 'the expanded range is sliced (%s): days are dropped' % norm(par), f.loc(par))
          par = getattr(par, '_parent', None)
  if n_dr == 0:
    rep.undecided('R2/closed-daily-range', f.name, 'no pd.date_range call in the accumulate statement', f.loc())
  rep.floor('date_range expansion sites', n_dr, 1)


def r_find(repo, rep):
  f = repo.func('utils.find_days_to_exclude')
  rep.fn(f)
  mod = f.module
  g = cfgmod.CFG(f.node)
  rd = dataflow.Reaching(g)
  param = f.params[0]
  # whatever the shape of the function: an entry that is taken apart with a regular expression must be consumed as a whole by
  # it (or by another whole-string match).  Decided from the pattern (re._parser): match/search with a pattern that need not
  # reach the end, findall/finditer always.  Looked for in the function and in the helpers of the module it calls.
  from mmsa import regexes
  scope = [f] + [h for q_, h in repo.functions.items() if h.module is f.module and h is not f and not (repo.pinned_names and q_ in repo.pinned_names)
                 and any(isinstance(c_, ast.Call) and isinstance(c_.func, ast.Name) and c_.func.id == h.name for c_ in ast.walk(f.node))]
  rx = []
  for fn_ in scope:
    for c_ in ast.walk(fn_.node):
      if isinstance(c_, ast.Call) and isinstance(c_.func, ast.Attribute) and c_.func.attr in ('match', 'search', 'fullmatch', 'findall', 'finditer'):
        if au.lib_name(fn_.module, c_.func) in ('re.match', 're.search', 're.fullmatch', 're.findall', 're.finditer') and c_.args:
          pat_ = regexes.fold_string(c_.args[0], fn_.module.assigns)
        else:
          pat_ = regexes.compiled_pattern(c_.func.value, fn_.module.assigns)
        if pat_ is None:
          continue
        whole_ = False if c_.func.attr in ('findall', 'finditer') else regexes.whole_string(c_.func.attr, pat_)
        rx.append((fn_, c_, pat_, whole_))
  splits_ = any(isinstance(c_, ast.Call) and isinstance(c_.func, ast.Attribute) and c_.func.attr in ('split', 'partition', 'rsplit', 'rpartition') for fn_ in scope for c_ in ast.walk(fn_.node))
  if rx and not splits_ and not any(w_ for _f, _c, _p, w_ in rx):
    fn_, c_, pat_, _w = rx[0]
    rep.violation('R4/parse', fn_.qualname, norm(c_)[:100],
                  'the entry is parsed with `%s`, whose pattern %r does not have to consume the whole entry: text outside the matched part(s) is ignored, so a malformed entry (a third part, stray characters, a wrong separator) is accepted instead of raising ValueError'
                  % (norm(c_)[:60], pat_[:80]), fn_.loc(c_))
    return
  loops = [n for n in g.nodes if n.kind == 'for']
  rets = [n for n in g.nodes if n.kind == 'return' and n.ast.value is not None]
  rv_ = rets[0].ast.value if len(rets) == 1 else None
  # the accumulator may be a list, or a dictionary whose values are returned
  dict_acc = False
  if isinstance(rv_, ast.Call) and isinstance(rv_.func, ast.Name) and rv_.func.id in ('list', 'sorted', 'tuple') and len(rv_.args) == 1:
    inner_ = rv_.args[0]
    if isinstance(inner_, ast.Call) and isinstance(inner_.func, ast.Attribute) and inner_.func.attr == 'values' and isinstance(inner_.func.value, ast.Name):
      rv_, dict_acc = inner_.func.value, True
    elif isinstance(inner_, ast.Name):
      rv_ = inner_
  if len(loops) != 1 or len(rets) != 1 or not isinstance(rv_, ast.Name):
    rep.undecided('R4/parse', f.name, 'expected one loop and one returned list', f.loc())
    return
  acc = rv_.id
  loop = loops[0]
  entry = norm(loop.ast.target)

  def is_acc(n):
    if n.kind != 'stmt':
      return False
    for call in au.calls_in(n.ast):
      if isinstance(call.func, ast.Attribute) and norm(call.func.value) == acc and call.func.attr in ('append', 'extend'):
        return True
    if isinstance(n.ast, ast.Assign) and len(n.ast.targets) == 1 and isinstance(n.ast.targets[0], ast.Subscript) and norm(n.ast.targets[0].value) == acc:
      return True       # dictionary accumulator: acc[key] = window
    return isinstance(n.ast, ast.AugAssign) and norm(n.ast.target) == acc
  accs = _loop_rule(rep, f, g, loop, param, is_acc, 'R3/consume', 'entries')
  # every raise is ValueError; handlers catch ValueError only and re-raise ValueError
  n_r = 0
  for sub in walk_no_nested(f.node):
    if isinstance(sub, ast.Raise):
      n_r += 1
      exc = sub.exc
      exn = norm(exc.func) if isinstance(exc, ast.Call) else (norm(exc) if exc is not None else 're-raise')
      rep.check(exn in ('ValueError', 're-raise'), 'R4/ValueError', 'malformed entries raise ValueError', f.qualname, norm(sub)[:90],
                'find_days_to_exclude rejects with %s instead of ValueError' % exn, f.loc(sub))
    if isinstance(sub, ast.ExceptHandler):
      t = norm(sub.type) if sub.type is not None else 'bare except'
      rep.check(t == 'ValueError', 'R4/ValueError', 'handler converts only ValueError', f.qualname, 'except %s' % t,
                'handler `except %s` %s' % (t, 'swallows/relabels errors other than the parse failure' if t != 'ValueError' else ''), f.loc(sub))
      reraises = [s for s in ast.walk(sub) if isinstance(s, ast.Raise)]
      rep.check(bool(reraises), 'R4/ValueError', 'parse failure is re-raised', f.qualname, 'except %s: no raise' % t,
                'a parse failure is swallowed by `except %s` without raising: the malformed entry is silently dropped' % t, f.loc(sub))
  rep.floor('raise sites of find_days_to_exclude', n_r, 3)
  # arity dispatch for every path (one iteration) that appends a window
  n_paths = 0
  for a in sorted(accs, key=lambda n: n.lineno):
    paths = pathcond.paths_to(g, lambda n: n is a, src=loop, back_limit=0,
                              edge_ok=lambda x, y, lab: lab != 'exc' and not (x is loop and lab == 'exhausted'))
    for p in paths:
      pf = pathcond.PathFacts(p, rd, keep=(param, entry))
      if not pf.feasible:
        continue
      # the appended element on this path: the call itself, or the last definition on the path of the appended local
      at = a
      calls = [c for c in au.calls_in(a.ast) if norm(c.func).endswith('TimeWindow')]
      if not calls:
        appended = [c.args[0] for c in au.calls_in(a.ast) if isinstance(c.func, ast.Attribute) and c.func.attr == 'append' and len(c.args) == 1]
        if isinstance(a.ast, ast.AugAssign):
          v_ = a.ast.value
          appended = [v_.elts[0]] if isinstance(v_, ast.List) and len(v_.elts) == 1 else []
        if len(appended) == 1 and isinstance(appended[0], ast.Name) and appended[0].id in pf.env:
          d_, _env = pf.env[appended[0].id]
          if d_.how == 'assign' and isinstance(d_.value, ast.Call) and norm(d_.value.func).endswith('TimeWindow'):
            calls, at = [d_.value], d_.node
      if len(calls) != 1:
        # recognised bad shape: the element is a plain pair / list / timestamp; anything else (e.g. the result of a parser
        # looked up in a table) is not visible here
        elems = appended if 'appended' in dir() and appended else []
        plain = any(isinstance(x_, (ast.Tuple, ast.List)) or (isinstance(x_, ast.Call) and norm(x_.func).endswith('Timestamp')) for x_ in elems)
        if plain:
          rep.violation('R4/parse', f.qualname, norm(a.ast)[:100],
                        'the appended element is not constructed through TimeWindow, so reversed ranges are not rejected', f.loc(a.ast))
        else:
          rep.undecided('R4/parse', 'appended element', 'the appended element `%s` is not visibly constructed by TimeWindow in this function' % norm(a.ast)[:60], f.loc(a.ast))
        continue
      rep.ok('R4/parse', 'appended element is built by TimeWindow (ordering guard applies)', loc=f.loc(calls[0]))
      tw = calls[0]
      args = [au.arg(tw, 0, 'first_day'), au.arg(tw, 1, 'last_day')]
      if any(x is None for x in args):
        rep.undecided('R4/parse', 'TimeWindow arguments', norm(tw), f.loc(tw))
        continue
      n_paths += 1
      rep.analysed['paths'] += 1
      exp = [norm(rd.expand(at, x, keep=(param, entry))[0]) for x in args]
      # parts container: <entry>.split('-')
      import re
      idx = []
      base = None
      for t in exp:
        m = re.fullmatch(r"(?:pd\.Timestamp|pandas\.Timestamp|pd\.to_datetime)\((.+)\[(-?\d+)\](?:\.strip\(\))?\)", t) or \
            re.fullmatch(r"(.+)\[(-?\d+)\](?:\.strip\(\))?", t)
        if m:
          base = m.group(1)
          idx.append(int(m.group(2)))
        else:
          idx.append(None)
      if None in idx or base is None or not re.fullmatch(r"%s\.split\('-'\)" % re.escape(entry), base):
        joined = ' '.join(exp)
        for x_ in args:
          for nm_ in [y_ for y_ in ast.walk(x_) if isinstance(y_, ast.Name)]:
            for d_ in rd.defs_at(at, nm_.id):
              if d_.value is not None:
                joined += ' ' + norm(rd.expand(d_.node, d_.value, keep=(param, entry))[0])
        if re.search(r"\.(r?partition)\('-'\)|\.r?split\('-', (1|maxsplit=1)\)", joined):
          rep.violation('R4/parse', f.qualname, 'TimeWindow(%s, %s)' % tuple(e_[:60] for e_ in exp),
                        'the entry is cut at the first/last "-" only (%s): an entry with more than one "-" is not rejected for its arity, the remainder is handed to the date parser'
                        % joined[:100], f.loc(tw))
        else:
          verdict = _regex_parse(f, rd, at, args, (param, entry))
          if verdict is not None and verdict[0] is False:
            rep.violation('R4/parse', f.qualname, verdict[1][:100],
                          'the entry is parsed with `%s`, whose pattern %r does not have to consume the whole entry: text outside the matched part(s) is ignored, so a malformed entry (a third part, stray characters, a wrong separator) is accepted instead of raising ValueError'
                          % (verdict[1][:60], verdict[2][:80]), f.loc(tw))
          else:
            rep.undecided('R4/parse', 'TimeWindow(%s, %s)' % tuple(exp), 'arguments are not parts of entry.split("-")' +
                          ('' if verdict is None else ' (regular expression %r consumes the whole entry; its language is not modelled)' % verdict[2][:60]), f.loc(tw))
        continue

      def arity_is(k):
        """On this path the number of parts is k: tested directly, or one of (1, 2) with the other excluded."""
        other = 3 - k
        for conj in pf.dnf:
          forms = set()
          for e_, t_ in conj:
            forms |= pathcond.rel_forms(e_, t_)
          direct = 'len(%s) == %d' % (base, k) in forms
          both = any(x in forms for x in ('len(%s) in (1, 2)' % base, 'len(%s) in (2, 1)' % base, 'len(%s) in [1, 2]' % base, 'len(%s) in {1, 2}' % base))
          bounded = ('len(%s) <= 2' % base in forms or 'len(%s) < 3' % base in forms)
          excl = 'len(%s) != %d' % (base, other) in forms
          if not (direct or ((both or bounded) and excl)):
            return False
        return bool(pf.dnf)
      def one_or_two():
        for conj in pf.dnf:
          forms = set()
          for e_, t_ in conj:
            forms |= pathcond.rel_forms(e_, t_)
          if not any(x in forms for x in ('len(%s) in (1, 2)' % base, 'len(%s) in (2, 1)' % base, 'len(%s) in [1, 2]' % base, 'len(%s) in {1, 2}' % base,
                                          'len(%s) <= 2' % base, 'len(%s) < 3' % base, 'len(%s) == 1' % base, 'len(%s) == 2' % base)):
            return False
        return bool(pf.dnf)
      if idx == [0, -1] and one_or_two():
        rep.ok('R4/parse', 'window built from the first and the last part of a 1- or 2-part entry', loc=f.loc(tw))
        continue
      if arity_is(1):
        good = idx in ([0, 0], [0, -1], [-1, -1], [-1, 0])
        want = 'a single day d gives the window (d, d)'
      elif arity_is(2):
        good = idx in ([0, 1], [0, -1], [-2, -1], [-2, 1])
        want = 'a range "a - b" gives the window (a, b) in that order'
      else:
        rep.violation('R4/parse', f.qualname, 'append %s under %s' % (norm(tw), pf.text()[:120]),
                      'a window is appended on a path that did not establish the number of "-"-separated parts (1 or 2): entries with more parts are accepted instead of raising ValueError',
                      f.loc(tw))
        continue
      rep.check(good, 'R4/parse', 'arity dispatch: %s (parts %s)' % (want, idx), f.qualname, norm(tw),
                'TimeWindow is built from parts %s of the entry, but %s' % (idx, want), f.loc(tw))
  rep.floor('appending paths analysed', n_paths, 2)


def r_timewindow(repo, rep):
  cls = repo.cls('common_classes.TimeWindow')
  f = cls.methods.get('__post_init__')
  if f is None:
    rep.absent_in_class(cls, 'R4/ordering-guard', cls.qualname, 'no __post_init__', 'TimeWindow has no ordering check: reversed ranges are accepted', cls.loc())
    return
  rep.fn(f)
  g = cfgmod.CFG(f.node)
  selfn = f.params[0]
  guards = []
  rd_ = dataflow.Reaching(g)
  for n in g.nodes:
    if n.kind == 'test':
      ex = rd_.expand(n, n.expr)[0]
      want_rel = '%s.first_day > %s.last_day' % (selfn, selfn)
      also = '%s.last_day < %s.first_day' % (selfn, selfn)           # the same relation read from the other side
      fa_t, fa_f = pathcond.asserted_forms(ex, True), pathcond.asserted_forms(ex, False)
      if want_rel in fa_t or also in fa_t:
        branch = 'true'
      elif want_rel in fa_f or also in fa_f:
        branch = 'false'
      else:
        continue
      guards.append((n, branch))
  if not guards:
    weak = [n for n in g.nodes if n.kind == 'test' and 'first_day' in norm(rd_.expand(n, n.expr)[0]) and 'last_day' in norm(rd_.expand(n, n.expr)[0])]
    wx = rd_.expand(weak[0], weak[0].expr)[0] if weak else None
    simple = weak and isinstance(au.strip_not(wx)[0], ast.Compare) and len(au.strip_not(wx)[0].ops) == 1 and not au.aliens(wx, (selfn,))
    if weak and not simple:
      # (last_day - first_day).days + k < c : a linear test of the day difference d; it must reject exactly d < 0
      m_ = re.fullmatch(r'\((\w+)\.last_day - \1\.first_day\)\.days(?: ([+-]) (\d+))? (<|<=) (-?\d+)', norm(wx))
      if m_ and any(g.raise_exit in g.reachable(s_, cfgmod.no_exc) and g.exit not in g.reachable(s_, cfgmod.no_exc) for s_, lab_ in g.succ[weak[0]] if lab_ == 'true'):
        k_ = int(m_.group(3) or 0) * (-1 if m_.group(2) == '-' else 1)
        c_ = int(m_.group(5))
        last_rejected = (c_ - k_ - 1) if m_.group(4) == '<' else (c_ - k_)        # rejects d <= last_rejected
        rep.check(last_rejected == -1, 'R4/ordering-guard', 'the day-difference test rejects exactly the reversed ranges', f.qualname, norm(weak[0].expr),
                  'the ordering test `%s` rejects a range only when last_day - first_day <= %d days: %s' % (
                      norm(wx)[:80], last_rejected, 'a range reversed by %s is accepted' % ('one day' if last_rejected == -2 else 'up to %d days' % (-1 - last_rejected))
                      if last_rejected < -1 else 'single days or proper ranges are rejected'), f.loc(weak[0].expr))
        return
      rep.undecided('R4/ordering-guard', 'TimeWindow.__post_init__', 'the test `%s` relates first_day and last_day in a form that is not a single comparison' % norm(wx)[:80], f.loc(weak[0].expr))
      return
    if weak:
      rep.violation('R4/ordering-guard', f.qualname, norm(weak[0].expr),
                    'the ordering test `%s` is not "first_day > last_day": reversed ranges pass or single days are rejected' % norm(weak[0].expr), f.loc(weak[0].expr))
    else:
      # a comparison guarding a raise exists, but on values whose origin in first_day / last_day is not followed
      raising_cmp = [n_ for n_ in g.nodes if n_.kind == 'test' and any(isinstance(x_, ast.Compare) and isinstance(x_.ops[0], (ast.Gt, ast.Lt, ast.GtE, ast.LtE)) for x_ in ast.walk(n_.expr))
                     and any(g.raise_exit in g.reachable(m_, cfgmod.no_exc) and g.exit not in g.reachable(m_, cfgmod.no_exc) for m_, lab_ in g.succ[n_] if lab_ in ('true', 'false'))]
      if raising_cmp:
        rep.undecided('R4/ordering-guard', 'TimeWindow.__post_init__', 'an ordering test `%s` rejects, but its operands are not followed back to first_day and last_day' % norm(raising_cmp[0].expr)[:60], f.loc(raising_cmp[0].expr))
        return
      rep.absent(f, 'R4/ordering-guard', f.qualname, 'no ordering test', 'TimeWindow no longer rejects first_day > last_day', f.loc())
    return
  n, branch = guards[0]
  # the bad branch must raise ValueError on every path, and the guard must dominate the normal exit
  tgt = [m for m, lab in g.succ[n] if lab == branch]
  reach = g.reachable(tgt[0], cfgmod.no_exc) if tgt else set()
  rep.check(bool(tgt) and g.exit not in reach, 'R4/ordering-guard', 'first_day > last_day always raises', f.qualname, norm(n.expr),
            'a reversed window can be constructed without an exception', f.loc(n.expr))
  for r in reach:
    if r.kind == 'raisestmt':
      exn = norm(r.ast.exc.func) if isinstance(r.ast.exc, ast.Call) else norm(r.ast.exc)
      rep.check(exn == 'ValueError', 'R4/ordering-guard', 'reversed range raises ValueError', f.qualname, norm(r.ast)[:80],
                'reversed range raises %s instead of ValueError' % exn, f.loc(r.ast))
  rep.check(n in g.dominators(cfgmod.no_exc).get(g.exit, set()), 'R4/ordering-guard', 'the ordering guard dominates normal construction',
            f.qualname, norm(n.expr), 'some path constructs a TimeWindow without the ordering test', f.loc(n.expr))


def _regex_parse(f, rd, at, args, keep):
  """(whole_string, call text, pattern) of the regular-expression match the window arguments are taken from, or None."""
  from mmsa import regexes
  assigns = f.module.assigns
  trees = []
  seen = set()
  work = [(at, x) for x in args]
  while work and len(seen) < 40:
    n_, x_ = work.pop()
    e_ = rd.expand(n_, x_, keep=keep, aliases=True)[0]
    trees.append(e_)
    for nm_ in [y_ for y_ in ast.walk(e_) if isinstance(y_, ast.Name)]:
      for d_ in rd.defs_at(n_, nm_.id):
        if d_.value is not None and id(d_) not in seen:
          seen.add(id(d_))
          work.append((d_.node, d_.value))
  found = []
  for t in trees:
    for c in ast.walk(t):
      if not (isinstance(c, ast.Call) and isinstance(c.func, ast.Attribute) and c.func.attr in ('match', 'search', 'fullmatch', 'findall', 'finditer')):
        continue
      if au.lib_name(f.module, c.func) in ('re.match', 're.search', 're.fullmatch', 're.findall', 're.finditer') and c.args:
        pat = regexes.fold_string(c.args[0], assigns)
      else:
        pat = regexes.compiled_pattern(c.func.value, assigns)
      if pat is None:
        continue
      # findall / finditer pick the matching tokens out of the text: whatever stands between or around them is ignored
      whole = False if c.func.attr in ('findall', 'finditer') else regexes.whole_string(c.func.attr, pat)
      found.append((whole, norm(c), pat))
  # a whole-string match anywhere in the derivation validates the entry; otherwise the first partial extraction decides
  for v in found:
    if v[0]:
      return v
  return found[0] if found else None


def run(repo, rep, tier):
  r_expand(repo, rep)
  r_find(repo, rep)
  r_timewindow(repo, rep)
