"""C13 — the greedy search never beats the exhaustive optimum.

Decided (inclusion of feasible sets, structurally): (R1) every greedy design is
legal in the sense the exhaustive generators enforce — the greedy invariant
proofs of C01.R3 and the generator post-conditions of C01.R2 use the same six
clauses; (R2) for each non-budget, non-share constraint (group sizes, geo
ratio, volume ratio) both searches enforce the same specification row on the
pushed pair (C02 normaliser: equal normalised predicates because both equal
the spec row); (R3) both searches score a pushed design by TBRMMScore of a
diagnostics object built from the same two aggregate calls, and a score entry
is rewritten only under a budget range; (R4) both searches read the admitted
set only through self.geo_assignments.
Not decided: the score comparison itself (numeric).
"""
import ast
import re

from mmsa import au, search
from mmsa.core import Undecided, norm, walk_no_nested
from mmsa.props import c01, c02, c04

EXPLANATION = (
    'Composition of the Boolean-abstraction proofs of C01 (greedy invariant = generator post-conditions), the constraint-enforcement '
    'analysis of C02 restricted to sizes/geo ratio/volume ratio on both searches (sibling agreement through the common spec rows), the '
    'scoring-path provenance of C04 and a read-set rule for the admitted set.')
RULE_TEXT = 'obligations of the composed rules; non-trivial = clauses that relate the two searches'

SHARED = ['treatment_geos_range', 'control_geos_range', 'geo_ratio_tolerance', 'volume_ratio_tolerance']


def run(repo, rep, tier):
  Sub = type(rep)
  # R1
  s1 = Sub(rep.prop, rep.tier, rep.repo)
  c01.r2_generators(repo, s1)
  c01.r3_greedy(repo, s1)
  c01.r1_construction(repo, s1)
  for i in s1.instances:
    i.rule = 'R1/' + i.rule.split('/', 1)[1]
    rep.instances.append(i)
  # R2
  s2 = Sub(rep.prop, rep.tier, rep.repo)
  c02._prov_done.pop(id(s2), None)
  f, dwc = c02.dwc_summary(repo, s2)
  enf = {}
  for name in ('exhaustive_search', 'greedy_search'):
    enf[name] = c02.run_search(repo, s2, name, dwc)
  for i in s2.instances:
    txt = (i.subject or '') + ' ' + (i.construct or '') + ' ' + (i.detail or '')
    if any(k in txt for k in ('budget_range', 'treatment_share_range')) and not any(k in txt for k in SHARED):
      continue
    i.rule = 'R2/' + i.rule.split('/', 1)[1]
    rep.instances.append(i)
  for k in SHARED:
    a, b = enf['exhaustive_search'].get(k), enf['greedy_search'].get(k)
    if k not in enf['exhaustive_search'] or k not in enf['greedy_search'] or (a and a[0] == 'undecided') or (b and b[0] == 'undecided'):
      # the enforcement of one side could not be analysed (reported as undecided by R2/must-pass): nothing to compare
      rep.undecided('R2/sibling-agreement', k, 'the enforcement in one of the searches is not understood: exhaustive=%s greedy=%s' % (a, b))
      continue
    rep.check(bool(a) and bool(b), 'R2/sibling-agreement', 'both searches enforce %s on the pushed pair' % k, 'tbrmatchedmarkets.TBRMatchedMarkets',
              '%s: exhaustive=%s greedy=%s' % (k, a, b),
              'constraint %s is enforced by %s only: the greedy search can return a design the exhaustive search never ranks'
              % (k, 'the exhaustive search' if a else ('the greedy search' if b else 'neither search')), '')
  rep.floor('shared constraints compared', len(SHARED), 4)
  # R3
  s3 = Sub(rep.prop, rep.tier, rep.repo)
  for name in ('exhaustive_search', 'greedy_search'):
    c04.r1_r2_r5_search(repo, s3, name)
  for i in s3.instances:
    i.rule = 'R3/' + i.rule.split('/', 1)[1]
    rep.instances.append(i)
  # R5: the exhaustive side really ranks its whole feasible set (C03 enumeration rules): otherwise greedy can beat its "best"
  from mmsa.props import c03
  s5 = Sub(rep.prop, rep.tier, rep.repo)
  res = c03.r1_r2_r4(repo, s5)
  if res is not None:
    c03.r3_pruning(repo, s5, res[0], res[2])
  for i in s5.instances:
    i.rule = 'R5/' + i.rule.split('/', 1)[1]
    rep.instances.append(i)
  for f_, m_, fl_ in s5.floors:
    rep.floor(f_, m_, fl_)
  # R4: admitted set only through self.geo_assignments
  cls = repo.cls(search.MM)
  for name in ('exhaustive_search', 'greedy_search', 'treatment_group_generator', 'control_group_generator', 'treatment_group_size_range',
               '_control_group_size_generator', 'design_within_constraints'):
    f = cls.methods.get(name)
    if f is None:
      raise Undecided('%s vanished' % name)
    rep.fn(f)
    bad = []
    for sub in walk_no_nested(f.node):
      if isinstance(sub, ast.Attribute):
        t = norm(sub)
        if t in ('self.data.geo_assignments', 'self.data.geo_eligibility', 'self.data.assignable', 'self.data._geo_index') or \
            re.match(r'self\.data\.geo_eligibility\.', t):
          bad.append(sub)
    rep.check(not bad, 'R4/admitted-set', '%s reads eligibility classes only through self.geo_assignments' % name, f.qualname,
              '; '.join(sorted({norm(b) for b in bad}))[:100],
              '%s reads %s directly instead of self.geo_assignments: it can see classes that do not match the installed geo index (or un-admitted geos)'
              % (name, sorted({norm(b) for b in bad})), f.loc(bad[0]) if bad else f.loc(), nontrivial=False)
