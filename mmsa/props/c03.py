"""C03 — the exhaustive search returns the best-scoring feasible designs, best first.

Decided (structure of the enumeration, not the optimum): (R1) the three nested
loops iterate exactly treatment_group_size_range(), treatment_group_generator(size)
and control_group_generator(T) with no slicing and no break/return/raise inside
the nest, and the generators consume the whole itertools.combinations iterator;
(R2) every edge that leaves an iteration before results.push is controlled by a
condition on the allow-list {share out of range, superset of a stored over-max
pattern, optimistic budget > max, optimistic budget < min, volume ratio out of
range, actual budget out of range}; (R3) the pattern list is written only under
"optimistic budget > budget_range[1]", the helper tests stored-pattern ⊆
candidate, and the optimistic budget is estimate_required_impact(rho_max)/iroas
of the treatment group's own series; (R4) results.push is reached by every
iteration that is not skipped for an audited reason; (R5) the Scoring tuple has
the documented field order and is filled positionally from (corr_test, A/A,
Brownian bridge, Durbin-Watson, round(corr, 2), 1/required_impact), and both
__lt__ are tuple `<` (C14.R4). Heap behaviour: C14.
Not decided: that the returned scores are maximal (needs an independent
enumeration at run time); ties; NaN ordering.
"""
import ast
import re

from mmsa import au, cfg as cfgmod, dataflow, pathcond, search
from mmsa.core import Undecided, norm, walk_no_nested
from mmsa.props import c02
from mmsa.types import FuncCtx

EXPLANATION = (
    'Loop-exit audit on the CFG of exhaustive_search: every way out of an iteration of the three-level nest before results.push is '
    'classified by the provenance of its controlling conditions against an allow-list of six skip reasons; control dependence of the '
    'only writer of the pruning list; orientation of the subset test; table agreement of the Scoring tuple with the documented order.')
RULE_TEXT = 'one obligation per loop, per skip edge, per writer of the pattern list and per score slot'

DOC_SCORE = ['corr_test', 'aa_test', 'bb_test', 'dw_test', 'corr', 'inv_required_impact']
SLOT_EXPR = {
    'corr_test': r'int\(self\.diag\.corr_test\)',
    'aa_test': r'int\(self\.diag\.aatest\.test_ok\)',
    'bb_test': r'int\(self\.diag\.bbtest\.test_ok\)',
    'dw_test': r'int\(self\.diag\.dwtest\.test_ok\)',
    'corr': r'round\(self\.diag\.corr, 2\)',
    'inv_required_impact': r'1(\.0)? / self\.diag\.required_impact',
}
P = 'self.parameters.'


def _inside(n, loop_stmt):
  cur = n.ast
  while cur is not None:
    if cur is loop_stmt:
      return True
    cur = getattr(cur, '_parent', None)
  return False


def enclosing_conditions(node_ast, stop):
  """[(test expr, branch taken)] of the If statements enclosing node_ast up to `stop` (a loop statement)."""
  out = []
  cur = node_ast
  par = getattr(cur, '_parent', None)
  while par is not None and par is not stop:
    if isinstance(par, ast.If):
      if any(cur is s for s in par.body):
        out.append((par.test, True, par))
      elif any(cur is s for s in par.orelse):
        out.append((par.test, False, par))
    cur, par = par, getattr(par, '_parent', None)
  return out


def split_literals(conds):
  """Conditions split into their literals where the taken branch asserts a plain conjunction (`not (a > b)` taken
  false asserts `a > b`; `a and b` taken true asserts both)."""
  out = []
  for e, taken, ifst in conds:
    dnf = pathcond.literals(e, taken)
    if len(dnf) == 1:
      out += [(a, t, ifst) for a, t in dnf[0]]
    else:
      out.append((e, taken, ifst))
  return out


def r1_r2_r4(repo, rep):
  view = search.SearchView(repo, 'exhaustive_search')
  f, g, rd = view.f, view.g, view.rd
  rep.fn(f)
  if len(view.pushed) != 1 or view.pushed[0].T is None:
    rep.undecided('R1/full-iteration', 'exhaustive_search', 'expected exactly one push of a TBRMMDesign', f.loc())
    return None
  P_ = view.pushed[0]
  loops = view.loops_enclosing(P_.node)
  fors = [h for h in loops if h.kind == 'for']
  rep.floor('loops enclosing the push', len(fors), 3)
  if len(fors) != 3 or len(loops) != 3:
    # whatever the shape of the nest: leaving one of the loops around the push early drops the candidates not yet visited
    outer_ = loops[0] if loops else None
    if outer_ is not None:
      body_ = [n for n in g.nodes if n.ast is not None and _inside(n, outer_.ast)]
      early_ = [n for n in body_ if n.kind in ('break', 'return')]
      rep.check(not early_, 'R1/full-iteration', 'no break/return inside the enumeration', f.qualname, '; '.join(n.text()[:40] for n in early_),
                'the enumeration is left early by %s: the remaining feasible designs are never evaluated' % '; '.join(n.text()[:40] for n in early_),
                f.loc(early_[0].ast) if early_ else f.loc())
    rep.undecided('R1/full-iteration', 'exhaustive_search', 'expected a nest of exactly three for-loops around the push (found %d)' % len(loops), f.loc())
    return None
  hS, hT, hC = fors
  T, C = norm(P_.T), norm(P_.C)
  itS = norm(rd.expand(hS, hS.ast.iter)[0])
  itT = norm(rd.expand(hT, hT.ast.iter)[0])
  itC = norm(rd.expand(hC, hC.ast.iter)[0])
  sv, tv, cv = norm(hS.ast.target), norm(hT.ast.target), norm(hC.ast.target)
  # element-preserving wrappers of the size range: enumerate(X, ...) with the size as second target, list/tuple/sorted(X)
  itS_e = rd.expand(hS, hS.ast.iter)[0]
  while isinstance(itS_e, ast.Call) and isinstance(itS_e.func, ast.Name) and itS_e.func.id in ('enumerate', 'list', 'tuple', 'sorted', 'iter') and itS_e.args:
    if itS_e.func.id == 'enumerate':
      tg_ = hS.ast.target
      if not (isinstance(tg_, (ast.Tuple, ast.List)) and len(tg_.elts) == 2):
        break
      sv = norm(tg_.elts[1])
    itS_e = itS_e.args[0]
  itS = norm(itS_e)
  rep.check_term(itS == 'self.treatment_group_size_range()', itS_e, (), 'R1/full-iteration', 'sizes iterate the whole treatment_group_size_range()', f.qualname,
            'for %s in %s' % (sv, itS), 'the size loop iterates `%s`, not every admissible treatment size: feasible designs of the missing sizes are never evaluated' % itS, f.loc(hS.ast))
  rep.check_term(itT == 'self.treatment_group_generator(%s)' % sv and tv == T, rd.expand(hT, hT.ast.iter)[0], (sv,), 'R1/full-iteration', 'treatment groups iterate treatment_group_generator(size)', f.qualname,
            'for %s in %s' % (tv, itT), 'the treatment loop iterates `%s`, not every treatment group of the size (or the pushed treatment group is not the loop variable)' % itT, f.loc(hT.ast))
  rep.check_term(itC == 'self.control_group_generator(%s)' % tv and cv == C, rd.expand(hC, hC.ast.iter)[0], (tv, sv), 'R1/full-iteration', 'control groups iterate control_group_generator(treatment group)', f.qualname,
            'for %s in %s' % (cv, itC), 'the control loop iterates `%s`, not every control group for the treatment group (or the pushed control group is not the loop variable)' % itC, f.loc(hC.ast))
  body = [n for n in g.nodes if n.ast is not None and any(x is hS.ast for x in ast.walk(hS.ast) if x is n.ast) or _inside(n, hS.ast)]
  early = [n for n in body if n.kind in ('break', 'return', 'raisestmt')]
  rep.check(not early, 'R1/full-iteration', 'no break/return/raise inside the enumeration', f.qualname, '; '.join(n.text()[:40] for n in early),
            'the enumeration is left early by %s: the remaining feasible designs are never evaluated' % '; '.join(n.text()[:40] for n in early),
            f.loc(early[0].ast) if early else f.loc())
  # generators consume the whole combinations iterator
  cls = repo.cls(search.MM)
  for gname in ('treatment_group_generator', 'control_group_generator'):
    gf = cls.methods.get(gname)
    if gf is None:
      raise Undecided('%s vanished' % gname)
    rep.fn(gf)
    gctx = FuncCtx.of(gf)
    for h in [n for n in gctx.g.nodes if n.kind == 'for']:
      it = gctx.rd.expand(h, h.ast.iter, keep=tuple(gf.params))[0]
      hb = gctx.g.loop_body_nodes(h)
      leave = [n for n in hb if n.kind in ('break', 'return')]
      sliced = 'islice' in norm(it) or (isinstance(it, ast.Subscript))
      rep.check(not leave and not sliced, 'R1/full-iteration', '%s consumes `%s` completely' % (gname, norm(h.ast.iter)[:40]), gf.qualname,
                'for ... in %s' % norm(it)[:80], '%s does not consume every element of `%s` (%s)' % (gname, norm(it)[:60], 'sliced' if sliced else '; '.join(n.text() for n in leave)),
                gf.loc(h.ast))
      # every iteration yields (unless the body is itself a loop)
      ys = [n for n in hb if n.kind == 'stmt' and any(isinstance(s, ast.Yield) for s in walk_no_nested(n.ast))]
      if ys and not any(m.kind == 'for' and m is not h for m in hb):
        p = gctx.g.iteration_skipping(h, ys)
        rep.check(p is None, 'R1/full-iteration', '%s yields a group for every combination' % gname, gf.qualname, 'loop over %s' % norm(h.ast.iter)[:40],
                  '%s drops some combinations (an iteration can finish without yielding)' % gname, gf.loc(h.ast))
  # skip edges: every way an iteration of one of the three loops ends without the push having been executed and without the
  # next inner loop having run — `continue` statements and paths that simply fall off the end of the body alike
  tests = {n: (iv, q) for (n, iv, others, q) in c02.tests_of(repo, f)}
  doms = view.doms
  n_skips = 0
  ends = []
  for h, inner_h in ((hC, None), (hT, hC), (hS, hT)):
    hb = set(g.loop_body_nodes(h))
    for e in hb:
      if e is P_.node or e.kind in ('for', 'while'):
        continue
      if not any(m is h and lab != 'exc' for m, lab in g.succ[e]):
        continue
      if P_.node in doms.get(e, ()) or (inner_h is not None and inner_h in doms.get(e, ())):
        continue        # the design was pushed / the inner loop was run: not a skip
      ends.append((h, hb, e))
  for h, hb, e in sorted(ends, key=lambda x: x[2].id):
    n_skips += 1
    conds = [(ex, tk, tn) for ex, tk, tn in cfgmod.dominating_conditions(g, e, doms) if tn in hb]
    if e.kind == 'test':
      # the iteration ends on an outcome of this test itself (the push is in the other branch)
      for m, lab in g.succ[e]:
        if m is h and lab in ('true', 'false'):
          conds.append((e.expr, lab == 'true', e))
    reason = classify_skip(repo, rep, view, e, conds, T, C, tests)
    shown = ' and '.join(('' if t else 'not ') + norm(rd.expand(i, ex)[0])[:80] for ex, t, i in conds)
    if reason is None:
      vocab_ = {x.id for y in (P_.T, P_.C) for x in ast.walk(y) if isinstance(x, ast.Name)} | {sv, tv, cv, 'budget_range', 'save_treatment_groups'}
      # locals naming an object constructed in this function (the result heap, the diagnostics object) are known things
      for st_ in walk_no_nested(f.node):
        if isinstance(st_, ast.Assign) and len(st_.targets) == 1 and isinstance(st_.targets[0], ast.Name) and isinstance(st_.value, ast.Call) \
            and norm(st_.value.func).split('.')[-1][:1].isupper():
          vocab_.add(st_.targets[0].id)
      open_ = [a_ for ex, t, i in conds for a_ in au.aliens(rd.expand(i, ex)[0], vocab_)]
      # a closed condition that consults one of the constraints a skip may rest on (share range, volume tolerance, budget
      # range) can be that reason in a form the interval recogniser does not read: it is not *known* to be a foreign reason
      # which literals can be the reason of the skip?  Not the recognised range tests passed in their accepting direction and
      # not the `is None` tests of the parameters (they are the context of the skip).  If what remains consults one of the
      # constraints a skip may rest on (share range, volume tolerance, budget range), it can be that reason in a form the
      # interval recogniser does not read: the skip is not *known* to rest on a foreign reason
      KEYS_ = ('treatment_share_range', 'volume_ratio_tolerance', 'budget_range')
      consulted_ = []
      for ex, t, i in split_literals(conds):
        nd_ = i if hasattr(i, 'kind') else g.node_of(i)
        if nd_ in tests and t == tests[nd_][0].accept_when:
          continue
        lx_ = norm(rd.expand(nd_, ex, depth=12)[0])
        if re.fullmatch(r'[\w.]+ is (not )?None', lx_):
          continue
        consulted_ += [k_ for k_ in KEYS_ if k_ in lx_ and k_ not in consulted_]
      if conds and not open_ and consulted_:
        rep.undecided('R2/skip-audit', 'iteration end at line %d' % e.lineno,
                      'the iteration ends without a push under `%s`, which consults %s in a form that is not recognised as the range test of that constraint' % (shown[:120], ', '.join(consulted_)),
                      f.loc(e.ast) if e.ast is not None else f.loc())
        continue
      if not conds or open_:
        rep.undecided('R2/skip-audit', 'iteration end at line %d' % e.lineno,
                      'the iteration ends without a push under `%s`%s: whether that is one of the allowed reasons is not decided' % (shown[:120], (' (unresolved: %s)' % ', '.join(sorted(set(open_))[:4])) if open_ else ''),
                      f.loc(e.ast) if e.ast is not None else f.loc())
        continue
    rep.check(reason is not None, 'R2/skip-audit', 'iteration end at line %d is for an allowed reason (%s)' % (e.lineno, reason), f.qualname,
              'skip under ' + ' and '.join(('' if t else 'not ') + norm(ex)[:60] for ex, t, _ in conds),
              'a design (or a whole treatment group) is skipped under the condition `%s`, which is none of the reasons the statement allows (share, volume ratio, budget, over-max superset): feasible high-scoring designs can be omitted'
              % shown, f.loc(e.ast) if e.ast is not None else f.loc())
  rep.floor('skip edges audited', n_skips, 4)      # share, volume ratio, two budget screens: merged conditions lower the count of edges, not of reasons
  return view, (hS, hT, hC), T, C


def optimistic_budget(view, node, v, T):
  """v is `D.estimate_required_impact(rho_max) / iroas` with D the diagnostics of the treatment series of T alone
  (named, or written out as the constructor call)."""
  ctor = r'(?:\w+\.)?TBRMMDiagnostics\(self\.data\.aggregate_time_series\(%s\), self\.parameters\)' % re.escape(T)
  m = re.fullmatch(r'(\w+|%s)\.estimate_required_impact\(%srho_max\) / %siroas' % (ctor, re.escape(P), re.escape(P)), v)
  if not m:
    return False
  D = m.group(1)
  if re.fullmatch(ctor, D):
    return True
  d = view.rd.single_def(node, D)
  return d is not None and d.how == 'assign' and re.fullmatch(ctor, norm(view.expand(d.node, d.value))) is not None


def classify_skip(repo, rep, view, cn, conds, T, C, tests):
  """Name of the allowed reason, or None."""
  g, rd, f = view.g, view.rd, view.f
  _sites = pruning_sites(repo, view)
  seen_ = set()
  for e, taken, ifst in list(conds) + split_literals(conds):
    if (id(e), taken) in seen_:
      continue
    seen_.add((id(e), taken))
    node = ifst if hasattr(ifst, 'kind') else g.node_of(ifst)
    ex = rd.expand(node, e)[0]
    txt = norm(ex)
    # range tests (share, volume, actual budget)
    if node in tests:
      iv, q = tests[node]
      rejecting = (taken != iv.accept_when)
      if rejecting and q in ('treatment_share_range', 'volume_ratio_tolerance', 'budget_range'):
        ok, why = c02.check_spec(q, iv, T, C)
        if ok and q == 'budget_range':
          ok, why = c02.budget_provenance(view, node, norm(iv.v), T, C)
        if ok:
          return {'treatment_share_range': 'share out of range', 'volume_ratio_tolerance': 'volume ratio out of range', 'budget_range': 'actual budget out of range'}[q]
    # superset pruning: the test scans the stored over-max patterns for a subset of the candidate treatment group
    if taken:
      for site in _sites:
        if site['node'] is node and site['arg'] == T and any(x is e or norm(x) == norm(e) for x in [node.expr] + list(ast.walk(node.expr))):
          return 'superset of a stored over-max pattern'
    # optimistic budget screens
    m = None
    for form in sorted(pathcond.rel_forms(ex, taken)):
      m = m or re.fullmatch(r'(.+) (>|<) %sbudget_range\[(0|1)\]' % re.escape(P), form)
    if m:
      v, op, idx = m.group(1), m.group(2), m.group(3)
      if optimistic_budget(view, node, v, T) and ((op == '>' and idx == '1') or (op == '<' and idx == '0')):
          return 'optimistic budget %s' % ('> max' if op == '>' else '< min')
  return None


def _subset_forms(pv, geos):
  return ('set(%s).issubset(%s)' % (pv, geos), '%s.issubset(%s)' % (pv, geos), 'set(%s) <= %s' % (pv, geos), '%s <= %s' % (pv, geos),
          '%s.issuperset(%s)' % (geos, pv), '%s >= set(%s)' % (geos, pv), 'set(%s) <= set(%s)' % (pv, geos), '%s.issuperset(set(%s))' % (geos, pv))


def _pattern_scan(node_or_expr):
  """(pattern variable, list expression, test text) of a scan over stored patterns written as a loop with
  `if <test>: return True` or as any(<test> for p in LIST); None otherwise."""
  for sub in ast.walk(node_or_expr):
    if isinstance(sub, ast.Call) and isinstance(sub.func, ast.Name) and sub.func.id == 'any' and len(sub.args) == 1 \
        and isinstance(sub.args[0], (ast.GeneratorExp, ast.ListComp)) and len(sub.args[0].generators) == 1:
      gen = sub.args[0].generators[0]
      return norm(gen.target), gen.iter, norm(sub.args[0].elt), 'any'
    if isinstance(sub, ast.For):
      for t in [x for x in ast.walk(sub) if isinstance(x, ast.If)]:
        rets = [r for r in ast.walk(t) if isinstance(r, ast.Return)]
        if any(au.is_const(r.value, True) for r in rets):
          return norm(sub.target), sub.iter, norm(t.test), 'loop'
  return None


def pruning_sites(repo, view):
  """Tests of the search that scan a list of stored groups for a subset relation with a candidate:
  [{node, list (name in the search), arg (candidate text), ok (orientation), seen, where}]."""
  f, g, rd = view.f, view.g, view.rd
  from mmsa import inline
  out = []
  for n in g.nodes:
    if n.kind != 'test':
      continue
    for sub in ast.walk(n.expr):
      site = None
      if isinstance(sub, ast.Call) and isinstance(sub.func, ast.Name) and sub.func.id == 'any':
        sc = _pattern_scan(sub)
        if sc and ('issubset' in sc[2] or 'issuperset' in sc[2] or '<=' in sc[2] or '>=' in sc[2]):
          pv, lst, seen, _ = sc
          m = re.fullmatch(r'(?:set\()?%s\)?\.issubset\((.+)\)|(?:set\()?%s\)? <= (.+)|(.+)\.issuperset\((?:set\()?%s\)?\)|(.+) >= (?:set\()?%s\)?' % ((re.escape(pv),) * 4), seen)
          arg = next((x for x in (m.groups() if m else ()) if x), None)
          site = {'list': norm(rd.expand(n, lst)[0]) if not isinstance(lst, ast.Name) else lst.id, 'arg': arg or '', 'seen': seen,
                  'ok': arg is not None and seen in _subset_forms(pv, arg), 'where': f.loc(sub), 'func': f}
      elif isinstance(sub, ast.Call):
        h = inline._resolve_simple_callee(view.orig, sub)
        if h is None and isinstance(sub.func, ast.Name):
          q = '%s.%s' % (f.module.name, sub.func.id)
          h = repo.functions.get(q)
        if h is None:
          continue
        sc = _pattern_scan(h.node)
        if not sc or not any(k in sc[2] for k in ('issubset', 'issuperset', '<=', '>=')):
          continue
        pv, lst, seen, _ = sc
        params = h.params[1:] if h.kind == 'method' else h.params
        bind = dict(zip(params, [norm(a) for a in sub.args]))
        bind.update({k.arg: norm(k.value) for k in sub.keywords if k.arg})
        geos_p = [p_ for p_ in params if re.search(r'\b%s\b' % re.escape(p_), seen)]
        lname = norm(lst)
        list_here = bind.get(lname, lname)           # a parameter of the helper, or a free variable of a closure
        okp = len(geos_p) == 1 and seen in _subset_forms(pv, geos_p[0])
        site = {'list': list_here, 'arg': bind.get(geos_p[0], '') if len(geos_p) == 1 else '', 'seen': seen, 'ok': okp, 'where': h.loc(), 'func': h}
      if site is not None:
        site['node'] = n
        out.append(site)
  return out


def r3_pruning(repo, rep, view, T):
  f, g, rd = view.f, view.g, view.rd
  lists = set()
  for site in pruning_sites(repo, view):
    rep.fn(site['func'])
    lists.add(site['list'])
    rep.check(site['ok'], 'R3/pruning', 'pruning scan tests stored pattern ⊆ candidate group', site['func'].qualname, site['seen'][:100],
              'the pruning scan tests `%s`: it must skip a candidate only when a stored over-budget group is a subset of it (supersets of an over-budget group)' % site['seen'][:80],
              site['where'])
  if not lists:
    rep.ok('R3/pruning', 'no superset pruning present (prunes nothing)', loc=f.loc(), nontrivial=False)
    return
  writers = []
  for n in g.nodes:
    if n.kind == 'stmt':
      for call in au.calls_in(n.ast):
        if isinstance(call.func, ast.Attribute) and call.func.attr in ('append', 'extend', 'add', 'insert') and norm(call.func.value) in lists:
          writers.append((n, call))
      if isinstance(n.ast, (ast.Assign, ast.AugAssign)):
        for t in (n.ast.targets if isinstance(n.ast, ast.Assign) else [n.ast.target]):
          if norm(t) in lists and not (isinstance(n.ast, ast.Assign) and isinstance(n.ast.value, ast.List) and not n.ast.value.elts):
            writers.append((n, n.ast))
  rep.floor('writers of the pruning pattern list', len(writers), 1)
  for n, call in writers:
    loop_stmt = None
    par = getattr(n.ast, '_parent', None)
    while par is not None and not isinstance(par, ast.For):
      par = getattr(par, '_parent', None)
    conds = split_literals(enclosing_conditions(n.ast, par))
    texts = []      # (display text, asserted, all spellings of the asserted relation)
    for e, t, i in conds:
      ex_ = rd.expand(g.node_of(i), e)[0]
      texts.append((norm(ex_), t, pathcond.rel_forms(ex_, t)))
    re_over = r'(\w+)\.estimate_required_impact\(%srho_max\) / %siroas > %sbudget_range\[1\]' % (re.escape(P), re.escape(P), re.escape(P))
    allowed = (r'%sbudget_range is not None' % re.escape(P), r'\w+ != .+')
    def is_over(fm, node_=n):
      m_ = re.fullmatch(r'(.+) > %sbudget_range\[1\]' % re.escape(P), fm)
      return bool(m_) and optimistic_budget(view, node_, m_.group(1), T)
    over = [x for x, t, forms in texts if any(re.fullmatch(re_over, fm) or is_over(fm) for fm in forms)]
    other = [x for x, t, forms in texts if x not in over and not any(re.fullmatch(a_, fm) for a_ in allowed for fm in forms)]
    texts = [(x, t) for x, t, _ in texts]
    arg = norm(call.args[0]) if isinstance(call, ast.Call) and call.args else ''
    if arg != T and isinstance(call, ast.Call) and call.args:
      a0_ = call.args[0]
      if isinstance(a0_, ast.Call) and isinstance(a0_.func, ast.Name) and a0_.func.id in ('frozenset', 'set', 'tuple', 'list', 'sorted') and len(a0_.args) == 1 \
          and not a0_.keywords and norm(a0_.args[0]) == T:
        arg = T               # frozenset(T) / set(T) / tuple(T): the same members, stored in another container
    rep.check(bool(over) and not other and arg == T, 'R3/pruning', 'a treatment group is stored for pruning only when its optimistic budget exceeds the maximum', f.qualname,
              '%s under %s' % (norm(call)[:50], ' and '.join(('' if t else 'not ') + x[:60] for x, t in texts)),
              'a treatment group is added to the pruning list under `%s` — not (only) because its optimistic budget exceeds budget_range[1]: supersets of groups rejected for another reason are pruned although they can be feasible'
              % ' and '.join(('' if t else 'not ') + x[:70] for x, t in texts), f.loc(n.ast))


def _fold_names(e, assigns, depth=4):
  """List of constant strings denoted by a display / comprehension over module-level literal tables, or None."""
  if depth < 0:
    return None
  if isinstance(e, (ast.List, ast.Tuple)):
    out = []
    for x in e.elts:
      if isinstance(x, ast.Constant) and isinstance(x.value, str):
        out.append(x.value)
      elif isinstance(x, ast.Starred):
        sub = _fold_names(x.value, assigns, depth - 1)
        if sub is None:
          return None
        out += sub
      else:
        return None
    return out
  if isinstance(e, ast.Name) and e.id in assigns:
    return _fold_names(assigns[e.id], assigns, depth - 1)
  if isinstance(e, ast.BinOp) and isinstance(e.op, ast.Add):
    l, r = _fold_names(e.left, assigns, depth - 1), _fold_names(e.right, assigns, depth - 1)
    return None if l is None or r is None else l + r
  if isinstance(e, ast.Call) and isinstance(e.func, ast.Name) and e.func.id in ('list', 'tuple') and len(e.args) == 1:
    return _fold_names(e.args[0], assigns, depth - 1)
  if isinstance(e, (ast.ListComp, ast.GeneratorExp)) and len(e.generators) == 1 and not e.generators[0].ifs:
    gen = e.generators[0]
    table = assigns.get(gen.iter.id) if isinstance(gen.iter, ast.Name) else gen.iter
    if not isinstance(table, (ast.List, ast.Tuple)):
      return None
    out = []
    for row in table.elts:
      # bind the target (a name or a tuple of names) to the row and evaluate the element when it is one of the names
      binds = {}
      if isinstance(gen.target, ast.Name):
        binds[gen.target.id] = row
      elif isinstance(gen.target, (ast.Tuple, ast.List)) and isinstance(row, (ast.Tuple, ast.List)) and len(row.elts) == len(gen.target.elts):
        binds = {t.id: v for t, v in zip(gen.target.elts, row.elts) if isinstance(t, ast.Name)}
      v = None
      if isinstance(e.elt, ast.Name):
        v = binds.get(e.elt.id)
      elif isinstance(e.elt, ast.Subscript) and isinstance(e.elt.value, ast.Name) and isinstance(binds.get(e.elt.value.id), (ast.Tuple, ast.List)) \
          and isinstance(e.elt.slice, ast.Constant) and isinstance(e.elt.slice.value, int):
        v = binds[e.elt.value.id].elts[e.elt.slice.value]
      elif isinstance(e.elt, ast.Attribute) and isinstance(e.elt.value, ast.Name):
        v = None
      if not (isinstance(v, ast.Constant) and isinstance(v.value, str)):
        return None
      out.append(v.value)
    return out
  return None


def r5_ordering(repo, rep):
  mod = repo.module('tbrmmscore')
  sc = mod.assigns.get('Scoring')
  fields = None
  if isinstance(sc, ast.Call) and norm(sc.func).endswith('namedtuple') and len(sc.args) >= 2:
    a = sc.args[1]
    if isinstance(a, (ast.List, ast.Tuple)):
      fields = [au.const(x)[1] for x in a.elts]
    elif isinstance(a, ast.Constant) and isinstance(a.value, str):
      fields = a.value.replace(',', ' ').split()
  if fields is None and isinstance(sc, ast.Call) and norm(sc.func).endswith('namedtuple') and len(sc.args) >= 2:
    # field names computed from a table: folded when the table is a module-level literal
    from mmsa import regexes
    a = sc.args[1]
    try:
      folded = _fold_names(a, mod.assigns)
    except Exception:
      folded = None
    fields = folded
  if fields is None:
    rep.undecided('R5/ordering', 'Scoring fields', 'the field list of Scoring is not a literal (%s)' % (norm(sc.args[1])[:60] if isinstance(sc, ast.Call) and len(sc.args) >= 2 else 'Scoring is not a namedtuple call'),
                  '%s:%d' % (mod.relpath, getattr(sc, 'lineno', 0)))
  else:
   rep.check(fields == DOC_SCORE, 'R5/ordering', 'Scoring fields are in the documented lexicographic order', 'tbrmmscore.Scoring', 'Scoring%s' % (fields,),
            'the Scoring tuple is %s but the documented order is %s: designs are ranked by a different lexicographic order' % (fields, DOC_SCORE),
            '%s:%d' % (mod.relpath, getattr(sc, 'lineno', 0)))
  cls = repo.cls('tbrmmscore.TBRMMScore')
  getter = cls.getters.get('score')
  if getter is None:
    raise Undecided('TBRMMScore.score vanished')
  rep.fn(getter)
  calls = [c for c in au.calls_in(getter.node) if norm(c.func) == 'Scoring']
  if len(calls) != 1:
    rep.undecided('R5/ordering', 'TBRMMScore.score', 'expected one Scoring(...) construction', getter.loc())
  else:
    c = calls[0]
    gctx = FuncCtx.of(getter)
    cnode = gctx.node_at(c)
    slots = {}
    opaque_args = any(isinstance(a, ast.Starred) for a in c.args) or any(k.arg is None for k in c.keywords)
    for i, a in enumerate(c.args):
      if isinstance(a, ast.Starred):
        break             # positions after a *-argument are not known
      if fields and i < len(fields):
        slots[fields[i]] = a
    for k in c.keywords:
      if k.arg is not None:
        slots[k.arg] = k.value
    for name in DOC_SCORE:
      if name not in slots:
        if opaque_args:
          rep.undecided('R5/ordering', 'score slot %s' % name, 'the Scoring tuple is built with */** unpacking: %s' % norm(c)[:80], getter.loc(c))
        else:
          rep.violation('R5/ordering', getter.qualname, 'slot %s missing' % name, 'score slot %s is not filled' % name, getter.loc(c))
        continue
      t = norm(gctx.rd.expand(cnode, slots[name])[0])
      t = re.sub(r'round\((.+), ndigits=(\d+)\)', r'round(\1, \2)', t)
      rep.check_term(re.fullmatch(SLOT_EXPR[name], t) is not None, gctx.rd.expand(cnode, slots[name])[0], (), 'R5/ordering', 'score slot %s = %s' % (name, t), getter.qualname, '%s=%s' % (name, t),
                'score slot %s is filled with `%s` instead of the documented quantity' % (name, t), getter.loc(slots[name]))
    rep.floor('score slots', len(slots), 6)
  from mmsa.props import c14
  c14.check_lt(repo, rep)
  # the result heap must keep the k best designs pushed (C14.R1/R2): a queue that drops or mis-ranks items loses feasible designs
  sub = type(rep)(rep.prop, rep.tier, rep.repo)
  c14.check_push(repo, sub)
  for i in sub.instances:
    i.rule = 'R6/heap-' + i.rule.split('/', 1)[1]
    rep.instances.append(i)


def run(repo, rep, tier):
  from mmsa.props import c10
  sub = type(rep)(rep.prop, rep.tier, rep.repo)
  c10.r3_r4_results(repo, sub)
  for i in sub.instances:
    if i.rule == 'R4/fresh-heap' and ('exhaustive_search' in (i.func or '') or 'exhaustive_search' in (i.subject or '') or 'exhaustive_search' in (i.detail or '')):
      i.rule = 'R4/fresh-heap'
      rep.instances.append(i)
  # the series every candidate is scored on are the rows of the array the index setter builds from the current table: a
  # setter that can leave a stale array in place makes the search rank designs by another panel (C04.R4 / C15.R3)
  from mmsa.props import c04
  sub = type(rep)(rep.prop, rep.tier, rep.repo)
  c04.r4_data_object(repo, sub)
  for i in sub.instances:
    if i.rule == 'R4/single-source' and any('_array' in (t_ or '') for t_ in (i.subject, i.construct, i.detail)):
      i.rule = 'R6/scored-on-current-data'
      rep.instances.append(i)
  res = r1_r2_r4(repo, rep)
  if res is not None:
    view, loops, T, C = res
    r3_pruning(repo, rep, view, T)
  r5_ordering(repo, rep)
