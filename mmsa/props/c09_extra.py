"""C09, part 2: Optional-dereference rule (R1f) and the dictionary-key certificate of the greedy loop (R1d)."""
import ast
import re

from mmsa import au, cfg as cfgmod, dataflow, pathcond
from mmsa.core import Undecided, norm, walk_no_nested
from mmsa.types import FuncCtx

DIAG = 'tbrmmdiagnostics.TBRMMDiagnostics'
SCORE = 'tbrmmscore.TBRMMScore'
MM = 'tbrmatchedmarkets.TBRMatchedMarkets'


# ---------------------------------------------------------------------------------------------
# R1f: values that may be None are dereferenced only where None is excluded
# ---------------------------------------------------------------------------------------------
def optional_functions(cls):
  """name -> FuncInfo for getters/methods with both a `return None` path and a value-returning path."""
  out = {}
  for table in (cls.getters, cls.methods):
    for name, f in table.items():
      rets = [s for s in walk_no_nested(f.node) if isinstance(s, ast.Return)]
      none = [r for r in rets if r.value is None or au.is_const(r.value, None)]
      val = [r for r in rets if r.value is not None and not au.is_const(r.value, None)]
      if none and val:
        out[name] = f
  return out


def none_only_when_x_missing(cls, opt):
  """Names of Optional functions all of whose None-returns are guarded by "the control series is None"
  (directly, or through another such function's result being None). Fixed point."""
  good = set()
  changed = True
  while changed:
    changed = False
    for name, f in opt.items():
      if name in good:
        continue
      ctx = FuncCtx.of(f)
      g, rd = ctx.g, ctx.rd
      nones = [n for n in g.nodes if n.kind == 'return' and (n.ast.value is None or au.is_const(n.ast.value, None))]
      ok = True
      for nn in nones:
        paths = pathcond.paths_to(g, lambda m: m is nn, back_limit=0)
        for p in paths:
          pf = pathcond.PathFacts(p, rd)
          if not pf.feasible:
            continue
          def xnone(e, t):
            s = norm(e)
            if t and s in ('self._x is None', 'self.x is None'):
              return True
            m = re.fullmatch(r'self\.(\w+) is None', s)
            if t and m and m.group(1) in good:
              return True
            return False
          if not pf.every_case_has(xnone):
            ok = False
      if ok and nones:
        good.add(name)
        changed = True
  return good


def r1f_optional(repo, rep, closure):
  dcls = repo.cls(DIAG)
  opt = optional_functions(dcls)
  xonly = none_only_when_x_missing(dcls, opt)
  rep.extra['optional_returning'] = sorted(opt)
  rep.extra['none_only_when_control_series_missing'] = sorted(xonly)
  rep.floor('Optional-returning diagnostics members', len(opt), 6)
  n_sites = 0
  # (i) inside TBRMMDiagnostics: self.<opt> dereferenced
  for f in dcls.all_functions():
    ctx = FuncCtx.of(f)
    g, rd = ctx.g, ctx.rd
    sn = f.params[0] if f.params else 'self'
    for node in g.nodes:
      for e in ctx.node_exprs(node):
        for sub in walk_no_nested(e):
          site = deref_of(sub, lambda x: isinstance(x, ast.Attribute) and isinstance(x.value, ast.Name) and x.value.id == sn and x.attr in opt, rd, node)
          if site is None:
            continue
          what, src_expr, name = site
          n_sites += 1
          ok, why = discharged_in_diag(f, ctx, node, sub, src_expr, name, xonly, sn)
          if not ok and repo.pinned_names is not None and f.qualname not in repo.pinned_names:
            # a helper that is not an anchor of the pinned tree (a compute method handed to a memoiser, a phase of a getter):
            # the guard may sit in whoever calls it
            rep.undecided('R1f/optional-deref', '%s: %s of self.%s' % (f.name, what, name), 'the use sits in the helper %s; a guard in its callers is not followed' % f.name, f.loc(sub))
            continue
          if not ok:
            und = undecided_in_diag(f, ctx, node, name, xonly, sn, opt)
            if und:
              rep.undecided('R1f/optional-deref', '%s: %s of self.%s' % (f.name, what, name), und, f.loc(sub))
              continue
          rep.check(ok, 'R1f/optional-deref', '%s: %s of self.%s is reached only when it is not None (%s)' % (f.name, what, name, why), f.qualname,
                    '%s of self.%s: %s' % (what, name, norm(sub)[:80]),
                    '%s %s the result of self.%s, which is None when the control series is missing%s, with no guard excluding that case: TypeError/AttributeError escapes instead of ValueError'
                    % (f.qualname, what, name, '' if name in xonly else ' (or under another condition)'), f.loc(sub))
  # (ii) TBRMMScore: self.diag.<opt> under the class invariant "diag.x is not None"
  scls = repo.cls(SCORE)
  SCORE_REPO[0] = repo
  inv3 = score_invariant3(scls)
  inv = bool(inv3)
  if inv3 is None:
    rep.undecided('R1f/optional-deref', 'TBRMMScore class invariant', '__post_init__ consults the control series and raises, but not in the recognised form `if self.diag.x is None: raise`', scls.loc())
  else:
    rep.check(inv, 'R1f/optional-deref', 'TBRMMScore rejects a diagnostics object without control series (class invariant)', scls.qualname + '.__post_init__',
              'guard `self.diag.x is None -> raise ValueError`',
              'TBRMMScore.__post_init__ no longer rejects diagnostics without a control series: computing the score dereferences None (TypeError) instead of raising ValueError', scls.loc())
  for f in scls.all_functions():
    ctx = FuncCtx.of(f)
    for node in ctx.g.nodes:
      for e in ctx.node_exprs(node):
        for sub in walk_no_nested(e):
          site = deref_of(sub, lambda x: isinstance(x, ast.Attribute) and norm(ctx.rd.expand(node, x.value)[0]) == 'self.diag' and x.attr in opt, ctx.rd, node)
          if site is None:
            continue
          what, src_expr, name = site
          n_sites += 1
          ok = inv and name in xonly and not stores_diag_x(scls)
          if not ok and (inv3 is None or (inv and name not in xonly)):
            rep.undecided('R1f/optional-deref', 'TBRMMScore.%s: %s of diag.%s' % (f.name, what, name),
                          'the class invariant is not established in the recognised form' if inv3 is None else
                          'when diag.%s is None is not established (its None-returning paths are not all of the form "the control series is missing")' % name, f.loc(sub))
            continue
          rep.check(ok, 'R1f/optional-deref', 'TBRMMScore.%s: %s of diag.%s is safe under the class invariant' % (f.name, what, name), f.qualname,
                    '%s of self.diag.%s' % (what, name), 'TBRMMScore.%s %s self.diag.%s, which can be None' % (f.name, what, name), f.loc(sub))
  # (iii) TBRMatchedMarkets: D.<opt> on local diagnostics objects needs a dominating `D.x = <series>`
  mcls = repo.cls(MM)
  for f in [x for x in closure.values() if x.cls is mcls]:
    ctx = FuncCtx.of(f)
    g, rd = ctx.g, ctx.rd
    doms = g.dominators(cfgmod.no_exc)
    for node in g.nodes:
      for e in ctx.node_exprs(node):
        for sub in walk_no_nested(e):
          site = deref_of(sub, lambda x: isinstance(x, ast.Attribute) and isinstance(x.value, ast.Name) and x.attr in opt and is_diag_local(f, ctx, node, x.value.id), rd, node)
          if site is None:
            continue
          what, src_expr, name = site
          D = src_expr.value.id
          n_sites += 1
          xs = [n for n in doms.get(node, ()) if n.kind == 'stmt' and isinstance(n.ast, ast.Assign) and any(norm(t) == '%s.x' % D for t in n.ast.targets)]
          okx = bool(xs) and all(not au.is_const(n.ast.value, None) for n in xs) and name in xonly
          if not okx:
            why_und = ''
            if bool(xs) and name not in xonly:
              why_und = 'when %s.%s is None is not established' % (D, name)
            elif not xs:
              stores_any = [n for n in g.nodes if n.kind == 'stmt' and isinstance(n.ast, ast.Assign) and any(norm(t) == '%s.x' % D for t in n.ast.targets)]
              escapes = [y for n in g.nodes for e_ in ctx.node_exprs(n) for y in ast.walk(e_)
                         if isinstance(y, ast.Call) and any(isinstance(a_, ast.Name) and a_.id == D for a_ in list(y.args) + [k.value for k in y.keywords])
                         and norm(y.func).split('.')[-1] not in ('deepcopy', 'copy', 'TBRMMScore', 'TBRMMDesign')]
              if stores_any:
                why_und = 'a store to %s.x exists but does not dominate this use on every path' % D if False else ''
              if escapes:
                why_und = '%s is handed to %s, which may set its control series' % (D, norm(escapes[0].func)[:40])
            if why_und:
              rep.undecided('R1f/optional-deref', '%s: %s of %s.%s' % (f.name, what, D, name), why_und, f.loc(sub))
              continue
          rep.check(okx, 'R1f/optional-deref', '%s: %s of %s.%s after %s.x was set' % (f.name, what, D, name, D), f.qualname, '%s of %s.%s' % (what, D, name),
                    '%s %s %s.%s, but no assignment of a control series to %s.x dominates this use: the value can be None' % (f.name, what, D, name, D), f.loc(sub))
  rep.floor('Optional dereference sites examined', n_sites, 8)
  # (iv) the score getter dereferences A/A results that are None for windows shorter than n_test + 3: it may be evaluated only on
  #      score objects of data-derived diagnostics (covered by the property's precondition) unless a score was stored first
  r1f_score_precondition(repo, rep, closure)
  r1f_aa_window(repo, rep)


def r1f_aa_window(repo, rep):
  """The A/A result is unavailable (all-None) exactly for windows with fewer than n_test + _min_timepoints points: the
  guard of that return, as an integer linear form, is len(y) - n_test - _min_timepoints < 0.  A recognised linear guard
  with another threshold makes the score of a design on the smallest admitted window dereference None."""
  from mmsa import linform
  dcls = repo.cls(DIAG)
  f = dcls.getters.get('aatest')
  if f is None:
    rep.undecided('R1f/aa-window', 'TBRMMDiagnostics.aatest', 'the aatest property vanished', dcls.loc())
    return
  ctx = FuncCtx.of(f)
  g, rd = ctx.g, ctx.rd
  mt = dcls.attrs.get('_min_timepoints')
  consts = {}
  if isinstance(mt, ast.Constant) and isinstance(mt.value, int) and '_min_timepoints' not in _stored(dcls):
    consts = {'self._min_timepoints': mt.value, 'TBRMMDiagnostics._min_timepoints': mt.value}
  def all_none(v):
    return isinstance(v, ast.Call) and v.args and all(au.is_const(a, None) for a in v.args) and not v.keywords
  rets = [n for n in g.nodes if n.kind == 'return' and n.ast.value is not None and all_none(rd.expand(n, n.ast.value)[0])]
  if not rets or not consts:
    rep.undecided('R1f/aa-window', 'TBRMMDiagnostics.aatest', 'no all-None result is returned by aatest in the recognised form (or _min_timepoints is not a class constant)', f.loc())
    return
  want_atoms = {'len(self._y)': 1, 'self._par.n_test': -1}
  want_const = 1 - consts['self._min_timepoints']
  n = 0
  for r in rets:
    for path in pathcond.paths_to(g, lambda m: m is r, back_limit=0, max_paths=200):
      pf = pathcond.PathFacts(path, rd)
      if not pf.feasible:
        continue
      for conj in pf.dnf:
        found = None
        for e, t in conj:
          txt = norm(e)
          if 'len(' not in txt:
            continue
          e2 = ast.parse(re.sub(r'len\((self\.)?_?y\)', 'len(self._y)', txt), mode='eval').body
          cf = linform.canonical(e2, t, consts)
          if cf is None or len(cf) != 1:
            found = ('unknown', txt)
            continue
          co, c = cf[0]
          if co == want_atoms:
            found = ('ok', txt) if c == want_const else ('shift', txt, c - want_const)
            break
          found = ('unknown', txt)
        n += 1
        if found is None:
          rep.undecided('R1f/aa-window', 'aatest: all-None result', 'returned on a path without a test of the window length', f.loc(r.ast))
        elif found[0] == 'ok':
          rep.ok('R1f/aa-window', 'aatest is unavailable exactly when len(y) - n_test < _min_timepoints (`%s`)' % found[1][:60], loc=f.loc(r.ast))
        elif found[0] == 'shift':
          rep.violation('R1f/aa-window', f.qualname, 'all-None result under %s' % found[1][:80],
                        'aatest returns its all-None result when `%s`, i.e. for windows up to n_test + %d points instead of fewer than n_test + %d: on the smallest admitted window '
                        'the score dereferences None (TypeError escapes the search)' % (found[1][:80], consts['self._min_timepoints'] - 1 + found[2], consts['self._min_timepoints']),
                        f.loc(r.ast))
        else:
          rep.undecided('R1f/aa-window', 'aatest: all-None result', 'the window test `%s` is not an integer-linear comparison of len(y), n_test and the class constant' % found[1][:60], f.loc(r.ast))
  rep.extra['aa_window_guards'] = n


def _stored(cls):
  out = set()
  for m in cls.all_functions():
    for t in ast.walk(m.node):
      if isinstance(t, ast.Attribute) and isinstance(t.ctx, ast.Store):
        out.add(t.attr)
  return out


def deref_of(sub, is_src, rd, node):
  """If `sub` dereferences an Optional source expression, return (what, source expr, member name)."""
  def src(x):
    if is_src(x):
      return x
    if isinstance(x, ast.Name):
      d = rd.single_def(node, x.id)
      if d is not None and d.how == 'assign' and d.value is not None and is_src(d.value):
        return d.value
    return None
  if isinstance(sub, ast.Attribute) and isinstance(sub.ctx, ast.Load):
    s = src(sub.value)
    if s is not None:
      return ('attribute access .%s' % sub.attr, s, s.attr)
  if isinstance(sub, ast.Assign) and isinstance(sub.targets[0], (ast.Tuple, ast.List)):
    s = src(sub.value)
    if s is not None:
      return ('unpacking', s, s.attr)
  if isinstance(sub, ast.Call) and isinstance(sub.func, ast.Name) and sub.func.id in ('int', 'float', 'round', 'abs') and sub.args:
    s = src(sub.args[0])
    if s is not None:
      return ('%s()' % sub.func.id, s, s.attr)
  if isinstance(sub, ast.BinOp):
    for side in (sub.left, sub.right):
      s = src(side)
      if s is not None and isinstance(side, ast.Attribute):
        return ('arithmetic', s, s.attr)
  if isinstance(sub, ast.Call):
    for a in sub.args:
      if isinstance(a, ast.Attribute) and is_src(a) and norm(sub.func) in ('self.estimate_required_impact',):
        return ('numeric use', a, a.attr)
  return None


def discharged_in_diag(f, ctx, node, sub, src_expr, name, xonly, sn):
  g, rd = ctx.g, ctx.rd
  # D1: every path to the use has excluded "x is None" or "this value is None"
  paths = pathcond.paths_to(g, lambda m: m is node, back_limit=0, max_paths=300)
  def excluded(e, t):
    s = norm(e)
    if (not t) and s in ('%s._x is None' % sn, '%s.x is None' % sn, '%s.%s is None' % (sn, name)):
      return True
    m = re.fullmatch(r'%s\.(\w+) is None' % sn, s)
    if (not t) and m and m.group(1) in xonly and name in xonly:
      return True     # another member that is None exactly when x is missing was tested
    m = re.fullmatch(r'%s\.(\w+)' % sn, s)
    if t and m and m.group(1) in xonly and name in xonly:
      return True     # ... or found truthy (None is falsy)
    return False
  allok = bool(paths)
  for p in paths:
    pf = pathcond.PathFacts(p, rd)
    if pf.feasible and not pf.every_case_has(excluded):
      allok = False
  if allok:
    return True, 'dominating None guard'
  # D2: short-circuit `A and <deref>` where A is a member that is None exactly when x is missing
  par = getattr(sub, '_parent', None)
  cur = sub
  while par is not None and not isinstance(par, ast.stmt):
    if isinstance(par, ast.BoolOp) and isinstance(par.op, ast.And):
      idx = [i for i, v in enumerate(par.values) if any(x is cur for x in ast.walk(v))]
      if idx and idx[0] > 0:
        first = par.values[0]
        if isinstance(first, ast.Attribute) and isinstance(first.value, ast.Name) and first.value.id == sn and first.attr in xonly and name in xonly:
          return True, 'short-circuit after self.%s' % first.attr
    cur, par = par, getattr(par, '_parent', None)
  return False, ''


def undecided_in_diag(f, ctx, node, name, xonly, sn, opt):
  """Why a dereference that is not discharged is nevertheless no positive finding: the conditions under which the
  member is None are not established, or a path to the use carries a None-related test in a form that is not followed.
  Returns '' when the use is reachable on a path that visibly tests none of the Optional members (a witness)."""
  if name not in xonly:
    return 'when self.%s is None is not established (its None-returning paths are not all of the form "the control series is missing")' % name
  g, rd = ctx.g, ctx.rd
  try:
    paths = pathcond.paths_to(g, lambda m: m is node, back_limit=0, max_paths=300)
  except Undecided as ex:
    return str(ex)
  members = set(opt) | {'x', '_x'}
  for p in paths:
    pf = pathcond.PathFacts(p, rd)
    if not pf.feasible:
      continue
    for conj in pf.dnf:
      related = [(e, t) for e, t in conj if any(isinstance(y, ast.Attribute) and y.attr in members for y in ast.walk(e))]
      recognised = all(re.fullmatch(r'%s\.\w+( is None)?' % re.escape(sn), norm(e)) for e, t in related)
      if not recognised:
        return 'a path to the use tests `%s`, a form that is not followed' % norm([e for e, t in related if not re.fullmatch(r'%s\.\w+( is None)?' % re.escape(sn), norm(e))][0])[:60]
  # expression-level guards (conditional expressions, and/or chains) around the use are not path conditions
  for e in ctx.node_exprs(node):
    for y in ast.walk(e):
      if isinstance(y, (ast.IfExp, ast.BoolOp)) and any(isinstance(z, ast.Attribute) and z.attr in members for z in ast.walk(y.test if isinstance(y, ast.IfExp) else y.values[0])):
        return 'the use sits in a conditional expression that tests an Optional member'
  return ''


SCORE_REPO = [None]


def score_invariant3(scls):
  """True: recognised guard; False: __post_init__ visibly has no rejection related to the control series; None: unknown."""
  if score_invariant(scls):
    return True
  f = scls.methods.get('__post_init__')
  if f is None:
    return None if au.class_delegations(SCORE_REPO[0], scls) else False
  if au.delegations(SCORE_REPO[0], f):
    return None         # hands the object to code that is not followed: the rejection may live there
  mentions = any(isinstance(y, ast.Attribute) and y.attr in ('x', '_x') for y in ast.walk(f.node))
  raises = any(isinstance(y, ast.Raise) for y in ast.walk(f.node))
  calls_out = any(isinstance(y, ast.Call) and isinstance(y.func, ast.Attribute) and isinstance(y.func.value, ast.Name) and y.func.value.id != 'self' and False for y in ast.walk(f.node))
  if mentions and raises:
    return None
  return False


def score_invariant(scls):
  f = scls.methods.get('__post_init__')
  if f is None:
    return False
  ctx = FuncCtx.of(f)
  g = ctx.g
  for n in g.nodes:
    if n.kind == 'test' and norm(ctx.rd.expand(n, n.expr)[0]) in ('self.diag.x is None', 'self.diag._x is None'):
      tb = [m for m, lab in g.succ[n] if lab == 'true']
      if tb and g.exit not in g.reachable(tb[0], cfgmod.no_exc) and n in g.dominators(cfgmod.no_exc).get(g.exit, ()):
        return True
  return False


def stores_diag_x(scls):
  for f in scls.all_functions():
    for s in walk_no_nested(f.node):
      if isinstance(s, ast.Assign) and any(norm(t) in ('self.diag.x', 'self.diag._x', 'self.diag') and f.name != '__init__' for t in s.targets):
        return True
  return False


def is_diag_local(f, ctx, node, name):
  ds = ctx.rd.defs_at(node, name)
  return bool(ds) and all(d.how == 'assign' and isinstance(d.value, ast.Call) and norm(d.value.func).split('.')[-1] == 'TBRMMDiagnostics' for d in ds)


def r1f_score_precondition(repo, rep, closure):
  mcls = repo.cls(MM)
  n = 0
  for f in [x for x in closure.values() if x.cls is mcls]:
    ctx = FuncCtx.of(f)
    g, rd = ctx.g, ctx.rd
    doms = g.dominators(cfgmod.no_exc)
    for node in g.nodes:
      for e in ctx.node_exprs(node):
        for sub in walk_no_nested(e):
          if not (isinstance(sub, ast.Attribute) and sub.attr == 'score' and isinstance(sub.ctx, ast.Load) and isinstance(sub.value, ast.Name)):
            continue
          S = sub.value.id
          ds = rd.defs_at(node, S)
          if not ds or not all(d.how == 'assign' and isinstance(d.value, ast.Call) and norm(d.value.func).split('.')[-1] == 'TBRMMScore' for d in ds):
            continue
          n += 1
          derived = True
          unknown_origin = False
          for d in ds:
            a = d.value.args[0] if d.value.args else None
            if isinstance(a, ast.Call) and norm(a.func) in ('copy.deepcopy', 'deepcopy') and a.args:
              a = a.args[0]
            # the diagnostics object, looked through aliases / tuple unpacking, down to its constructor call
            ctor = rd.expand(d.node, a, aliases=True)[0] if a is not None else None
            yt = ''
            if isinstance(ctor, ast.Call) and norm(ctor.func).split('.')[-1] == 'TBRMMDiagnostics' and ctor.args:
              yt = norm(ctor.args[0])
            elif isinstance(ctor, ast.Name):
              ok_all = True
              for dd in rd.defs_at(d.node, ctor.id):
                val = rd.expand(dd.node, dd.value, aliases=True)[0] if dd.how == 'assign' and dd.value is not None else None
                if not (isinstance(val, ast.Call) and norm(val.func).split('.')[-1] == 'TBRMMDiagnostics' and val.args
                        and norm(val.args[0]).startswith('self.data.aggregate_time_series(')):
                  ok_all = False
              yt = 'self.data.aggregate_time_series(' if ok_all and rd.defs_at(d.node, ctor.id) else ''
            if not yt.startswith('self.data.aggregate_time_series('):
              derived = False
              if not (isinstance(ctor, ast.Call) and norm(ctor.func).split('.')[-1] == 'TBRMMDiagnostics'):
                unknown_origin = True       # e.g. handed over by a generator / parameter: origin not visible here
          stored_first = any(m.kind == 'stmt' and isinstance(m.ast, ast.Assign) and any(norm(t) == '%s.score' % S for t in m.ast.targets) and m is not node
                             for m in doms.get(node, ()))
          if not (derived or stored_first) and unknown_origin:
            rep.undecided('R1f/optional-deref', '%s: read of %s.score' % (f.name, S), 'the diagnostics object behind the score is not constructed in this function: its origin is not visible', f.loc(sub))
            continue
          rep.check(derived or stored_first, 'R1f/optional-deref', '%s: %s.score is evaluated only for data-derived diagnostics (or after a score was stored)' % (f.name, S),
                    f.qualname, 'read of %s.score' % S,
                    '%s evaluates %s.score for a diagnostics object that is not built from the data window (the precondition "window >= n_test + 3" does not cover it): '
                    'for large n_test its A/A result is None and int(None) raises TypeError' % (f.name, S), f.loc(sub))
  rep.extra['score_reads_examined'] = n


# ---------------------------------------------------------------------------------------------
# R1d: dictionary keys of the greedy loop (certificate of the invariant keys(T) ⊆ keys(C) ∪ {k if matching pending})
# ---------------------------------------------------------------------------------------------
def r1d_greedy_keys(repo, rep):
  mcls = repo.cls(MM)
  f = mcls.methods.get('greedy_search')
  if f is None:
    raise Undecided('greedy_search vanished')
  ctx = FuncCtx.of(f)
  g, rd = ctx.g, ctx.rd
  whiles = [s for s in walk_no_nested(f.node) if isinstance(s, ast.While)]
  if len(whiles) != 1:
    rep.undecided('R1d/dict-keys', 'greedy_search', 'expected one while loop', f.loc())
    return
  w = whiles[0]
  head = g.node_of(w)
  inside = lambda n: n.ast is not None and any(x is n.ast for x in ast.walk(w))
  # local dictionaries subscripted in the function
  dicts = set()
  for s in walk_no_nested(f.node):
    if isinstance(s, ast.Assign) and isinstance(s.value, ast.Dict) and isinstance(s.targets[0], ast.Name):
      dicts.add(s.targets[0].id)
  loads = []
  for node in g.nodes:
    for e in ctx.node_exprs(node):
      for sub in walk_no_nested(e):
        if isinstance(sub, ast.Subscript) and isinstance(sub.ctx, ast.Load) and isinstance(sub.value, ast.Name) and sub.value.id in dicts:
          loads.append((node, sub))
  in_loop_loads = [1 for node, sub in loads if inside(node)]
  if not dicts or not in_loop_loads:
    # the tables of the certificate (local dict displays subscripted inside the loop) are not there: the per-size state
    # is kept in another structure, for which the key certificate does not apply
    rep.undecided('R1d/dict-keys', 'greedy_search', 'no local dictionary is subscripted inside the loop (%d local dict displays, %d subscript loads): the per-size tables are not in the recognised form'
                  % (len(dicts), len(loads)), f.loc(w))
    return
  rep.floor('dictionary subscript loads in greedy_search', len(loads), 4)
  # identify roles: the flag and the counter from the loop guard
  t = w.test
  parts = [t.left, t.right] if isinstance(t, ast.BinOp) and isinstance(t.op, ast.BitOr) else (list(t.values) if isinstance(t, ast.BoolOp) and isinstance(t.op, ast.Or) else [])
  flag = [norm(p) for p in parts if isinstance(p, ast.Name)]
  cnt = [p.left.id for p in parts if isinstance(p, ast.Compare) and isinstance(p.left, ast.Name)]
  if len(flag) != 1:
    # recognised bad shape: the guard is the size test alone (the pending-matching flag was dropped from it)
    alone = isinstance(t, ast.Compare) and len(t.ops) == 1 and isinstance(t.left, ast.Name) and isinstance(t.ops[0], (ast.Lt, ast.LtE))
    if alone:
      rep.violation('R1d/dict-keys', f.qualname, 'while %s' % norm(t),
                    'the loop guard `%s` does not keep the loop running while a matching step is pending: the loop can exit before the control group of the last treatment size is stored, '
                    'and the final loop reads a missing dictionary key (KeyError)' % norm(t), f.loc(w))
    else:
      rep.undecided('R1d/dict-keys', 'greedy loop guard `%s`' % norm(t)[:60], 'not of the form (size test) or (pending flag): the key certificate is not established for this loop shape', f.loc(w))
    return
  rep.ok('R1d/dict-keys', 'the loop can only exit when no matching is pending (the flag is a disjunct of the guard)', loc=f.loc(w))
  if len(flag) != 1 or len(cnt) != 1:
    return
  flag, k = flag[0], cnt[0]
  # which dict is written together with `flag = False` (C) and which with `k = k + 1` (T)
  def block_of(n):
    """straight-line block: nodes reachable backwards/forwards without passing a test/for node"""
    blk = {n}
    work = [n]
    while work:
      x = work.pop()
      for m, lab in list(g.succ[x]) + list(g.pred[x]):
        if lab == 'exc' or m in blk or m.kind in ('test', 'for', 'entry', 'exit', 'raise'):
          continue
        if x.kind in ('test', 'for'):
          continue
        blk.add(m)
        work.append(m)
    return blk
  clears = [n for n in g.nodes if inside(n) and n.kind == 'stmt' and isinstance(n.ast, ast.Assign) and norm(n.ast.targets[0]) == flag and au.is_const(n.ast.value, False)]
  incs = [n for n in g.nodes if inside(n) and n.kind == 'stmt' and (
      (isinstance(n.ast, ast.Assign) and norm(n.ast.targets[0]) == k) or (isinstance(n.ast, ast.AugAssign) and norm(n.ast.target) == k))]

  def by_one(st):
    if isinstance(st, ast.AugAssign):
      return isinstance(st.op, ast.Add) and au.is_const(st.value, 1)
    return norm(st.value) in ('%s + 1' % k, '1 + %s' % k)
  def stores_in(blk, key):
    out = set()
    for m in blk:
      if m.kind == 'stmt' and isinstance(m.ast, ast.Assign):
        flat = []
        for tg in m.ast.targets:
          flat += list(tg.elts) if isinstance(tg, (ast.Tuple, ast.List)) else [tg]
        for tg in flat:
          if isinstance(tg, ast.Subscript) and isinstance(tg.value, ast.Name) and tg.value.id in dicts and norm(tg.slice) == key:
            out.add(tg.value.id)
    return out
  C = set.intersection(*[stores_in(block_of(n), k) for n in clears]) if clears else set()
  def next_key_stores(inc):
    """Tables receiving the entry of the next size in the block of the increment: `D[k + 1] = ..` before it or
    `D[k] = ..` after it."""
    blk = block_of(inc)
    before = {m for m in blk if m.id < inc.id}
    after = {m for m in blk if m.id > inc.id}
    return stores_in(before, '%s + 1' % k) | stores_in(before, '1 + %s' % k) | stores_in(after, k)
  T = set.intersection(*[next_key_stores(n) for n in incs]) if incs else set()
  rep.check(bool(clears) and bool(C), 'R1d/dict-keys', 'the flag is cleared only together with a store under the current key (%s)' % sorted(C), f.qualname,
            '%s = False' % flag, 'the matching flag is cleared without storing the matched control group under the current key: a later read of that key fails (KeyError)',
            f.loc(clears[0].ast) if clears else f.loc(w))
  okinc = bool(incs) and all(by_one(n.ast) for n in incs) and bool(T)
  rep.check(okinc, 'R1d/dict-keys', 'the counter advances only together with a store under key %s + 1 (%s)' % (k, sorted(T)), f.qualname, '%s = %s + 1' % (k, k),
            'the size counter advances without the treatment group of the next size having been stored: reading it raises KeyError', f.loc(incs[0].ast) if incs else f.loc(w))
  rearm = all(any(m.kind == 'stmt' and isinstance(m.ast, ast.Assign) and norm(m.ast.targets[0]) == flag and au.is_const(m.ast.value, True) for m in block_of(n)) for n in incs)
  rep.check(rearm, 'R1d/dict-keys', 'advancing the counter re-arms the matching flag', f.qualname, '%s = %s + 1; %s = True' % (k, k, flag),
            'the counter advances without re-arming the matching step: the control group of the new size is never stored', f.loc(incs[0].ast) if incs else f.loc(w))
  # reads: T[k] anywhere in the loop; C[k] only where the flag is known False
  n_reads = 0
  for node, sub in loads:
    D, key = sub.value.id, norm(sub.slice)
    n_reads += 1
    if not inside(node):
      continue
    if D in T and key == k:
      rep.ok('R1d/dict-keys', 'read %s[%s]: key stored before the counter reached it' % (D, key), loc=f.loc(sub))
    elif D in C and key == k:
      # the read must sit where the flag is False: in the else-part of `if flag`
      okpos = False
      cur = au.enclosing_stmt(sub) if hasattr(sub, '_parent') else None
      par = getattr(cur, '_parent', None)
      while par is not None and par is not w:
        if isinstance(par, ast.If) and norm(par.test) == flag and any(cur is s for s in par.orelse):
          okpos = True
        if isinstance(par, ast.If) and norm(par.test) == 'not %s' % flag and any(cur is s for s in par.body):
          okpos = True
        cur, par = par, getattr(par, '_parent', None)
      rep.check(okpos, 'R1d/dict-keys', 'read %s[%s] happens only when no matching is pending' % (D, key), f.qualname, 'read %s[%s]' % (D, key),
                '%s[%s] is read on a path where the matching for size %s may still be pending: the key is missing (KeyError)' % (D, key, k), f.loc(sub))
    elif D in dicts and D not in T and D not in C:
      continue
    else:
      rep.undecided('R1d/dict-keys', 'read %s[%s]' % (D, key), 'key expression not covered by the certificate', f.loc(sub))
  # initialisation and other writers
  others = []
  for n in g.nodes:
    if inside(n) and n.kind == 'stmt':
      for call in au.calls_in(n.ast):
        if isinstance(call.func, ast.Attribute) and isinstance(call.func.value, ast.Name) and call.func.value.id in (T | C) and call.func.attr in ('pop', 'clear', 'popitem', 'update', 'setdefault'):
          others.append(call)
      if isinstance(n.ast, ast.Delete) and any(isinstance(t_, ast.Subscript) and isinstance(t_.value, ast.Name) and t_.value.id in (T | C)
                                               or isinstance(t_, ast.Name) and t_.id in (T | C) for t_ in n.ast.targets):
        others.append(n.ast)        # del table[key] / del table  (a `del` of a plain temporary is not a key removal)
  rep.check(not others, 'R1d/dict-keys', 'no key is removed inside the loop', f.qualname, '; '.join(norm(o)[:40] for o in others),
            'keys are removed from the per-size tables inside the loop (%s)' % '; '.join(norm(o)[:40] for o in others), f.loc(others[0]) if others else f.loc(w))
  # after the loop: reads in `for key in T` of C[key]; pops must use a default and remove from T no later than from C
  for node, sub in loads:
    D, key = sub.value.id, norm(sub.slice)
    if inside(node) or D not in (T | C):
      continue
    loop = None
    cur = au.enclosing_stmt(sub) if hasattr(sub, '_parent') else None
    par = getattr(cur, '_parent', None)
    while par is not None:
      if isinstance(par, ast.For) and norm(par.target) == key:
        loop = par
      if isinstance(par, ast.For) and isinstance(par.target, (ast.Tuple, ast.List)) and par.target.elts and norm(par.target.elts[0]) == key \
          and isinstance(par.iter, ast.Call) and isinstance(par.iter.func, ast.Attribute) and par.iter.func.attr == 'items':
        loop = par          # for key, value in T.items(): the keys of T
      par = getattr(par, '_parent', None)
    if loop is not None:
      it = norm(loop.iter)
      if it.endswith('.items()'):
        it = it[:-len('.items()')]
      good = it in T or it in ['%s.keys()' % x for x in T] or it in ['list(%s)' % x for x in T] or it in ['sorted(%s)' % x for x in T]
      rep.check(good, 'R1d/dict-keys', 'final read %s[%s] iterates the keys of the treatment table (a subset of the control table at loop exit)' % (D, key), f.qualname,
                'for %s in %s: %s[%s]' % (key, it, D, key), 'the final loop iterates `%s` and reads %s[%s]: that key need not exist' % (it, D, key), f.loc(sub))
    else:
      # reads such as T[kappa_0] / C[kappa_0] after the loop: the initial key
      init_key = None
      for n in g.nodes:
        if n.kind == 'stmt' and isinstance(n.ast, ast.Assign) and norm(n.ast.targets[0]) == k and not inside(n):
          init_key = norm(n.ast.value)
      key_closed = re.fullmatch(r'-?\d+', key) is not None or (init_key is not None and re.fullmatch(r'%s [+-] \d+' % re.escape(init_key), key) is not None)
      rep.check3(True if key == init_key else (False if key_closed else None), 'R1d/dict-keys', 'read %s[%s] after the loop uses the initial key' % (D, key), f.qualname, 'read %s[%s]' % (D, key),
                 '%s[%s] is read after the loop but %s is not the initial size key' % (D, key, key), f.loc(sub), nontrivial=False,
                 why_open='the key `%s` of the read after the loop is neither the initial size nor a loop variable over the keys of the treatment table' % key)
  pops = []
  for n in g.nodes:
    if not inside(n) and n.kind == 'stmt':
      for call in au.calls_in(n.ast):
        if isinstance(call.func, ast.Attribute) and isinstance(call.func.value, ast.Name) and call.func.value.id in dicts and call.func.attr == 'pop':
          pops.append((n, call))
  for n, call in pops:
    rep.check(len(call.args) == 2, 'R1d/dict-keys', 'pop with a default cannot raise KeyError: %s' % norm(call)[:40], f.qualname, norm(call)[:60],
              '`%s` raises KeyError when the key is absent' % norm(call)[:60], f.loc(call))
  for n, call in pops:
    if call.func.value.id in C:
      keyt = norm(call.args[0]) if call.args else ''
      mate = [m for m, c2 in pops if c2.func.value.id in T and c2.args and norm(c2.args[0]) == keyt and (m is n or m in block_of(n))]
      rep.check(bool(mate), 'R1d/dict-keys', 'a key removed from the control table is removed from the treatment table in the same block', f.qualname, norm(call)[:60],
                'key %s is removed from the control table but not from the treatment table: the final loop then reads a missing control key (KeyError)' % keyt, f.loc(call))


# ---------------------------------------------------------------------------------------------
# R1g: integer-documented parameters used as range()/slice bounds are ints (normalised by the validator)
# ---------------------------------------------------------------------------------------------
INT_FIELDS = {'n_test', 'n_geos_max', 'n_pretest_max', 'n_designs', 'treatment_geos_range', 'control_geos_range'}


_recognised_but_unguarded = {}


def params_normalised(repo):
  """The validators store accepted integer-valued values as int: setattr(self, attr, int(...)) under isinstance(bound/lower, int)."""
  cls = repo.cls('tbrmmdesignparameters.TBRMMDesignParameters')
  ok = {}
  _recognised_but_unguarded.clear()
  for hname, guard in (('_test_value_vs_threshold', 'bound'), ('_test_range', 'lower')):
    f = cls.methods.get(hname)
    ok[hname] = False
    if f is None:
      continue
    ctx = FuncCtx.of(f)
    g, rd = ctx.g, ctx.rd
    for n in g.nodes:
      if n.kind != 'stmt':
        continue
      for call in au.calls_in(n.ast):
        if isinstance(call.func, ast.Name) and call.func.id == 'setattr' and len(call.args) == 3 and norm(call.args[0]) == f.params[0]:
          v = rd.expand(n, call.args[2], keep=tuple(f.params))[0]        # through locals: integer_type = int; v = integer_type(value); setattr(.., v)
          ints = [c for c in ast.walk(v) if isinstance(c, ast.Call) and isinstance(c.func, ast.Name) and c.func.id == 'int']
          if not ints:
            continue
          # reached only when the bound is an int, and reached on every accepting path with an int bound
          paths = pathcond.paths_to(g, lambda m: m is n, back_limit=0)
          guarded = bool(paths)
          for p in paths:
            pf = pathcond.PathFacts(p, rd, keep=tuple(f.params))
            if pf.feasible and not pf.every_case_has(lambda e, t: t and norm(e) == 'isinstance(%s, int)' % guard):
              guarded = False
          facts_ok = cfgmod.edge_filter_under(g, {}, extra=cfgmod.no_exc)
          bypass = False
          for p in pathcond.paths_to(g, lambda m: m is g.exit, back_limit=0):
            pf = pathcond.PathFacts(p, rd, keep=tuple(f.params))
            if not pf.feasible:
              continue
            on_path = any(x is n for x, _ in p)
            int_bound = pf.every_case_has(lambda e, t: t and norm(e) == 'isinstance(%s, int)' % guard)
            none_path = pf.every_case_has(lambda e, t: '_is_optional(' in norm(e) and t)
            if int_bound and not on_path and not none_path:
              bypass = True
          ok[hname] = guarded and not bypass
          _recognised_but_unguarded[hname] = not ok[hname]
  # not in the recognised form: the conversion may live elsewhere in the module of the parameter class (another method, a
  # strategy table, a module-level helper) -- that is not decided; only its absence everywhere is a recognised defect
  # (conversions inside the two recognised validators themselves do not count: each of them serves its own kind of parameter)
  inside_ = set()
  for hname_ in ('_test_value_vs_threshold', '_test_range'):
    if hname_ in cls.methods:
      inside_ |= {id(x_) for x_ in ast.walk(getattr(cls.methods[hname_], 'orig_node', None) or cls.methods[hname_].node)}
      inside_ |= {id(x_) for x_ in ast.walk(cls.methods[hname_].node)}
  converts_somewhere = any(isinstance(c, ast.Call) and id(c) not in inside_ and not isinstance(getattr(c, '_parent', None), ast.Compare)     # int(v) != v only tests integrality
                           and ((isinstance(c.func, ast.Name) and c.func.id == 'int')
                                                          or (isinstance(c.func, ast.Name) and c.func.id == 'map' and c.args and norm(c.args[0]) == 'int')
                                                          or (isinstance(c.func, ast.Attribute) and c.func.attr == 'astype'))
                           for c in ast.walk(cls.module.tree))
  for hname in list(ok):
    if not ok[hname] and converts_somewhere and not _recognised_but_unguarded.get(hname):
      ok[hname] = None
  return ok


def r1g_integer_parameters(repo, rep, closure):
  from mmsa.types import Types
  ok = params_normalised(repo)
  allok = all(ok.values())
  n = 0
  T = Types(repo)
  for q, f in sorted(closure.items()):
    ctx = FuncCtx.of(f)
    for node in ctx.g.nodes:
      for e in ctx.node_exprs(node):
        for sub in walk_no_nested(e):
          bounds = []
          if isinstance(sub, ast.Call) and isinstance(sub.func, ast.Name) and sub.func.id == 'range':
            bounds = [(a, 'range() argument') for a in sub.args]
          elif isinstance(sub, ast.Subscript) and isinstance(sub.slice, ast.Slice):
            bounds = [(b, 'slice bound') for b in (sub.slice.lower, sub.slice.upper) if b is not None]
          elif isinstance(sub, ast.Subscript) and isinstance(sub.slice, ast.Tuple):
            for el in sub.slice.elts:
              if isinstance(el, ast.Slice):
                bounds += [(b, 'slice bound') for b in (el.lower, el.upper) if b is not None]
          for b, what in bounds:
            txt = norm(ctx.rd.expand(node, b, depth=10)[0])
            flds = sorted({m for m in INT_FIELDS if re.search(r'(parameters|_par|par)\.%s\b' % m, txt)})
            if not flds:
              continue
            n += 1
            which = '_test_range' if any(x.endswith('_range') for x in flds) else '_test_value_vs_threshold'
            rep.check3(ok.get(which, False), 'R1g/integer-parameters', '%s: %s `%s` uses %s, stored as int by the validator' % (f.name, what, norm(b)[:30], flds), f.qualname,
                      '%s %s <- %s' % (what, norm(b)[:40], ', '.join(flds)),
                      '%s uses the parameter %s as a %s, but the validator accepts integer-valued floats (e.g. 2.0) without converting them to int: range()/slicing then raises TypeError inside the search'
                      % (f.qualname, ', '.join(flds), what), f.loc(sub),
                      why_open='the validator %s does not store int(value) in the recognised form, but the module converts to int elsewhere' % which)
  rep.floor('range()/slice bounds fed by integer-valued parameters', n, 4)


# ---------------------------------------------------------------------------------------------
# R1h: subscript loads of plain-dict instance fields need the key to be present (KeyError is not a ValueError)
# ---------------------------------------------------------------------------------------------
def r1h_dict_field_keys(repo, rep, closure):
  """For every class with a function in the closure: a field initialised to a plain dictionary ({} / dict()) — not a
  defaultdict — may be subscripted for reading only where the key is known to be present: inside `if key in field`,
  after a store/setdefault of that key in the same function, or with the key drawn from iterating the field."""
  n_sites = 0
  classes = {}
  for f in closure.values():
    if f.cls is not None:
      classes[f.cls.qualname] = f.cls
  for cq, cls in sorted(classes.items()):
    plain = set()
    for m in cls.all_functions():
      sn = m.params[0] if m.params else None
      for s_ in walk_no_nested(m.node):
        if isinstance(s_, ast.Assign):
          for t in s_.targets:
            if isinstance(t, ast.Attribute) and isinstance(t.value, ast.Name) and t.value.id == sn:
              v = s_.value
              is_plain = (isinstance(v, ast.Dict) and not v.keys) or (isinstance(v, ast.Call) and norm(v.func) == 'dict' and not v.args and not v.keywords)
              if is_plain and m.name in ('__init__', '__post_init__'):
                plain.add(t.attr)
              elif t.attr in plain and not is_plain:
                plain.discard(t.attr)     # re-assigned to something else somewhere: not tracked
    if not plain:
      continue
    for m in cls.all_functions():
      if m.qualname not in closure:
        continue
      sn = m.params[0] if m.params else None
      ctx = FuncCtx.of(m)
      g, rd = ctx.g, ctx.rd
      doms = g.dominators(cfgmod.no_exc)
      for node in g.nodes:
        for e in ctx.node_exprs(node):
          for sub in walk_no_nested(e):
            if not (isinstance(sub, ast.Subscript) and isinstance(sub.ctx, ast.Load)):
              continue
            base = rd.expand(node, sub.value, aliases=True)[0]
            if not (isinstance(base, ast.Attribute) and isinstance(base.value, ast.Name) and base.value.id == sn and base.attr in plain):
              continue
            n_sites += 1
            fld = '%s.%s' % (sn, base.attr)
            key = norm(sub.slice)
            ok, why = False, ''
            for e2, taken, tn in cfgmod.dominating_conditions(g, node, doms):
              forms = pathcond.asserted_forms(rd.expand(tn, e2, aliases=True)[0], taken)
              if '%s in %s' % (key, fld) in forms or '%s in %s.keys()' % (key, fld) in forms:
                ok, why = True, 'guarded by a membership test'
            for d_ in doms.get(node, ()):
              if d_.kind == 'stmt' and d_ is not node:
                for s2 in walk_no_nested(d_.ast):
                  if isinstance(s2, ast.Subscript) and isinstance(s2.ctx, ast.Store) and norm(s2.slice) == key \
                      and norm(rd.expand(d_, s2.value, aliases=True)[0]) == fld:
                    ok, why = True, 'the key is stored before'
                  if isinstance(s2, ast.Call) and isinstance(s2.func, ast.Attribute) and s2.func.attr == 'setdefault' and s2.args \
                      and norm(s2.args[0]) == key and norm(rd.expand(d_, s2.func.value, aliases=True)[0]) == fld:
                    ok, why = True, 'setdefault of the key before'
              if d_.kind == 'for' and norm(d_.ast.target).split(',')[0].strip('( ') == key:
                it = norm(rd.expand(d_, d_.ast.iter, aliases=True)[0])
                if it in (fld, '%s.keys()' % fld, '%s.items()' % fld, 'list(%s)' % fld, 'sorted(%s)' % fld):
                  ok, why = True, 'the key iterates the field'
            # comprehension over the field's own keys
            cur, par = sub, getattr(sub, '_parent', None)
            while par is not None and not isinstance(par, ast.stmt):
              if isinstance(par, (ast.DictComp, ast.ListComp, ast.SetComp, ast.GeneratorExp)):
                for gen in par.generators:
                  if norm(gen.target) == key and norm(rd.expand(node, gen.iter, aliases=True)[0]) in (fld, '%s.keys()' % fld):
                    ok, why = True, 'the key iterates the field'
              cur, par = par, getattr(par, '_parent', None)
            if not ok and isinstance(sub.slice, ast.Name) and sub.slice.id in m.params[1:]:
              # the key is a parameter: decided at the call sites
              pidx = m.params.index(sub.slice.id) - 1
              sites = []
              for cf in closure.values():
                cctx = FuncCtx.of(cf)
                for cnode in cctx.g.nodes:
                  for ce in cctx.node_exprs(cnode):
                    for call in au.calls_in(ce):
                      if isinstance(call.func, ast.Attribute) and call.func.attr == m.name and len(call.args) > pidx:
                        sites.append((cf, cctx, cnode, call))
              allok = bool(sites)
              for cf, cctx, cnode, call in sites:
                arg = norm(call.args[pidx])
                site_ok = False
                recv_self = cf.cls is cls and isinstance(call.func.value, ast.Name) and cf.params and call.func.value.id == cf.params[0]
                cur, par = call, getattr(call, '_parent', None)
                while par is not None and not isinstance(par, ast.stmt):
                  if isinstance(par, (ast.DictComp, ast.ListComp, ast.SetComp, ast.GeneratorExp)):
                    for gen in par.generators:
                      if norm(gen.target) == arg and recv_self and norm(gen.iter) in ('%s.%s' % (cf.params[0], base.attr), '%s.%s.keys()' % (cf.params[0], base.attr)):
                        site_ok = True
                  cur, par = par, getattr(par, '_parent', None)
                for d_ in cctx.g.dominators(cfgmod.no_exc).get(cnode, ()):
                  if d_.kind == 'for' and recv_self and norm(d_.ast.target) == arg and norm(d_.ast.iter) in ('%s.%s' % (cf.params[0], base.attr), '%s.%s.keys()' % (cf.params[0], base.attr)):
                    site_ok = True
                if not site_ok:
                  allok = False
                  rep.violation('R1h/dict-field-key', cf.qualname, norm(call)[:100],
                                '%s calls %s, which reads the plain dictionary field %s under the key %s without anything establishing that the key is present: KeyError escapes '
                                '(for the result heap: whenever no design was stored under that key)' % (cf.name, norm(call)[:60], base.attr, arg), cf.loc(call))
              if allok:
                rep.ok('R1h/dict-field-key', '%s: every call site passes a key drawn from the field' % m.name, loc=m.loc(sub))
              continue
            rep.check(ok, 'R1h/dict-field-key', '%s: read of %s[%s] only with the key present (%s)' % (m.name, fld, key, why), m.qualname,
                      'read %s[%s]' % (fld, key),
                      '%s reads %s[%s]; the field is a plain dictionary and nothing on the way establishes that the key is present: KeyError escapes (for the result heap: whenever no design was stored under that key)'
                      % (m.name, fld, key), m.loc(sub))
  rep.extra['plain_dict_field_reads'] = n_sites


# ---------------------------------------------------------------------------------------------
# R1i: an index array built from a possibly empty list must be of an integer type
# ---------------------------------------------------------------------------------------------
def r1i_index_arrays(repo, rep, closure):
  """`A[np.array([pos[g] for g in geos])]`: np.array of an *empty* list is a float64 array, and NumPy refuses float arrays
  as indices (IndexError) -- so positional selection through an array built without `dtype=int` fails exactly when the
  selection is empty, which both searches produce when every geo is excluded (the documented outcome is then an empty
  result).  Decided from the construction of the index expression; whether the list can be empty is asked of the same
  path analysis as the divisions (a parameter of a public function / setter can)."""
  from mmsa.props import c09
  n = 0
  funcs = dict(closure)
  dcls = repo.cls('tbrmmdata.TBRMMData')
  for m_ in dcls.all_functions():
    funcs.setdefault(m_.qualname, m_)
  for q, f in sorted(funcs.items()):
    ctx = FuncCtx.of(f)
    for node in ctx.g.nodes:
      for e in ctx.node_exprs(node):
        for sub in walk_no_nested(e):
          if not (isinstance(sub, ast.Subscript) and isinstance(sub.ctx, ast.Load)):
            continue
          sl = ctx.rd.expand(node, sub.slice, depth=6, keep=tuple(f.params))[0]
          for ix in (sl.elts if isinstance(sl, ast.Tuple) else [sl]):
            if not (isinstance(ix, ast.Call) and norm(ix.func) in ('np.array', 'numpy.array', 'np.asarray', 'numpy.asarray') and ix.args):
              continue
            if au.kwarg(ix, 'dtype') is not None or len(ix.args) > 1:
              continue
            src = ix.args[0]
            it = None
            if isinstance(src, ast.ListComp) and len(src.generators) == 1 and not src.generators[0].ifs:
              it = src.generators[0].iter
            elif isinstance(src, ast.Call) and isinstance(src.func, ast.Name) and src.func.id == 'list' and len(src.args) == 1:
              it = src.args[0]
            if it is None:
              continue
            n += 1
            S = norm(it)
            public_param = S in f.params and (f.kind == 'setter' or not f.name.startswith('_'))
            if public_param:
              rep.violation('R1i/index-array', f.qualname, norm(sub)[:120],
                            '%s selects by the index array `%s`, built from the list over `%s` without an integer dtype: for an empty %s (no geo left after the exclusions) np.array gives a float64 array and NumPy raises IndexError instead of the search returning an empty list'
                            % (f.name, norm(ix)[:70], S, S), f.loc(sub))
            else:
              rep.undecided('R1i/index-array', '%s: %s' % (f.name, norm(sub)[:50]), 'the index array `%s` has no integer dtype; whether `%s` can be empty here is not decided' % (norm(ix)[:60], S), f.loc(sub))
  rep.extra['index_arrays_without_dtype'] = n
