"""C05 — required impact is calibrated to the post-analysis test at the stated power.

Decided (formula level, by term rewriting on the expressions of the source):
(R1) required impact == (t_ppf(sig, n-2) + t_ppf(power, n-2)) * scale, where
scale is the design-side TBR scale (tbrfit) evaluated at the planning
displacement dv = phi*(n+1)/(n_test*(n-1)), phi the F(1, n-1) quantile at
flevel, and sigma = std(y, ddof=2)*sqrt(1 - corr^2); the half-width is
t_ppf(sig, n-2) * scale, so at the required lift the one-sided lower bound is
t_ppf(power, n-2) * scale; the point estimate is n_test*(dy - b*dx);
(R2) dependence shape: the data enter only through the factor
std(y, ddof=2) and the factor sqrt(1 - corr^2): linear in the response unit,
shift invariant, even in corr and strictly decreasing in |corr|;
(R3) degrees of freedom n - 2 on both sides; required_impact evaluates
estimate_required_impact at the object's own correlation; (R4) cached fields
read on this path obey the invalidation discipline (C08).
Not decided: agreement with tbr.TBR's OLS covariance propagation on data
(numerical linear algebra inside statsmodels; C06.R5 checks the shape).
"""
import ast
import re

import sympy

from mmsa import au, canon, cfg as cfgmod, dataflow, sym
from mmsa.core import Undecided, norm, walk_no_nested
from mmsa.types import FuncCtx

CLS = 'tbrmmdiagnostics.TBRMMDiagnostics'
EXPLANATION = (
    'Straight-line value numbering of _impact_estimate, estimate_required_impact and tbrfit into sympy terms in which library calls are '
    'uninterpreted functions (t_ppf, f_ppf, std, var); identities are decided by algebraic normalisation (simplify == 0), dependence '
    'facts by symbolic differentiation. No program input is chosen or executed.')
RULE_TEXT = 'one obligation per identity / dependence fact; all are non-trivial'

_busy = set()
t_ppf = sympy.Function('t_ppf')
f_ppf = sympy.Function('f_ppf')


def make_leaf(f, extra=None, custom=None):
  """Leaf interpreter for sym.to_sym; `custom(e)` is consulted first at every node (also inside nested calls)."""
  extra = extra or {}

  def leaf(e):
    if custom is not None:
      r = custom(e)
      if r is not None:
        return r
    t = norm(e)
    if t in extra:
      return extra[t]
    # a memoised field read in the function that fills it: use the memoised expression (its invalidation is R4's business)
    if isinstance(e, ast.Attribute) and isinstance(e.value, ast.Name) and f.params and e.value.id == f.params[0]:
      vals = [s_.value for s_ in walk_no_nested(f.node) if isinstance(s_, ast.Assign) and len(s_.targets) == 1
              and norm(s_.targets[0]) == t and not au.is_const(s_.value, None)]
      if len(vals) == 1 and t not in _busy:
        _busy.add(t)
        try:
          return sym.to_sym(vals[0], leaf)
        finally:
          _busy.discard(t)
    if isinstance(e, ast.Call):
      ln = au.lib_name(f.module, e.func) or norm(e.func)
      if ln in ('scipy.stats.t.ppf',) and e.args:
        df = au.kwarg(e, 'df') or (e.args[1] if len(e.args) > 1 else None)
        if df is None:
          raise Undecided('t.ppf without df: %s' % t)
        return t_ppf(sym.to_sym(e.args[0], leaf), sym.to_sym(df, leaf))
      if isinstance(e.func, ast.Attribute) and e.func.attr == 'ppf' and isinstance(e.func.value, ast.Call) and e.args \
          and (au.lib_name(f.module, e.func.value.func) or '') == 'scipy.stats.t':
        inner = e.func.value              # the frozen form: stats.t(df).ppf(p) is stats.t.ppf(p, df)
        df = au.kwarg(inner, 'df') or au.arg(inner, 0)
        if df is None:
          raise Undecided('frozen t without df: %s' % t)
        return t_ppf(sym.to_sym(e.args[0], leaf), sym.to_sym(df, leaf))
      if isinstance(e.func, ast.Attribute) and e.func.attr == 'ppf' and isinstance(e.func.value, ast.Call) \
          and (au.lib_name(f.module, e.func.value.func) or '') == 'scipy.stats.f':
        inner = e.func.value
        dfn, dfd = au.kwarg(inner, 'dfn') or au.arg(inner, 0), au.kwarg(inner, 'dfd') or au.arg(inner, 1)
        return f_ppf(sym.to_sym(e.args[0], leaf), sym.to_sym(dfn, leaf), sym.to_sym(dfd, leaf))
      if ln in ('numpy.sqrt', 'math.sqrt') and len(e.args) == 1:
        return sympy.sqrt(sym.to_sym(e.args[0], leaf))
      if ln in ('numpy.abs', 'abs', 'numpy.absolute', 'numpy.fabs') and len(e.args) == 1:
        return sympy.Abs(sym.to_sym(e.args[0], leaf))
      if ln == 'numpy.std' and e.args:
        dd = au.kwarg(e, 'ddof')
        return sym.symbol('std(%s,ddof=%s)' % (norm(e.args[0]), norm(dd) if dd is not None else '0'), True)
      if ln == 'numpy.var' and e.args:
        dd = au.kwarg(e, 'ddof')
        return sym.symbol('var(%s,ddof=%s)' % (norm(e.args[0]), norm(dd) if dd is not None else '0'), True)
      if ln in ('float', 'int') and len(e.args) == 1:
        return sym.to_sym(e.args[0], leaf)
      if ln == 'len' and len(e.args) == 1:
        return sym.symbol('len(%s)' % norm(e.args[0]), True)
    return None
  return leaf


def value_of(f, name=None, ret=True, keep=()):
  """sympy term of the (single) returned expression of f, aliases expanded."""
  ctx = FuncCtx.of(f)
  rets = [n for n in ctx.g.nodes if n.kind == 'return' and n.ast.value is not None and not au.is_const(n.ast.value, None)]
  if len(rets) != 1:
    raise Undecided('%s: expected one value-returning return' % f.qualname)
  return ctx, rets[0]


def run(repo, rep, tier):
  cls = repo.cls(CLS)
  fi = cls.methods.get('_impact_estimate')
  fe = cls.methods.get('estimate_required_impact')
  ft = cls.methods.get('tbrfit')
  if not (fi and fe and ft):
    raise Undecided('impact / tbrfit functions vanished')
  for f in (fi, fe, ft):
    rep.fn(f)
  # 1. term(n_test, n, flevel, sig, power)
  ctx, r = value_of(fi)
  pnames = fi.params[1:]
  psyms = {p: sym.symbol(p, True) for p in pnames}
  term = sym.to_sym(ctx.rd.expand(r, r.ast.value, depth=20, keep=tuple(pnames))[0], make_leaf(fi, psyms))
  if len(pnames) != 5:
    raise Undecided('_impact_estimate no longer takes (n_test, n, flevel, sig_level, power_level): found %s' % (pnames,))
  n_test, n, flevel, sig, power = (psyms[p] for p in pnames)
  # 2. impact = term(...) * sigma
  ctx2, r2 = value_of(fe)
  ex = ctx2.rd.expand(r2, r2.ast.value, depth=20, keep=('corr',))[0]
  corr = sym.symbol('corr')
  std_y = sym.symbol('std_y', True)
  call_args = {}

  def leaf_e(e):
    t = norm(e)
    if t == 'corr':
      return corr
    if isinstance(e, ast.Call) and norm(e.func) == 'self._impact_estimate':
      args = [norm(a) for a in e.args]
      call_args['args'] = args
      return term
    if isinstance(e, ast.Call) and (au.lib_name(fe.module, e.func) or '') == 'numpy.std':
      dd = au.kwarg(e, 'ddof')
      call_args['std'] = (norm(e.args[0]), norm(dd) if dd is not None else '0')
      return std_y
    return None
  impact = sym.to_sym(ex, make_leaf(fe, custom=leaf_e))
  want_args = ['self._par.n_test', 'len(self.y)', 'self._par.flevel', 'self._par.sig_level', 'self._par.power_level']
  args_ = call_args.get('args')
  if args_ is None:
    rep.undecided('R3/arguments', 'estimate_required_impact', 'no visible call of self._impact_estimate in the returned expression', fe.loc())
  elif args_ != want_args and any(a.startswith('*') for a in args_):
    rep.undecided('R3/arguments', 'estimate_required_impact', 'the multiplier is called as _impact_estimate(%s): the arguments are not plain access paths' % ', '.join(args_)[:120], fe.loc())
  else:
    # a closed term over the fields of the object and the operations of the pristine package that differs is a violation;
    # an argument spelled with anything else (y.size, a helper, a local) is not decided
    rep.check_term(args_ == want_args, '(%s,)' % ', '.join(args_), (), 'R3/arguments', 'the multiplier is evaluated at (n_test, len(y), flevel, sig_level, power_level)', fe.qualname,
                   '_impact_estimate(%s)' % ', '.join(args_), 'the impact multiplier is evaluated at (%s) instead of (%s)' % (', '.join(args_), ', '.join(want_args)), fe.loc())
  rep.check3(None if call_args.get('std') is None else call_args.get('std') == ('self.y', '2'), 'R2/dependence', 'sigma uses std(y, ddof=2)', fe.qualname, 'np.std%s' % (call_args.get('std'),),
             'the residual scale is built from std%s, not from std(self.y, ddof=2)' % (call_args.get('std'),), fe.loc(),
             why_open='no visible numpy.std call in the returned expression of estimate_required_impact')
  # 3. tbrfit: scale, cihw, estimate
  ctx3, r3 = value_of(ft)
  rv = canon.of(repo).expr(ctx3.rd.expand(r3, r3.ast.value, depth=20)[0])
  if not (isinstance(rv, ast.Call) and norm(rv.func) == 'TBRFit' and len(rv.args) == 4 and not rv.keywords):
    raise Undecided('tbrfit does not return TBRFit(estimate, cihw, sigma, scale)')
  fit_fields = canon.of(repo).sigs.get('LinregResult') or []

  def fit_field(e):
    """Field of the pre-test fit denoted by e: `self.pretestfit.sigma`, or a local unpacked from the fit."""
    m = re.fullmatch(r'(self\.pretestfit|self\._pretestfit|pretestfit)\.(\w+)', norm(e))
    if m and m.group(2) in fit_fields:
      return m.group(2)
    if isinstance(e, ast.Name):
      d = ctx3.rd.single_def(r3, e.id)
      if d is not None and d.how == 'unpack' and d.index is not None and d.value is not None \
          and norm(ctx3.rd.expand(d.node, d.value)[0]) in ('self.pretestfit', 'self._pretestfit') and 0 <= d.index < len(fit_fields):
        return fit_fields[d.index]
    return None
  sigma = sym.symbol('sigma', True)
  dv = sym.symbol('dv', True)
  nn = n

  def leaf_t(e):
    t = norm(e)
    ff = fit_field(e)
    if ff == 'sigma':
      return sigma
    if ff == 'b':
      return sym.symbol('b')
    if ff is not None:
      return sym.symbol('fit_' + ff)
    if t in ('self._par.n_test', 'par.n_test'):
      return n_test
    if t in ('self._par.sig_level',):
      return sig
    if t in ('len(self._x)', 'len(self._y)', 'len(self.x)', 'len(self.y)'):
      return nn
    for nm, s_ in (('xt', 'xt'), ('yt', 'yt'), ('self._x_mean', 'xm'), ('self._y_mean', 'ym')):
      if t == nm:
        return sym.symbol(s_)
    return None
  lt = make_leaf(ft, custom=leaf_t)
  est, cihw, sg, scale = (sym.to_sym(a, lt) for a in rv.args)
  # express the displacement term through dv := (xt - mean(x))^2 / var(x, ddof=0)
  vx = sym.symbol('var(self._x,ddof=0)', True)
  xt_, xm_ = sym.symbol('xt'), sym.symbol('xm')
  cihw, scale = (sympy.simplify(z.subs(vx, (xt_ - xm_) ** 2 / dv)) for z in (cihw, scale))
  raw_scale = sym.to_sym(rv.args[3], lt)
  uses_var = vx in raw_scale.free_symbols
  scale_known = {str(x_) for x_ in (n_test, n, sig, sigma)} | {'xt', 'yt', 'xm', 'ym', 'b', 't_ppf', 'f_ppf', str(vx)}
  al0 = sym.aliens(raw_scale, scale_known)
  rep.check3(True if uses_var else (None if al0 else False), 'R1/calibration', 'the displacement is normalised by var(x, ddof=0)', ft.qualname, 'scale = %s' % sympy.sstr(scale)[:120],
             'the TBR scale does not use (xt - mean(x))^2 / var(x, ddof=0) as displacement term', ft.loc(),
             why_open='the scale contains quantities the expansion did not resolve (%s)' % ', '.join(al0)[:100])
  # R1 identities
  dv_plan = f_ppf(flevel, 1, n - 1) * (n + 1) / (n_test * (n - 1))
  sigma_d = std_y * sympy.sqrt(1 - corr ** 2)
  scale_plan = scale.subs({sigma: sigma_d, dv: dv_plan})
  want = (t_ppf(sig, n - 2) + t_ppf(power, n - 2)) * scale_plan
  modconsts = {k_ for k_, v_ in fe.module.assigns.items() if isinstance(v_, ast.Constant)}
  known = {str(x_) for x_ in (n_test, n, flevel, sig, power, std_y, corr, sigma, dv)} | {'xt', 'yt', 'xm', 'ym', 'b', 't_ppf', 'f_ppf'} | modconsts | set(pnames) | {'self._par', 'self._x', 'self._y', 'self.x', 'self.y'}
  eq1 = lambda a_, b_: sympy.simplify(a_ ** 2 - b_ ** 2) == 0 and sympy.simplify(sympy.powsimp(a_ / b_, force=True)) == 1
  open_scale = sym.aliens(scale, known)
  ok1, al1 = sym.verdict(impact, want, {str(x_) for x_ in (n_test, n, flevel, sig, power, std_y, corr)} | {'t_ppf', 'f_ppf'} | modconsts | set(pnames), eq=eq1)
  if not ok1 and open_scale:
    ok1, al1 = None, open_scale
  rep.check3(ok1, 'R1/calibration', 'required impact == (tq_sig + tq_pow) * TBR scale at the planning displacement', fe.qualname,
             'impact = %s' % sympy.sstr(impact)[:200],
             'the required impact `%s` is not (t_ppf(sig_level, n-2) + t_ppf(power_level, n-2)) times the posterior scale `%s` of the TBR fit at the planning displacement: the design is no longer calibrated to the post-analysis test'
             % (sympy.sstr(impact)[:160], sympy.sstr(scale_plan)[:120]), fe.loc(),
             why_open='the impact / scale terms contain quantities the expansion did not resolve (%s)' % ', '.join(al1)[:100])
  ok2, al2 = sym.verdict(cihw, t_ppf(sig, n - 2) * scale, known)
  if not ok2 and open_scale:
    ok2, al2 = None, open_scale
  rep.check3(ok2, 'R1/calibration', 'half-width == t_ppf(sig_level, n-2) * scale', ft.qualname, 'cihw = %s' % sympy.sstr(cihw)[:160],
             'the credible half-width `%s` is not t_ppf(sig_level, n-2) * scale `%s`' % (sympy.sstr(cihw)[:120], sympy.sstr(scale)[:120]), ft.loc(),
             why_open='the half-width / scale terms contain quantities the expansion did not resolve (%s)' % ', '.join(al2)[:100])
  xt, yt, xm, ym, b = (sym.symbol(s_) for s_ in ('xt', 'yt', 'xm', 'ym', 'b'))
  ok3, al3 = sym.verdict(est, n_test * ((yt - ym) - b * (xt - xm)), known)
  rep.check3(ok3, 'R1/calibration', 'point estimate == n_test * (dy - b*dx)', ft.qualname, 'estimate = %s' % sympy.sstr(est)[:160],
             'the TBR point estimate `%s` is not n_test*((yt - mean(y)) - b*(xt - mean(x)))' % sympy.sstr(est)[:140], ft.loc(),
             why_open='the estimate contains quantities the expansion did not resolve (%s)' % ', '.join(al3)[:100])
  ok4 = sympy.simplify(sg - sigma) == 0
  rep.check(ok4, 'R1/calibration', 'tbrfit reports the residual sigma it used', ft.qualname, 'sigma = %s' % sympy.sstr(sg)[:80], 'tbrfit reports another sigma', ft.loc(), nontrivial=False)
  # R2 dependence shape
  K = sympy.simplify(impact / (std_y * sympy.sqrt(1 - corr ** 2)))
  free = K.free_symbols & {std_y, corr}
  al_imp = sym.aliens(impact, {str(x_) for x_ in (n_test, n, flevel, sig, power, std_y, corr)} | {'t_ppf', 'f_ppf'} | modconsts | set(pnames))
  rep.check3(True if not free else (None if al_imp else False), 'R2/dependence', 'impact = K(parameters) * std(y, ddof=2) * sqrt(1 - corr^2): linear in the unit, shift invariant', fe.qualname,
            'impact / (std_y*sqrt(1-corr^2)) = %s' % sympy.sstr(K)[:160],
            'the required impact does not factor as K * std(y) * sqrt(1 - corr^2) (residual dependence on %s): it is not linear in the response unit / not a function of |corr| of the documented shape' % free, fe.loc(),
            why_open='the impact contains quantities the expansion did not resolve (%s)' % ', '.join(al_imp)[:100])
  even = sympy.simplify(impact - impact.subs(corr, -corr)) == 0
  dlog = sympy.simplify(sympy.diff(impact, corr) / impact + corr / (1 - corr ** 2))
  rep.check3(True if (even and dlog == 0) else (None if al_imp else False), 'R2/dependence', 'impact is even in corr and strictly decreasing in |corr| (d log impact / d corr = -corr/(1-corr^2))', fe.qualname,
            'd/dcorr log(impact) + corr/(1-corr^2) = %s' % sympy.sstr(dlog)[:80], 'the required impact is not strictly decreasing in |corr|', fe.loc(),
            why_open='the impact contains quantities the expansion did not resolve (%s)' % ', '.join(al_imp)[:100])
  # R3 required_impact uses the object's own correlation
  g = cls.getters.get('required_impact')
  if g is None:
    raise Undecided('required_impact vanished')
  rep.fn(g)
  calls = [c for c in au.calls_in(g.node) if norm(c.func) == 'self.estimate_required_impact']
  gctx = FuncCtx.of(g)
  if len(calls) != 1:
    rep.undecided('R3/arguments', 'required_impact', 'expected one call of self.estimate_required_impact (found %d)' % len(calls), g.loc())
  else:
    call_ = calls[0]
    arg_ = call_.args[0] if call_.args else au.kwarg(call_, fe.params[1] if len(fe.params) > 1 else 'corr')
    if arg_ is not None:
      ax = gctx.rd.expand(gctx.node_at(call_), arg_)[0]
      rep.check_term(norm(ax) == 'self.corr', ax, (), 'R3/arguments', 'required_impact = estimate_required_impact(self.corr)', g.qualname, norm(call_)[:100],
                     'required_impact is not estimate_required_impact evaluated at the object\'s own correlation (it passes `%s`)' % norm(ax)[:60], g.loc())
    else:
      # the argument is omitted: what the callee substitutes for it
      fctx_ = FuncCtx.of(fe)
      pname_ = fe.params[1] if len(fe.params) > 1 else None
      subst = []
      for n_ in fctx_.g.nodes:
        if n_.kind == 'stmt' and isinstance(n_.ast, ast.Assign) and pname_ and any(isinstance(t_, ast.Name) and t_.id == pname_ for t_ in n_.ast.targets):
          subst.append((n_, fctx_.rd.expand(n_, n_.ast.value, keep=(pname_,))[0]))
      if len(subst) != 1:
        rep.undecided('R3/arguments', 'required_impact', 'estimate_required_impact() is called without the correlation and the callee fills it in in a form that is not followed', g.loc())
      else:
        n_, v_ = subst[0]
        rep.check_term(norm(v_) == 'self.corr', v_, (), 'R3/arguments', 'the omitted correlation defaults to the object\'s own correlation', fe.qualname, norm(n_.ast)[:100],
                       'estimate_required_impact() substitutes `%s` for the omitted correlation: that is not the object\'s own correlation for every series (a correlation of exactly 0.0 is falsy)' % norm(v_)[:60],
                       fe.loc(n_.ast))
  # a correlation of exactly 0.0 (uncorrelated series) is a legitimate value: it must never be tested by truthiness
  for fn_ in (fe, g):
    pn_ = fn_.params[1] if fn_ is fe and len(fn_.params) > 1 else None
    for sub_ in walk_no_nested(fn_.node):
      tests_ = []
      if isinstance(sub_, (ast.If, ast.While, ast.IfExp)):
        tests_.append(sub_.test)
      if isinstance(sub_, ast.BoolOp):
        tests_ += sub_.values[:-1] if not isinstance(getattr(sub_, '_parent', None), (ast.If, ast.While, ast.IfExp)) else sub_.values
      if isinstance(sub_, ast.UnaryOp) and isinstance(sub_.op, ast.Not):
        tests_.append(sub_.operand)
      for t_ in tests_:
        tx_ = norm(t_)
        if isinstance(t_, ast.Name):
          at_ = FuncCtx.of(fn_).node_at(t_)
          if at_ is not None:
            tx_ = norm(FuncCtx.of(fn_).rd.expand(at_, t_)[0])       # a local holding the correlation (corr = self.corr)
        if tx_ in ('self.corr', 'self._corr') or (pn_ and isinstance(t_, ast.Name) and t_.id == pn_):
          rep.violation('R3/arguments', fn_.qualname, 'truthiness of %s' % norm(t_), '%s tests the correlation `%s` by truthiness: a correlation of exactly 0.0 is treated like a missing one'
                        % (fn_.name, norm(t_)), fn_.loc(t_))
  # R4 cache discipline of the fields on this path (shared with C08)
  from mmsa.props import c08
  sub = type(rep)(rep.prop, rep.tier, rep.repo)
  c08.analyse_class(repo, sub, CLS, prefix='')
  for i in sub.instances:
    if i.status != 'discharged' or i.nontrivial:
      i.rule = 'R4/' + i.rule.split('/', 1)[1]
      rep.instances.append(i)
  # analysis side: the one-sided lower bound of TBR.summary(level=sig_level, tails=1) is the alpha-quantile of the posterior (C06.R2/R5)
  from mmsa import tbrrules
  sub = type(rep)(rep.prop, rep.tier, rep.repo)
  tbrrules.summary_rules(repo, sub, '')
  tbrrules.distribution_rules(repo, sub, '')
  for i in sub.instances:
    if i.rule in ('R2/one-distribution', 'R5/posterior-shape', 'R4/scale-sign'):
      i.rule = 'R5/analysis-side-' + i.rule.split('/', 1)[1]
      rep.instances.append(i)
  rep.assume('lemma (not mechanised): std(y, ddof=2)*sqrt(1 - corr^2) equals the residual standard deviation (ddof=2) of the OLS fit of y on x')
  rep.floor('identities and dependence facts', sum(1 for i in rep.instances if i.rule.startswith(('R1', 'R2'))), 6)
