"""C06 — the TBR posterior of the cumulative effect equals the closed-form model.

Decided: (R1) information flow: the raw frame reaches the model only through
groupby([group, date]).agg({target: 'sum', period: 'max'}) with sorted keys, and
the two series are selected by label; (R2) every summary column derives from the
single posterior object returned by causal_cumulative_distribution(rescale=...)
with the documented formulas; (R3) quantile ordering (interval domain, case
split on tails): the lower quantile argument is <= 0.5 <= the upper one;
(R4) the scale handed to scipy.stats.t is non-negative for every rescale;
(R5) shape of the posterior: df = residual d.f., location = rescale * cumsum of
(observed - OLS counterfactual), variance = t^2 * m_t' V m_t + t * sigma^2;
the design-side closed form is C05.R1; (R6) cached fields used by the
design-side fit obey the invalidation discipline.
Not decided: numeric equality with the closed form on data; row-order
independence inside pandas/statsmodels.
"""
from mmsa import tbrrules
from mmsa.props import c05, c08

EXPLANATION = (
    'Information-flow and argument rules on tbr.TBR (aggregation as the only entrance of raw data, label-based selection), provenance of '
    'every summary column from one distribution object, interval domain for quantile arguments with a case split on tails, sign domain '
    'for the t scale, and expression-level shape of the posterior variance; design-side identities by sympy (C05).')
RULE_TEXT = 'one obligation per flow clause, summary column, (tails, quantile) pair and shape clause'


def run(repo, rep, tier):
  tbrrules.tbr_aggregation(repo, rep, 'R1/information-flow')
  tbrrules.kwarg_subdict_rule(repo, rep, 'R1/information-flow')
  tbrrules.summary_rules(repo, rep, '')
  tbrrules.distribution_rules(repo, rep, '')
  sub = type(rep)(rep.prop, rep.tier, rep.repo)
  c05.run(repo, sub, tier)
  for i in sub.instances:
    if i.rule.startswith('R1/calibration') or i.rule.startswith('R4/'):
      i.rule = 'R6/' + i.rule.split('/', 1)[1] if i.rule.startswith('R4/') else 'R5/design-side-closed-form'
      rep.instances.append(i)
  sub = type(rep)(rep.prop, rep.tier, rep.repo)
  c08.r5_inputs_copied(repo, sub, c08.CLASS)
  c08.r4_reads_do_not_mutate(repo, sub, c08.CLASS)
  for i in sub.instances:
    i.rule = 'R6/' + i.rule.split('/', 1)[1]
    rep.instances.append(i)
  sub = type(rep)(rep.prop, rep.tier, rep.repo)
  c08.r4_reads_do_not_mutate(repo, sub, 'tbr.TBR')
  for i in sub.instances:
    i.rule = 'R1/read-does-not-mutate'
    rep.instances.append(i)
  rep.assume('level in [0, 1] (guard in TBR.summary), tails in {1, 2} (guard); scipy.stats.t.ppf is monotone in p')
