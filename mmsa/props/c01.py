"""C01 — returned designs are legal assignments under the eligibility matrix.

Decided for all set inputs (pointwise Boolean abstraction, exhaustive truth
tables): (R1) every pushed object is built by TBRMMDesign, whose __post_init__
rejects empty and overlapping groups; (R2) generator post-conditions: every
yielded treatment set satisfies T->t, t_fixed->T; every yielded control set
satisfies C->c, c_fixed->C, not(C and T), ct->(T or C); (R3) the greedy moves
preserve Inv(C,T) = C->c & c_fixed->C & not(C&T) & T->t & t_fixed->T & ct->(T|C)
(initial pair, control toggle, treatment addition), every store to a tracked
group variable is a copy or one of the proved moves, and the (C,T) pair is
replaced atomically; (R4) the admitted set contains the must-include geos on
every return path and only assignable or must-include geos; the installed geo
index is a filter of an ordered sequence by that set; assignable excludes
x_fixed; (R5) both groups are mapped to IDs through the installed index, each
from its own field; (R1e) the index is re-installed on every access.
Not decided: that the numeric search returns anything; pandas keeps IDs
distinct; cardinality-dependent behaviour (group sizes are C02's).
"""
import ast
import re

from mmsa import au, boolset, cfg as cfgmod, dataflow, pathcond, search
from mmsa.core import Undecided, norm, walk_no_nested
from mmsa.types import FuncCtx

MM = search.MM
EXPLANATION = (
    'Pointwise Boolean abstraction of the set algebra of both generators, the greedy moves, the admitted-set computation and the data '
    'object: set expressions are evaluated as truth tables over membership atoms (eligibility row c,t,x from GeoAssignments.__init__, '
    'symbolic input sets, choice atoms for combinations/slices, element atoms for loop variables); each clause of the statement is a '
    'formula decided on all rows. Structural rules tie the pushed objects to these expressions.')
RULE_TEXT = 'one obligation per (construct, clause); all rows of the truth table are enumerated (exact for the abstraction)'

POOL = ['c', 't', 'x', 'a1', 'a2', 'a3', 'a4', 'a5', 'a6', 'a7']
CLAUSES = ['C->c', 'c_fixed->C', 'not(C&T)', 'T->t', 't_fixed->T', 'ct->(T|C)']


class SetCtx:
  """Boolean evaluation of set expressions of one function of TBRMatchedMarkets."""

  def __init__(self, repo, f):
    from mmsa.props import c16
    self.repo, self.f = repo, f
    self.ctx = FuncCtx.of(f)
    self.g, self.rd = self.ctx.g, self.ctx.rd
    self.env = boolset.Env(POOL)
    env3, fields, _ = c16.class_functions(repo)
    self.cls = {}
    for name, m3 in fields.items():
      self.cls[name] = self._lift(env3, m3)
    c, t, x = (self.env.atom(k) for k in 'ctx')
    self.legal = c | t | x
    self.hyp = self.legal
    self.names = {}
    self.free = list(POOL[3:])
    self.elem_atoms = {}

  def _lift(self, env3, m3):
    m = 0
    for r in range(self.env.rows):
      r3 = r & 7
      if (m3 >> r3) & 1:
        m |= 1 << r
    return m

  def atom(self, key):
    if key not in self.names:
      if not self.free:
        raise Undecided('too many symbolic sets in %s' % self.f.qualname)
      self.names[key] = self.free.pop(0)
    return self.env.atom(self.names[key])

  def assume(self, mask):
    self.hyp &= mask

  def describe(self, w):
    inv = {v: k for k, v in self.names.items()}
    return {inv.get(a, a): v for a, v in w.items() if a in ('c', 't', 'x') or a in inv}

  def ev(self, node, expr, bind=None):
    bind = bind or {}

    def lookup(e):
      t = norm(e)
      if t in bind:
        return bind[t]
      m = re.fullmatch(r'self\.geo_assignments\.(\w+)', t)
      if m:
        if m.group(1) not in self.cls:
          raise Undecided('unknown assignment class %s' % m.group(1))
        return self.cls[m.group(1)]
      if isinstance(e, ast.Name):
        ds = self.rd.defs_at(node, e.id)
        if len(ds) == 1:
          d = next(iter(ds))
          if d.how == 'assign' and d.value is not None:
            return self.ev(d.node, d.value, bind)
          if d.how == 'iter':
            it = self.rd.expand(d.node, d.value)[0]
            if isinstance(it, ast.Call) and au.lib_name(self.f.module, it.func) == 'itertools.combinations' and it.args:
              return self.atom('choice@%d' % d.node.lineno) & self.ev(d.node, it.args[0], bind)
            raise Undecided('loop variable %s used as a set' % e.id)
          if d.how == 'param':
            return self.atom('param:' + e.id)
        return self.atom('var:' + e.id)
      if isinstance(e, ast.Subscript) and isinstance(e.value, ast.Name):
        return self.atom('var:' + t)
      if isinstance(e, ast.Attribute):
        return self.atom('var:' + t)
      return None

    def elem(e):
      if isinstance(e, ast.Name):
        return self.elem_atom(node, e.id, bind)
      return None
    return boolset.eval_set(self.env, expr, lookup, elem)

  def elem_atom(self, node, name, bind=None):
    """Atom "g is the element bound to loop variable `name`", with hypothesis elem -> iterated set."""
    d = self.rd.single_def(node, name)
    if d is None or d.how != 'iter':
      raise Undecided('%s is not a loop variable over a set' % name)
    key = 'elem:%s@%d' % (name, d.node.lineno)
    first = key not in self.names
    a = self.atom(key)
    if first:
      self.assume(self.env.implies(a, self.ev(d.node, d.value, bind)))
    return a

  def guard_hypotheses(self, node):
    """`if X: raise` dominating `node` with X set-valued: afterwards X is empty."""
    doms = self.g.dominators(cfgmod.no_exc)
    for t in doms.get(node, ()):
      if t.kind != 'test':
        continue
      tb = [m for m, lab in self.g.succ[t] if lab == 'true']
      if not tb:
        continue
      reach = self.g.reachable(tb[0], cfgmod.no_exc)
      if self.g.exit in reach or node in reach:
        continue
      try:
        m = self.ev(t, t.expr)
      except Undecided:
        continue
      self.assume(self.env.neg(m))


def disjoint_sets(repo, f, node, a, b):
  sc = SetCtx(repo, f)
  try:
    return sc.env.valid(sc.env.neg(sc.ev(node, a) & sc.ev(node, b)), sc.hyp)
  except Undecided:
    return False


def _yields(f):
  ctx = FuncCtx.of(f)
  out = []
  for n in ctx.g.nodes:
    if n.kind == 'stmt':
      for sub in walk_no_nested(n.ast):
        if isinstance(sub, ast.Yield) and sub.value is not None:
          out.append((n, sub))
  return out


def prove(rep, sc, rule, subject, formula, f, construct, message, node):
  ok = sc.env.valid(formula, sc.hyp)
  w = None if ok else sc.describe(sc.env.witness(formula, sc.hyp))
  free_ = sorted(str(k_) for k_ in getattr(sc, 'names', {}) if str(k_).startswith('var:'))
  if not ok and free_:
    # the group reads a set that is not followed back to the eligibility classes (a cache entry, a field, the result of
    # a helper): in the formula it is a free set variable, and a "falsifying geo" that chooses its membership is no witness
    rep.undecided(rule, subject, 'the formula holds only for some values of the sets %s, which are not followed back to the eligibility classes' % ', '.join(free_)[:100],
                  f.loc(node.ast if hasattr(node, 'ast') and node.ast is not None else None))
    return None
  rep.check(ok, rule, subject, f.qualname, construct, '%s; falsifying geo: %s' % (message, w), f.loc(node.ast if hasattr(node, 'ast') and node.ast is not None else None))
  return ok


def r1_construction(repo, rep):
  n = 0
  for name in ('exhaustive_search', 'greedy_search'):
    view = search.SearchView(repo, name)
    rep.fn(view.f)
    for p in view.pushed:
      n += 1
      okp = bool(p.args) and p.T is not None and p.C is not None
      if not okp and (isinstance(p.ctor, ast.Name) or (isinstance(p.ctor, ast.Call) and not norm(p.ctor.func).split('.')[-1][:1].isupper()) or au.aliens(p.ctor, ())):
        rep.undecided('R1/construction', '%s push' % name, 'the pushed object `%s` is not visibly constructed in this function' % norm(p.ctor)[:60], view.f.loc(p.push_call))
        continue
      rep.check(okp, 'R1/construction', '%s pushes TBRMMDesign(...) objects' % name, view.f.qualname,
                norm(p.push_call), '%s pushes an object that is not built by the TBRMMDesign constructor: the non-empty/disjoint check is bypassed' % name,
                view.f.loc(p.push_call))
  rep.floor('push sites', n, 2)
  cls = repo.cls('tbrmmdesign.TBRMMDesign')
  f = cls.methods.get('__post_init__')
  if f is None:
    rep.absent_in_class(cls, 'R1/construction', cls.qualname, 'no __post_init__', 'TBRMMDesign no longer validates its groups (empty or overlapping groups are accepted)', cls.loc())
    return
  rep.fn(f)
  s = f.params[0]
  from mmsa import abspaths
  try:
    g, rd, paths = abspaths.normal_exit_paths(f.node)
  except Undecided as ex:
    rep.undecided('R1/construction', 'TBRMMDesign.__post_init__', str(ex), f.loc())
    return
  classify = abspaths.SetFacts({'%s.treatment_geos' % s: 'T', '%s.control_geos' % s: 'C'})
  ov = 'overlap:C,T'
  states = [('empty treatment', {'T:empty': True, 'C:empty': False, ov: False}), ('empty treatment', {'T:empty': True, 'C:empty': True, ov: False}),
            ('empty control', {'T:empty': False, 'C:empty': True, ov: False}), ('empty control', {'T:empty': True, 'C:empty': True, ov: False}),
            ('overlap', {'T:empty': False, 'C:empty': False, ov: True})]
  res = abspaths.decide_states(paths, classify, states)
  for what, o in res.items():
    if o.status == 'unknown':
      rep.undecided('R1/construction', 'TBRMMDesign rejects %s' % what,
                    'a normal-exit path of __post_init__ is compatible with %s groups but carries tests that are not understood (%s)' % (what, '; '.join(o.unknown)[:120]), f.loc())
      continue
    rep.check(o.status == 'rejected', 'R1/construction', 'TBRMMDesign rejects %s' % what, f.qualname, 'guard: ' + what,
              'TBRMMDesign.__post_init__ accepts %s groups: the constructor returns normally on the path where %s' % (what, o.path_text), f.loc())


def r2_generators(repo, rep):
  cls = repo.cls(MM)
  ft = cls.methods.get('treatment_group_generator')
  fc = cls.methods.get('control_group_generator')
  if ft is None or fc is None:
    raise Undecided('group generators vanished')
  rep.fn(ft)
  rep.fn(fc)
  n_y = 0
  # treatment generator
  for node, y in _yields(ft):
    n_y += 1
    sc = SetCtx(repo, ft)
    sc.guard_hypotheses(node)
    T = sc.ev(node, y.value)
    E = sc.env
    for clause, phi in (('T->t', E.implies(T, sc.cls['t'])), ('t_fixed->T', E.implies(sc.cls['t_fixed'], T))):
      prove(rep, sc, 'R2/generator', 'treatment_group_generator yield `%s`: %s' % (norm(y.value)[:40], clause), phi, ft,
            'yield %s |= %s' % (norm(dataflow.Reaching(sc.g).expand(node, y.value)[0])[:100], clause),
            'treatment_group_generator yields a set violating %s (a treatment geo not eligible for treatment, or a geo fixed to treatment left out)' % clause, node)
  # control generator, under the treatment generator's post-conditions for its argument
  tp = fc.params[1]
  for node, y in _yields(fc):
    n_y += 1
    sc = SetCtx(repo, fc)
    E = sc.env
    T = sc.atom('param:' + tp)
    sc.assume(E.implies(sc.cls['t_fixed'], T))       # guaranteed by R2 for every T the search passes in
    sc.guard_hypotheses(node)                         # T - A.t empty  =>  T -> t
    C = sc.ev(node, y.value)
    cl = sc.cls
    obligations = (('C->c', E.implies(C, cl['c'])), ('c_fixed->C', E.implies(cl['c_fixed'], C)), ('not(C&T)', E.neg(C & T)),
                   ('ct->(T|C)', E.implies(cl['ct'], T | C)), ('T->t', E.implies(T, cl['t'])), ('x_fixed->not(T|C)', E.implies(cl['x_fixed'], E.neg(T | C))))
    for clause, phi in obligations:
      prove(rep, sc, 'R2/generator', 'control_group_generator yield `%s`: %s' % (norm(y.value)[:40], clause), phi, fc,
            'yield %s |= %s' % (norm(sc.rd.expand(node, y.value, keep=(tp,))[0])[:120], clause),
            'control_group_generator yields a control group violating %s' % clause, node)
  rep.floor('generator yields analysed', n_y, 4)


def inv(E, cl, C, T):
  return {
      'C->c': E.implies(C, cl['c']), 'c_fixed->C': E.implies(cl['c_fixed'], C), 'not(C&T)': E.neg(C & T),
      'T->t': E.implies(T, cl['t']), 't_fixed->T': E.implies(cl['t_fixed'], T), 'ct->(T|C)': E.implies(cl['ct'], T | C)}


def r3_greedy(repo, rep):
  view = search.SearchView(repo, 'greedy_search')
  f, g, rd = view.f, view.g, view.rd
  rep.fn(f)
  if not view.pushed or view.pushed[0].T is None:
    rep.undecided('R3/greedy', 'greedy_search', 'no pushed design', f.loc())
    return
  P_ = view.pushed[0]
  mT = re.fullmatch(r'(\w+)\[(\w+)\]', norm(P_.T))
  mC = re.fullmatch(r'(\w+)\[(\w+)\]', norm(P_.C))
  if not (mT and mC and mT.group(2) == mC.group(2)):
    rep.violation('R3/greedy', f.qualname, 'TBRMMDesign(%s, %s)' % (norm(P_.T), norm(P_.C)),
                  'the pushed treatment and control groups (%s, %s) are not the entries of the two per-size tables under the same key' % (norm(P_.T), norm(P_.C)),
                  f.loc(P_.ctor)) if (mT and mC) else rep.undecided('R3/greedy', 'greedy push', 'pushed groups are not table entries', f.loc(P_.ctor))
    return
  dT, dC, key = mT.group(1), mC.group(1), mT.group(2)
  rep.ok('R3/greedy', 'pushed pair is (%s[%s], %s[%s]): same key' % (dT, key, dC, key), loc=f.loc(P_.ctor))
  # tracked variables: everything that flows into the two tables
  tracked_T, tracked_C = {dT}, {dC}
  stores = []     # (node, target_text, value, which)
  changed = True
  assigns = [n for n in g.nodes if n.kind == 'stmt' and isinstance(n.ast, ast.Assign) and len(n.ast.targets) == 1]
  while changed:
    changed = False
    for n in assigns:
      t, v = n.ast.targets[0], n.ast.value
      base = t.value.id if isinstance(t, ast.Subscript) and isinstance(t.value, ast.Name) else (t.id if isinstance(t, ast.Name) else None)
      if base is None:
        continue
      for tr in (tracked_T, tracked_C):
        if base in tr:
          for x in ast.walk(v):
            if isinstance(x, ast.Name) and x.id not in tr and x.id not in ('self', 'set', 'k', key) and not isinstance(getattr(x, '_parent', None), ast.Call):
              pass
          srcs = [x.id for x in ast.walk(v) if isinstance(x, ast.Name) and isinstance(x.ctx, ast.Load)]
          if isinstance(v, ast.Name) and v.id not in tr:
            tr.add(v.id)
            changed = True
          elif isinstance(v, ast.Subscript) and isinstance(v.value, ast.Name) and v.value.id not in tr:
            tr.add(v.value.id)
            changed = True
  rep.extra['greedy_tracked'] = {'treatment': sorted(tracked_T), 'control': sorted(tracked_C)}
  n_moves = 0
  sym_T = 'T0'
  for n in assigns:
    t, v = n.ast.targets[0], n.ast.value
    base = t.value.id if isinstance(t, ast.Subscript) and isinstance(t.value, ast.Name) else (t.id if isinstance(t, ast.Name) else None)
    which = 'T' if base in tracked_T else ('C' if base in tracked_C else None)
    if which is None:
      continue
    # dict literal initialisation {k0: expr}
    vals = [v]
    if isinstance(v, ast.Dict):
      vals = list(v.values)
      if not vals:
        rep.ok('R3/greedy', '%s = {} (empty table)' % norm(t), loc=f.loc(n.ast), nontrivial=False)
        continue
    for val in vals:
      kind = classify_store(repo, rep, view, n, norm(t), val, which, tracked_T, tracked_C)
      if kind in ('toggle', 'augment', 'init'):
        n_moves += 1
  rep.floor('greedy moves/initialisations proved', n_moves, 3)
  # atomic replacement of the (C,T) pair in the treatment step
  pairs = [(n, norm(n.ast.targets[0])) for n in assigns if isinstance(n.ast.targets[0], ast.Name) and
           (n.ast.targets[0].id in tracked_T or n.ast.targets[0].id in tracked_C)]
  for n, nm in pairs:
    val = n.ast.value
    if isinstance(val, ast.Name):
      d = rd.single_def(n, val.id)
      if d is not None and d.how == 'assign' and _move_kind(view, d.node, d.value) == 'augment-T':
        # the matching control store must be in the same straight-line block
        mate = [m for m, nm2 in pairs if m is not n and isinstance(m.ast.value, ast.Name) and rd.single_def(m, m.ast.value.id) is not None
                and _move_kind(view, rd.single_def(m, m.ast.value.id).node, rd.single_def(m, m.ast.value.id).value) == 'augment-C']
        same_block = any(g.path_avoiding(a, lambda z, b=b: z is b, lambda z: z.kind in ('test', 'for'), cfgmod.no_exc) is not None
                         for a in [n] + mate for b in [n] + mate if a is not b)
        rep.check(bool(mate) and same_block, 'R3/greedy', 'augmented treatment and reduced control are stored together (atomic pair)', f.qualname,
                  norm(n.ast), 'the augmented treatment group is stored without its matching control group in the same block: the pair (C,T) can become inconsistent (overlap)', f.loc(n.ast))


def _move_kind(view, node, val):
  """Syntactic kind of a move expression."""
  t = norm(val)
  if isinstance(val, ast.Call) and isinstance(val.func, ast.Attribute) and val.func.attr == 'symmetric_difference':
    return 'toggle'
  if isinstance(val, ast.BinOp) and isinstance(val.op, ast.BitXor):
    return 'toggle'
  if isinstance(val, ast.Call) and isinstance(val.func, ast.Attribute) and val.func.attr == 'union':
    return 'augment-T'
  if isinstance(val, ast.BinOp) and isinstance(val.op, ast.BitOr):
    return 'augment-T'
  if isinstance(val, ast.BinOp) and isinstance(val.op, ast.Sub):
    return 'augment-C'
  if isinstance(val, ast.Call) and isinstance(val.func, ast.Attribute) and val.func.attr == 'difference':
    return 'augment-C'
  return None


def classify_store(repo, rep, view, n, target, val, which, tracked_T, tracked_C):
  """Prove that a store into a tracked group variable keeps Inv."""
  f, g, rd = view.f, view.g, view.rd
  tr = tracked_T if which == 'T' else tracked_C
  # copies of tracked variables of the same role
  if isinstance(val, ast.Name) and val.id in tr:
    d = rd.single_def(n, val.id)
    if d is not None and d.how == 'assign' and _move_kind(view, d.node, d.value):
      return classify_store(repo, rep, view, d.node, target, d.value, which, tracked_T, tracked_C)
    rep.ok('R3/greedy', '%s = %s: copy of a tracked %s group' % (target, val.id, which), loc=f.loc(n.ast), nontrivial=False)
    return 'copy'
  if isinstance(val, ast.Subscript) and isinstance(val.value, ast.Name) and val.value.id in tr:
    rep.ok('R3/greedy', '%s = %s: copy of a tracked %s group' % (target, norm(val), which), loc=f.loc(n.ast), nontrivial=False)
    return 'copy'
  sc = SetCtx(repo, f)
  E, cl = sc.env, sc.cls
  vt = norm(val)
  m = re.fullmatch(r'self\.geo_assignments\.(\w+)', vt)
  if m:
    # initial values: C0 = A.c, T0 = A.t_fixed  -> Inv(C0, T0)
    C0, T0 = cl['c'], cl['t_fixed']
    mine = cl.get(m.group(1))
    want = C0 if which == 'C' else T0
    okinit = mine == want
    allok = okinit
    for clause, phi in inv(E, cl, C0 if which == 'T' else mine, mine if which == 'T' else T0).items():
      okc = E.valid(phi, sc.hyp)
      allok = allok and okc
      rep.check(okc, 'R3/greedy', 'initial %s group %s: %s' % (which, vt, clause), f.qualname, '%s = %s |= %s' % (target, vt, clause),
                'the initial %s group %s breaks %s; falsifying geo: %s' % (which, vt, clause, sc.describe(E.witness(phi, sc.hyp)) if not okc else ''), f.loc(n.ast))
    return 'init'
  kind = _move_kind(view, n, val)
  if kind == 'toggle' and which == 'C':
    # C' = C xor {geo}, geo in reassignable(C, T)
    recv = val.func.value if isinstance(val, ast.Call) else val.left
    arg = val.args[0] if isinstance(val, ast.Call) else val.right
    Cname = norm(recv)
    C = sc.atom('var:' + Cname)
    # the treatment group used in the definition of the candidates
    Ttxt = None
    gname = [x.id for x in ast.walk(arg) if isinstance(x, ast.Name)]
    if len(gname) != 1:
      rep.undecided('R3/greedy', 'toggle %s' % vt, 'toggled element not a single loop variable', f.loc(n.ast))
      return None
    d = rd.single_def(n, gname[0])
    if d is None or d.how != 'iter':
      rep.undecided('R3/greedy', 'toggle %s' % vt, '%s is not a loop variable' % gname[0], f.loc(n.ast))
      return None
    cand_expr = rd.expand(d.node, d.value)[0]
    subs = sorted({norm(x) for x in ast.walk(cand_expr) if isinstance(x, ast.Subscript) and isinstance(x.value, ast.Name) and x.value.id in tracked_T})
    if len(subs) != 1:
      rep.undecided('R3/greedy', 'toggle %s' % vt, 'candidate set refers to %d treatment expressions' % len(subs), f.loc(n.ast))
      return None
    T = sc.atom('var:' + subs[0])
    if Cname not in {norm(x) for x in ast.walk(cand_expr)}:
      rep.violation('R3/greedy', f.qualname, '%s vs candidates %s' % (vt, norm(cand_expr)[:80]),
                    'the control group being toggled (%s) is not the one the candidate geos were computed from' % Cname, f.loc(n.ast))
      return None
    for phi in inv(E, cl, C, T).values():
      sc.assume(phi)
    isg = sc.elem_atom(n, gname[0])
    Cn = C ^ isg
    allok = True
    for clause, phi in inv(E, cl, Cn, T).items():
      okc = E.valid(phi, sc.hyp)
      allok = allok and okc
      rep.check(okc, 'R3/greedy', 'control toggle keeps %s' % clause, f.qualname, 'toggle %s with candidates %s |= %s' % (vt, norm(cand_expr)[:120], clause),
                'toggling a candidate geo (candidates: %s) in the control group breaks %s; falsifying geo: %s'
                % (norm(cand_expr)[:100], clause, sc.describe(E.witness(phi, sc.hyp)) if not okc else ''), f.loc(n.ast))
    return 'toggle'
  if kind in ('augment-T', 'augment-C'):
    # T' = T | {geo}, C' = C* - {geo}, geo in t - T : prove Inv(C', T') jointly at the T' store
    if kind == 'augment-C':
      rep.ok('R3/greedy', '%s = %s: reduced control of the augmentation move (proved with its treatment store)' % (target, vt), loc=f.loc(n.ast), nontrivial=False)
      return 'augment-c'
    recv = val.func.value if isinstance(val, ast.Call) else val.left
    arg = val.args[0] if isinstance(val, ast.Call) else val.right
    gname = [x.id for x in ast.walk(arg) if isinstance(x, ast.Name) and x.id != 'set']
    if len(gname) != 1:
      rep.undecided('R3/greedy', 'augment %s' % vt, 'added element not a single loop variable', f.loc(n.ast))
      return None
    Tn0 = norm(recv)
    T = sc.atom('var:' + Tn0)
    # the reduced control group defined in the same loop body from the same geo
    loop = view.loop_binding(n, gname[0])
    mate = None
    for m_ in g.loop_body_nodes(loop) if loop is not None else []:
      if m_.kind == 'stmt' and isinstance(m_.ast, ast.Assign) and _move_kind(view, m_, m_.ast.value) == 'augment-C' \
          and gname[0] in {x.id for x in ast.walk(m_.ast.value) if isinstance(x, ast.Name)}:
        mate = m_
    if mate is None:
      rep.violation('R3/greedy', f.qualname, vt, 'the geo added to treatment (%s) is not removed from the control group in the same step: the groups can overlap' % gname[0], f.loc(n.ast))
      return None
    cval = mate.ast.value
    crecv = cval.func.value if isinstance(cval, ast.Call) else cval.left
    C = sc.atom('var:' + norm(crecv))
    for phi in inv(E, cl, C, T).values():
      sc.assume(phi)
    isg = sc.elem_atom(n, gname[0], bind={Tn0: T})
    Tn = sc.ev(n, val, bind={Tn0: T})
    Cn = sc.ev(mate, cval, bind={norm(crecv): C})
    d = rd.single_def(n, gname[0])
    cand = norm(rd.expand(d.node, d.value)[0]) if d is not None else '?'
    for clause, phi in inv(E, cl, Cn, Tn).items():
      okc = E.valid(phi, sc.hyp)
      rep.check(okc, 'R3/greedy', 'treatment addition keeps %s' % clause, f.qualname, 'T|{g}, C-{g} with g in %s |= %s' % (cand[:100], clause),
                'adding a candidate geo (candidates: %s) to treatment and removing it from control breaks %s; falsifying geo: %s'
                % (cand[:100], clause, sc.describe(E.witness(phi, sc.hyp)) if not okc else ''), f.loc(n.ast))
    return 'augment'
  rep.undecided('R3/greedy', 'store %s = %s' % (target, vt[:60]), 'not a copy, an initial class or a recognised move', f.loc(n.ast))
  return None


def r4_admitted(repo, rep):
  cls = repo.cls(MM)
  f = cls.getters.get('geos_within_constraints')
  if f is None:
    raise Undecided('geos_within_constraints vanished')
  rep.fn(f)
  ctx = FuncCtx.of(f)
  g, rd = ctx.g, ctx.rd
  env = boolset.Env(['assignable', 'must', 'large', 'over', 'rank', 'u1', 'u2'])
  A, M = env.atom('assignable'), env.atom('must')
  # must-include geos are assignable (all - x  subset of  all - x_fixed): checked on the class algebra below
  hyp = env.implies(M, A)
  choice = iter(['u1', 'u2'])

  def ev(node, e):
    def lookup(x):
      t = norm(x)
      table = {'self.data.assignable': A, 'self.geos_must_include': M, 'self.geos_too_large': env.atom('large'),
               'self.geos_over_budget': env.atom('over')}
      if t in table:
        return table[t]
      if isinstance(x, ast.Name):
        ds = rd.defs_at(node, x.id)
        if len(ds) == 1:
          d = next(iter(ds))
          if d.how == 'assign' and d.value is not None:
            return ev(d.node, d.value)
        raise Undecided('set variable %s has %d reaching definitions' % (x.id, len(ds)))
      if isinstance(x, ast.Call) and re.search(r'sort_values\(.*\)\.index$|geo_req_impact\.index$', norm(x.args[0]) if (isinstance(x.func, ast.Name) and x.args) else norm(x)):
        return env.atom('rank')
      if isinstance(x, ast.Attribute) and t.endswith('.index'):
        return env.atom('rank')
      if isinstance(x, ast.Subscript) and isinstance(x.slice, ast.Slice):
        return env.atom(next(choice)) & ev(node, x.value)
      if isinstance(x, (ast.ListComp, ast.GeneratorExp, ast.SetComp)) and len(x.generators) == 1:
        gen = x.generators[0]
        if norm(x.elt) != norm(gen.target):
          raise Undecided('comprehension maps its elements: %s' % norm(x))
        m = ev(node, gen.iter)
        for cond in gen.ifs:
          m &= member(node, cond, norm(gen.target))
        return m
      return None
    return boolset.eval_set(env, e, lookup)

  def member(node, cond, var):
    if isinstance(cond, ast.BoolOp):
      ms = [member(node, v, var) for v in cond.values]
      acc = ms[0]
      for m in ms[1:]:
        acc = (acc & m) if isinstance(cond.op, ast.And) else (acc | m)
      return acc
    if isinstance(cond, ast.UnaryOp) and isinstance(cond.op, ast.Not):
      return env.neg(member(node, cond.operand, var))
    if isinstance(cond, ast.Compare) and len(cond.ops) == 1 and norm(cond.left) == var and isinstance(cond.ops[0], (ast.In, ast.NotIn)):
      m = ev(node, cond.comparators[0])
      return m if isinstance(cond.ops[0], ast.In) else env.neg(m)
    raise Undecided('filter condition not understood: %s' % norm(cond))

  rets = [n for n in g.nodes if n.kind == 'return' and n.ast.value is not None]
  n_paths = 0
  # evaluate the returned variable separately under each reaching definition (= each return path)
  for r in rets:
    v = r.ast.value
    if not isinstance(v, ast.Name):
      cases = [(r, v)]
    else:
      cases = [(d.node, d.value) for d in rd.defs_at(r, v.id) if d.how == 'assign' and d.value is not None]
    for node, val in cases:
      n_paths += 1
      try:
        res = ev(node, val)
      except Undecided as e:
        rep.undecided('R4/admitted', 'geos_within_constraints: %s' % norm(val)[:60], str(e), f.loc(node.ast))
        continue
      for clause, phi, msg in (
          ('must_include -> admitted', env.implies(M, res), 'a geo that must be included can be dropped from the admitted set, so designs are returned without it'),
          ('admitted -> assignable or must_include', env.implies(res, A | M), 'a geo that is neither assignable nor must-include can be admitted')):
        ok = env.valid(phi, hyp)
        rep.check(ok, 'R4/admitted', 'geos_within_constraints via `%s`: %s' % (norm(val)[:50], clause), f.qualname, '%s |= %s' % (norm(val)[:120], clause),
                  'on the return path through `%s`: %s; falsifying geo: %s' % (norm(val)[:80], msg, env.witness(phi, hyp) if not ok else ''), f.loc(node.ast))
  rep.floor('return paths of geos_within_constraints', n_paths, 2)
  # class algebra facts: must_include = all - x ; assignable = all - x_fixed ; must -> assignable ; assignable & x_fixed = 0
  from mmsa.props import c16
  env3, fields, _ = c16.class_functions(repo)
  gm = cls.getters.get('geos_must_include')
  if gm is None:
    raise Undecided('geos_must_include vanished')
  rep.fn(gm)
  rets = [s for s in walk_no_nested(gm.node) if isinstance(s, ast.Return) and s.value is not None]
  mctx = FuncCtx.of(gm)
  for s in rets:
    t = norm(mctx.rd.expand(mctx.node_at(s), s.value)[0])
    t2 = re.sub(r'self\.data\.geo_eligibility\.get_eligible_assignments\(\)', 'GA', t)
    try:
      m = boolset.eval_set(env3, ast.parse(t2, mode='eval').body,
                           lambda x: fields.get(x.attr) if isinstance(x, ast.Attribute) and norm(x.value) == 'GA' else None)
    except Undecided as e:
      rep.undecided('R4/admitted', 'geos_must_include', str(e), gm.loc(s))
      continue
    want = fields['all'] & env3.neg(fields['x'])
    rep.check(m == want, 'R4/admitted', 'must-include = geos whose row forbids exclusion (all - x)', gm.qualname, t[:120],
              'geos_must_include is `%s`, not the geos whose eligibility row forbids exclusion (rows %s instead of %s)'
              % (t[:80], sorted(env3.table(m)), sorted(env3.table(want))), gm.loc(s))
  dcls = repo.cls('tbrmmdata.TBRMMData')
  di = dcls.methods['__init__']
  dctx = FuncCtx.of(di)
  rep.fn(di)
  st = [n for n in dctx.g.nodes if n.kind == 'stmt' and isinstance(n.ast, ast.Assign) and any(norm(t) == 'self.assignable' for t in n.ast.targets)]
  if len(st) != 1:
    rep.undecided('R4/admitted', 'TBRMMData.assignable', 'expected one store', di.loc())
  else:
    t = norm(dctx.rd.expand(st[0], st[0].ast.value, keep=('geo_assignments',))[0])
    try:
      m = boolset.eval_set(env3, ast.parse(t, mode='eval').body,
                           lambda x: fields.get(x.attr) if isinstance(x, ast.Attribute) and norm(x.value) == 'geo_assignments' else None)
      want = fields['all'] & env3.neg(fields['x_fixed'])
      rep.check(m == want, 'R4/admitted', 'assignable = all - x_fixed (a geo that must be excluded is never assignable)', di.qualname, t[:120],
                'TBRMMData.assignable is `%s`: rows %s instead of %s — a must-exclude geo can be admitted or an eligible geo is lost'
                % (t[:80], sorted(env3.table(m)), sorted(env3.table(want))), di.loc(st[0].ast))
    except Undecided as e:
      rep.undecided('R4/admitted', 'TBRMMData.assignable', str(e), di.loc(st[0].ast))
  # geo_index is a filter of an ordered sequence by membership in the admitted set
  ga = cls.getters.get('geo_assignments')
  gctx = FuncCtx.of(ga)
  inst = [n for n in gctx.g.nodes if n.kind == 'stmt' and isinstance(n.ast, ast.Assign) and any(norm(t) == 'self.data.geo_index' for t in n.ast.targets)]
  for n in inst:
    t = gctx.rd.expand(n, n.ast.value)[0]
    ok = isinstance(t, ast.ListComp) and len(t.generators) == 1 and norm(t.elt) == norm(t.generators[0].target) and \
        any(norm(c) == '%s in self.geos_within_constraints' % norm(t.elt) for c in t.generators[0].ifs)
    rep.check(ok, 'R4/admitted', 'installed geo index = ordered sequence filtered by the admitted set', ga.qualname, norm(t)[:140],
              'the installed geo index `%s` is not a filter of the ranking by membership in geos_within_constraints: geos outside the admitted set enter the search'
              % norm(t)[:100], ga.loc(n.ast))


def r5_ids(repo, rep):
  cls = repo.cls(MM)
  f = cls.methods.get('search_results')
  if f is None:
    raise Undecided('search_results vanished')
  rep.fn(f)
  ctx = FuncCtx.of(f)
  g, rd = ctx.g, ctx.rd
  loops = [n for n in g.nodes if n.kind == 'for']
  n_ok = 0
  for loop in loops:
    d = norm(loop.ast.target)
    for n in g.loop_body_nodes(loop):
      if n.kind != 'stmt':
        continue
      for call in au.calls_in(n.ast):
        fields = {}
        if norm(call.func) == 'dataclasses.replace' and call.args and norm(call.args[0]) == d:
          fields = {k.arg: k.value for k in call.keywords}
        elif norm(call.func).endswith('TBRMMDesign'):
          for i, a in enumerate(call.args):
            fields[search.DESIGN_FIELDS[i]] = a
          fields.update({k.arg: k.value for k in call.keywords})
        for fld in ('treatment_geos', 'control_geos'):
          if fld in fields:
            t = rd.expand(n, fields[fld])[0]
            ok = isinstance(t, (ast.SetComp, ast.ListComp)) and len(t.generators) == 1 and norm(t.generators[0].iter) == '%s.%s' % (d, fld) \
                and norm(t.elt) == 'self.data.geo_index[%s]' % norm(t.generators[0].target) and not t.generators[0].ifs
            n_ok += 1
            rep.check(ok, 'R5/index-to-id', '%s IDs are geo_index[i] for i in the design\'s %s' % (fld, fld), f.qualname, '%s=%s' % (fld, norm(t)[:120]),
                      'the reported %s are `%s`, not the installed geo index applied to the design\'s own %s (groups swapped, filtered or mapped through another index)'
                      % (fld, norm(t)[:100], fld), f.loc(call))
      # legacy in-place form d.treatment_geos = ...
      if isinstance(n.ast, ast.Assign) and isinstance(n.ast.targets[0], ast.Attribute) and norm(n.ast.targets[0].value) == d \
          and n.ast.targets[0].attr in ('treatment_geos', 'control_geos'):
        fld = n.ast.targets[0].attr
        t = rd.expand(n, n.ast.value)[0]
        ok = isinstance(t, (ast.SetComp, ast.ListComp)) and len(t.generators) == 1 and norm(t.generators[0].iter) == '%s.%s' % (d, fld) \
            and norm(t.elt) == 'self.data.geo_index[%s]' % norm(t.generators[0].target)
        n_ok += 1
        rep.check(ok, 'R5/index-to-id', '%s IDs are geo_index[i] for i in the design\'s %s' % (fld, fld), f.qualname, norm(n.ast)[:120],
                  'the reported %s are `%s`, not the installed geo index applied to the design\'s own %s' % (fld, norm(t)[:100], fld), f.loc(n.ast))
  rep.floor('index-to-ID mappings in search_results', n_ok, 2)


def run(repo, rep, tier):
  r1_construction(repo, rep)
  r2_generators(repo, rep)
  r3_greedy(repo, rep)
  r4_admitted(repo, rep)
  r5_ids(repo, rep)
  from mmsa.props import c10
  sub = type(rep)(rep.prop, rep.tier, rep.repo)
  c10.r2_queries(repo, sub)
  for i in sub.instances:
    if i.rule == 'R2/index-install':
      i.rule = 'R1e/index-install'
      rep.instances.append(i)
  # a geo that may not be excluded must not be dropped silently when it is missing from the data (C15.R2)
  from mmsa.props import c15
  sub = type(rep)(rep.prop, rep.tier, rep.repo)
  c15.r1_r2_init(repo, sub)
  for i in sub.instances:
    if i.rule == 'R2/reconciliation':
      i.rule = 'R4/reconciliation'
      rep.instances.append(i)
  # the index sets the generators work on are the eligibility classes of the installed geo order: the index setter must
  # build the assignments from its argument, in its order (C04.R4 / C15.R3); an index i that carries another geo's
  # eligibility row makes every generator place geos illegally
  from mmsa.props import c04
  sub = type(rep)(rep.prop, rep.tier, rep.repo)
  c04.r4_data_object(repo, sub)
  for i in sub.instances:
    if i.rule == 'R4/single-source' and ('geo_assignments' in (i.subject or '') or 'geo_assignments' in (i.construct or '') or 'geo_assignments' in (i.detail or '')):
      i.rule = 'R1e/assignments-of-installed-order'
      rep.instances.append(i)
  # the index classes themselves come from GeoEligibility.get_eligible_assignments(geos, indices=True): positions must refer
  # to the given order and each class to the rows its name says (C16.R3); a fast path that answers in table order puts
  # every eligibility class on the wrong geo
  from mmsa.props import c16
  sub = type(rep)(rep.prop, rep.tier, rep.repo)
  try:
    c16.r3_selection(repo, sub)
  except Undecided as ex_:
    sub.undecided('R3/selection', 'get_eligible_assignments', str(ex_), '')
  for i in sub.instances:
    if i.rule == 'R3/selection':
      i.rule = 'R1e/index-classes'
      rep.instances.append(i)
  rep.assume('the eligibility table has no all-zero row and distinct IDs (C16); cardinalities are abstracted')
