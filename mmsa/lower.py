"""Lowering of comprehension forms to the loop forms the path rules are written for (applied to a fixed set of anchors):
  return [E for T in IT if C]      ->  acc = []; for T in IT: if C: acc.append(E); return acc
  X = [E for T in IT if C]         ->  X = [];   for T in IT: if C: X.append(E)
  return any(P for T in IT)        ->  for T in IT: if P: return True;  return False
  return all(P for T in IT)        ->  for T in IT: if not P: return False;  return True
  for K, V in D.items(): BODY      ->  for K in D: V = D[K]; BODY          (D a local name)
"""
import ast

from mmsa import core, dataflow
from mmsa.core import dotted, norm

LOWERED_ANCHORS = (
    'tbrmatchedmarkets.TBRMatchedMarkets.greedy_search',
    'tbrmatchedmarkets.TBRMatchedMarkets.search_results',
    'tbrmatchedmarkets.TBRMatchedMarkets.exhaustive_search.<locals>.skip_if_subset',
)


def _loop(gen, inner, like):
  body = inner
  for c in reversed(gen.ifs):
    body = [ast.If(test=c, body=body, orelse=[])]
  return ast.For(target=gen.target, iter=gen.iter, body=body, orelse=[], lineno=like.lineno, col_offset=like.col_offset)


def _lower_stmt(st, counter):
  v = getattr(st, 'value', None)
  if isinstance(st, (ast.Return, ast.Assign)) and isinstance(v, ast.ListComp) and len(v.generators) == 1 and not v.generators[0].is_async:
    if isinstance(st, ast.Assign):
      if len(st.targets) != 1 or not isinstance(st.targets[0], ast.Name):
        return None
      acc = st.targets[0].id
    else:
      counter[0] += 1
      acc = 'acc__l%d' % counter[0]
    init = ast.Assign(targets=[ast.Name(id=acc, ctx=ast.Store())], value=ast.List(elts=[], ctx=ast.Load()), lineno=st.lineno, col_offset=st.col_offset)
    app = ast.Expr(value=ast.Call(func=ast.Attribute(value=ast.Name(id=acc, ctx=ast.Load()), attr='append', ctx=ast.Load()),
                                  args=[v.elt], keywords=[]), lineno=getattr(v.elt, 'lineno', st.lineno), col_offset=st.col_offset)
    out = [init, _loop(v.generators[0], [app], st)]
    if isinstance(st, ast.Return):
      out.append(ast.Return(value=ast.Name(id=acc, ctx=ast.Load()), lineno=st.lineno, col_offset=st.col_offset))
    return out
  if isinstance(st, ast.Return) and isinstance(v, ast.Call) and isinstance(v.func, ast.Name) and v.func.id in ('any', 'all') \
      and len(v.args) == 1 and not v.keywords and isinstance(v.args[0], (ast.GeneratorExp, ast.ListComp)) and len(v.args[0].generators) == 1:
    ge = v.args[0]
    is_any = v.func.id == 'any'
    test = ge.elt if is_any else ast.UnaryOp(op=ast.Not(), operand=ge.elt)
    hit = ast.Return(value=ast.Constant(value=is_any), lineno=st.lineno, col_offset=st.col_offset)
    cond = ast.If(test=test, body=[hit], orelse=[], lineno=getattr(ge.elt, 'lineno', st.lineno), col_offset=st.col_offset)
    return [_loop(ge.generators[0], [cond], st), ast.Return(value=ast.Constant(value=not is_any), lineno=st.lineno, col_offset=st.col_offset)]
  if isinstance(st, ast.For) and isinstance(st.target, ast.Tuple) and len(st.target.elts) == 2 \
      and all(isinstance(x, ast.Name) for x in st.target.elts) and isinstance(st.iter, ast.Call) and not st.iter.args \
      and isinstance(st.iter.func, ast.Attribute) and st.iter.func.attr == 'items' and isinstance(st.iter.func.value, ast.Name):
    kname, vname = st.target.elts
    dname = st.iter.func.value
    bind = ast.Assign(targets=[ast.Name(id=vname.id, ctx=ast.Store())],
                      value=ast.Subscript(value=ast.Name(id=dname.id, ctx=ast.Load()), slice=ast.Name(id=kname.id, ctx=ast.Load()), ctx=ast.Load()),
                      lineno=st.lineno, col_offset=st.col_offset)
    st.target = ast.Name(id=kname.id, ctx=ast.Store())
    st.iter = ast.Name(id=dname.id, ctx=ast.Load())
    st.body = [bind] + st.body
    return [st]
  return None


def lower_function(f):
  """Lower in place (on a clone); returns True when something changed."""
  node = dataflow.clone(f.node)
  counter = [0]
  changed = [False]

  def block(stmts):
    out = []
    for st in stmts:
      if isinstance(st, (ast.FunctionDef, ast.AsyncFunctionDef, ast.ClassDef)):
        out.append(st)
        continue
      for fld in ('body', 'orelse', 'finalbody'):
        if hasattr(st, fld) and isinstance(getattr(st, fld), list):
          setattr(st, fld, block(getattr(st, fld)))
      if isinstance(st, ast.Try):
        for hd in st.handlers:
          hd.body = block(hd.body)
      low = _lower_stmt(st, counter)
      if low is None:
        out.append(st)
      else:
        changed[0] = True
        out += low
    return out
  node.body = block(node.body)
  if not changed[0]:
    return False
  ast.fix_missing_locations(node)
  for n in ast.walk(node):
    for ch in ast.iter_child_nodes(n):
      ch._parent = n
  node._parent = getattr(f.node, '_parent', None)
  if not hasattr(f, 'orig_node'):
    f.orig_node = f.node
  f.node = node
  tmp = core.FuncInfo(f.module, node, f.cls, f.kind, f.outer)
  f.nested = tmp.nested
  for g in f.nested.values():
    g.outer = f
  return True


def canonical_iteration_forms(f):
  """Applied to every function; brings three equivalent spellings to the form the pinned code uses:
     X = []; for T in IT: [if C:] X.append(E)     ->  X = [E for T in IT if C]
     for V in IT: yield V                          ->  yield from IT
     yield from (E for T in IT if C)               ->  for T in IT: [if C:] yield E
  Returns True when something changed (f.node must be a private clone)."""
  node = f.node
  changed = [False]

  def append_loop(init, loop):
    if not (isinstance(init, ast.Assign) and len(init.targets) == 1 and isinstance(init.targets[0], ast.Name)):
      return None
    v0 = init.value
    if isinstance(v0, ast.List) and not v0.elts:
      method = 'append'
    elif isinstance(v0, ast.Call) and isinstance(v0.func, ast.Name) and v0.func.id == 'list' and not v0.args and not v0.keywords:
      method = 'append'
    elif isinstance(v0, ast.Call) and isinstance(v0.func, ast.Name) and v0.func.id == 'set' and not v0.args and not v0.keywords:
      method = 'add'
    else:
      return None
    x = init.targets[0].id
    if not (isinstance(loop, ast.For) and not loop.orelse and len(loop.body) == 1):
      return None
    inner, conds = loop.body[0], []
    while isinstance(inner, ast.If) and not inner.orelse and len(inner.body) == 1:
      conds.append(inner.test)
      inner = inner.body[0]
    if not (isinstance(inner, ast.Expr) and isinstance(inner.value, ast.Call) and isinstance(inner.value.func, ast.Attribute)
            and inner.value.func.attr == method and isinstance(inner.value.func.value, ast.Name) and inner.value.func.value.id == x
            and len(inner.value.args) == 1 and not inner.value.keywords):
      return None
    elt = inner.value.args[0]
    if any(isinstance(n, ast.Name) and n.id == x for e in [elt, loop.iter] + conds for n in ast.walk(e)):
      return None
    if method == 'add':
      if not conds and isinstance(elt, ast.Name) and isinstance(loop.target, ast.Name) and elt.id == loop.target.id:
        comp = ast.Call(func=ast.Name(id='set', ctx=ast.Load()), args=[loop.iter], keywords=[])      # set(IT)
      else:
        comp = ast.SetComp(elt=elt, generators=[ast.comprehension(target=loop.target, iter=loop.iter, ifs=conds, is_async=0)])
      return ast.Assign(targets=[ast.Name(id=x, ctx=ast.Store())], value=comp, lineno=init.lineno, col_offset=init.col_offset)
    comp = ast.ListComp(elt=elt, generators=[ast.comprehension(target=loop.target, iter=loop.iter, ifs=conds, is_async=0)])
    return ast.Assign(targets=[ast.Name(id=x, ctx=ast.Store())], value=comp, lineno=init.lineno, col_offset=init.col_offset)

  def flag_loop(init, loop):
    """ok = True; for T in IT: [if P: continue]* ; ok = False; break      ->  ok = all(P1 or P2 .. for T in IT)
       ok = True; for T in IT: if C: ok = False; break                     ->  ok = all(not C for T in IT)
       hit = False; for T in IT: if C: hit = True; break                   ->  hit = any(C for T in IT)
    (the flag is a plain local; the loop has no else; the tests are evaluated in the same order and the iteration stops
    at the same element as the short-circuiting builtin does)."""
    if not (isinstance(init, ast.Assign) and len(init.targets) == 1 and isinstance(init.targets[0], ast.Name)
            and isinstance(init.value, ast.Constant) and isinstance(init.value.value, bool)):
      return None
    if not (isinstance(loop, ast.For) and not loop.orelse and loop.body):
      return None
    x, v0 = init.targets[0].id, init.value.value

    def sets_flag_and_breaks(stmts, val):
      return len(stmts) == 2 and isinstance(stmts[0], ast.Assign) and len(stmts[0].targets) == 1 and isinstance(stmts[0].targets[0], ast.Name) \
          and stmts[0].targets[0].id == x and isinstance(stmts[0].value, ast.Constant) and stmts[0].value.value is val and isinstance(stmts[1], ast.Break)
    names_ok = lambda e: not any(isinstance(n, ast.Name) and n.id == x for n in ast.walk(e)) and not any(isinstance(n, (ast.NamedExpr, ast.Yield, ast.YieldFrom, ast.Await)) for n in ast.walk(e))
    body = loop.body
    cond = None
    # form B / C: a single `if C: flag = <not v0>; break`
    if len(body) == 1 and isinstance(body[0], ast.If) and not body[0].orelse and sets_flag_and_breaks(body[0].body, not v0) and names_ok(body[0].test):
      c = body[0].test
      if v0:      # ok = True ... if C: ok = False; break  -> all(not C)
        cond, fn = (c.operand if isinstance(c, ast.UnaryOp) and isinstance(c.op, ast.Not) else ast.UnaryOp(op=ast.Not(), operand=c)), 'all'
      else:       # hit = False ... if C: hit = True; break -> any(C)
        cond, fn = c, 'any'
    # form A: guard clauses with continue, then flag = False; break
    elif v0 and len(body) >= 3 and sets_flag_and_breaks(body[-2:], False) \
        and all(isinstance(b, ast.If) and not b.orelse and len(b.body) == 1 and isinstance(b.body[0], ast.Continue) and names_ok(b.test) for b in body[:-2]):
      tests = [b.test for b in body[:-2]]
      cond, fn = (tests[0] if len(tests) == 1 else ast.BoolOp(op=ast.Or(), values=tests)), 'all'
    if cond is None or not names_ok(loop.iter):
      return None
    gen = ast.GeneratorExp(elt=cond, generators=[ast.comprehension(target=loop.target, iter=loop.iter, ifs=[], is_async=0)])
    return ast.Assign(targets=[ast.Name(id=x, ctx=ast.Store())], value=ast.Call(func=ast.Name(id=fn, ctx=ast.Load()), args=[gen], keywords=[]),
                      lineno=init.lineno, col_offset=init.col_offset)

  def block(stmts):
    out = []
    i = 0
    while i < len(stmts):
      st = stmts[i]
      if isinstance(st, (ast.FunctionDef, ast.ClassDef, ast.AsyncFunctionDef)):
        out.append(st)
        i += 1
        continue
      for fld in ('body', 'orelse', 'finalbody'):
        if hasattr(st, fld) and isinstance(getattr(st, fld), list):
          setattr(st, fld, block(getattr(st, fld)))
      if isinstance(st, ast.Try):
        for hd in st.handlers:
          hd.body = block(hd.body)
      if i + 1 < len(stmts):
        merged = flag_loop(st, stmts[i + 1])
        # the loop variable must not be read after the loop (the comprehension does not leak it)
        if merged is not None:
          tnames = {n.id for n in ast.walk(stmts[i + 1].target) if isinstance(n, ast.Name)}
          later = any(isinstance(n, ast.Name) and n.id in tnames and isinstance(n.ctx, ast.Load) for s_ in stmts[i + 2:] for n in ast.walk(s_))
          if not later:
            out.append(merged)
            changed[0] = True
            i += 2
            continue
      if i + 1 < len(stmts):
        merged = append_loop(st, stmts[i + 1])
        if merged is not None:
          out.append(merged)
          changed[0] = True
          i += 2
          continue
      if isinstance(st, ast.For) and not st.orelse and len(st.body) == 1 and isinstance(st.body[0], ast.Expr) \
          and isinstance(st.body[0].value, ast.Yield) and isinstance(st.target, ast.Name) \
          and isinstance(st.body[0].value.value, ast.Name) and st.body[0].value.value.id == st.target.id:
        out.append(ast.Expr(value=ast.YieldFrom(value=st.iter), lineno=st.lineno, col_offset=st.col_offset))
        changed[0] = True
        i += 1
        continue
      if isinstance(st, ast.Expr) and isinstance(st.value, ast.YieldFrom) and isinstance(st.value.value, ast.GeneratorExp) \
          and len(st.value.value.generators) == 1:
        ge = st.value.value
        y = ast.Expr(value=ast.Yield(value=ge.elt), lineno=st.lineno, col_offset=st.col_offset)
        out.append(_loop(ge.generators[0], [y], st))
        changed[0] = True
        i += 1
        continue
      out.append(st)
      i += 1
    return out
  node.body = block(node.body)
  if changed[0]:
    ast.fix_missing_locations(node)
    for n in ast.walk(node):
      for ch in ast.iter_child_nodes(n):
        ch._parent = n
  return changed[0]


BOOL_RETURN_ANCHORS = (
    'tbrmatchedmarkets.TBRMatchedMarkets.design_within_constraints',
)


def boolean_returns(f):
  """return E  ->  if E: return True; return False   for predicates whose rules are path rules over Boolean returns
  (E is evaluated once in both forms; the caller only uses the truth value)."""
  node = f.node
  changed = [False]

  def block(stmts):
    out = []
    for st in stmts:
      if isinstance(st, (ast.FunctionDef, ast.ClassDef, ast.AsyncFunctionDef)):
        out.append(st)
        continue
      for fld in ('body', 'orelse', 'finalbody'):
        if hasattr(st, fld) and isinstance(getattr(st, fld), list):
          setattr(st, fld, block(getattr(st, fld)))
      if isinstance(st, ast.Return) and st.value is not None and not (isinstance(st.value, ast.Constant) and isinstance(st.value.value, bool)) \
          and isinstance(st.value, (ast.BoolOp, ast.Compare, ast.UnaryOp, ast.Call, ast.Name)):
        t = ast.Return(value=ast.Constant(value=True), lineno=st.lineno, col_offset=st.col_offset)
        e = ast.Return(value=ast.Constant(value=False), lineno=st.lineno, col_offset=st.col_offset)
        out.append(ast.If(test=st.value, body=[t], orelse=[e], lineno=st.lineno, col_offset=st.col_offset))
        changed[0] = True
        continue
      out.append(st)
    return out
  node.body = block(node.body)
  if changed[0]:
    ast.fix_missing_locations(node)
    for n in ast.walk(node):
      for ch in ast.iter_child_nodes(n):
        ch._parent = n
  return changed[0]


UNROLL_ANCHORS = (
    'tbrmmdesignparameters.TBRMMDesignParameters.__post_init__',
    'tbrmmdesign.TBRMMDesign.__post_init__',
)


def unroll_literal_loops(f, only_data_driven=False):
  """for T in (a, b, c): BODY  ->  BODY[T:=a]; BODY[T:=b]; BODY[T:=c]   (iterable a tuple/list display, possibly named
  by a local assigned once; no break/continue/else; the loop variables are not used after the loop)."""
  from mmsa.core import walk_no_nested
  node = f.node
  changed = [False]

  def literal_of(it):
    if isinstance(it, (ast.Tuple, ast.List)) and not any(isinstance(x, ast.Starred) for x in it.elts):
      return it
    if isinstance(it, ast.Attribute) and isinstance(it.value, ast.Name) and f.cls is not None and it.attr in f.cls.attrs \
        and (it.value.id == f.cls.name or (f.params and it.value.id == f.params[0])):
      v = f.cls.attrs[it.attr]       # class-level table: _derived_fields = ('a', 'b', ...)
      stored = any(isinstance(t, ast.Attribute) and t.attr == it.attr and isinstance(t.ctx, ast.Store)
                   for m in f.cls.all_functions() for t in ast.walk(m.node))
      if v is not None and not stored:
        return literal_of(v)
    if isinstance(it, ast.Name) and it.id in f.module.assigns and not any(
        isinstance(s, ast.Name) and s.id == it.id and isinstance(s.ctx, ast.Store) for s in ast.walk(node)):
      return literal_of(f.module.assigns[it.id])        # module-level table
    # iteration over an enumeration class of the package: its members in definition order (Enum.__iter__; aliases --
    # members bound to a value that an earlier member has -- are skipped by Python, so such enumerations are left alone)
    if isinstance(it, (ast.Name, ast.Attribute)) and REPO[0] is not None and not (isinstance(it, ast.Name) and any(
        isinstance(s, ast.Name) and s.id == it.id and isinstance(s.ctx, ast.Store) for s in ast.walk(node))):
      try:
        r_ = REPO[0].resolve_dotted(f.module, dotted(it))
      except Exception:
        r_ = None
      if r_ and r_[0] == 'class' and any(b_.split('.')[-1] in ('Enum', 'IntEnum', 'StrEnum') for b_ in r_[1].bases):
        c_ = r_[1]
        members = [(st_.targets[0].id, st_.value) for st_ in c_.node.body if isinstance(st_, ast.Assign) and len(st_.targets) == 1
                   and isinstance(st_.targets[0], ast.Name) and not st_.targets[0].id.startswith('_')]
        vals_ = [norm(v_) for _, v_ in members]
        if members and len(set(vals_)) == len(vals_) and all(isinstance(v_, (ast.Constant, ast.Tuple)) for _, v_ in members) \
            and not any(isinstance(st_, ast.AnnAssign) for st_ in c_.node.body):
          return ast.Tuple(elts=[ast.Attribute(value=dataflow.clone(it), attr=n_, ctx=ast.Load()) for n_, _ in members], ctx=ast.Load())
    if isinstance(it, ast.Name):
      defs = [s for s in walk_no_nested(node) if isinstance(s, ast.Name) and s.id == it.id and isinstance(s.ctx, ast.Store)]
      if len(defs) == 1 and isinstance(getattr(defs[0], '_parent', None), ast.Assign) and len(defs[0]._parent.targets) == 1:
        return literal_of(defs[0]._parent.value)
    # zip / enumerate over literal tables
    if isinstance(it, ast.Call) and isinstance(it.func, ast.Name) and not it.keywords and it.func.id == 'zip' and it.args:
      parts = [literal_of(a) for a in it.args]
      if all(p is not None for p in parts) and len({len(p.elts) for p in parts}) == 1:
        return ast.Tuple(elts=[ast.Tuple(elts=[dataflow.clone(p.elts[i]) for p in parts], ctx=ast.Load()) for i in range(len(parts[0].elts))], ctx=ast.Load())
    if isinstance(it, ast.Call) and isinstance(it.func, ast.Name) and it.func.id == 'enumerate' and len(it.args) == 1 and not it.keywords:
      p0 = literal_of(it.args[0])
      if p0 is not None:
        return ast.Tuple(elts=[ast.Tuple(elts=[ast.Constant(value=i), dataflow.clone(x)], ctx=ast.Load()) for i, x in enumerate(p0.elts)], ctx=ast.Load())
    # itertools.combinations / permutations / product over literal tables: a finite, statically known sequence of tuples
    fn_ = norm(it.func) if isinstance(it, ast.Call) else ''
    if fn_ in ('itertools.combinations', 'combinations', 'itertools.permutations', 'permutations') and len(it.args) == 2 and not it.keywords \
        and isinstance(it.args[1], ast.Constant) and isinstance(it.args[1].value, int) and 0 < it.args[1].value <= 3:
      p0 = literal_of(it.args[0])
      if p0 is not None and len(p0.elts) <= 8:
        import itertools as _it
        pick = _it.combinations if fn_.endswith('combinations') else _it.permutations
        return ast.Tuple(elts=[ast.Tuple(elts=[dataflow.clone(x) for x in c_], ctx=ast.Load()) for c_ in pick(p0.elts, it.args[1].value)], ctx=ast.Load())
    if fn_ in ('itertools.product', 'product') and it.args and not it.keywords:
      parts = [literal_of(a) for a in it.args]
      if all(p_ is not None for p_ in parts):
        import itertools as _it
        combos = list(_it.product(*[p_.elts for p_ in parts]))
        if len(combos) <= 32:
          return ast.Tuple(elts=[ast.Tuple(elts=[dataflow.clone(x) for x in c_], ctx=ast.Load()) for c_ in combos], ctx=ast.Load())
    return None

  def splat(e):
    """f(*table) with a literal table -> f(a, b, ...)"""
    if isinstance(e, (ast.FunctionDef, ast.ClassDef, ast.Lambda)):
      return e
    if isinstance(e, ast.Call) and any(isinstance(a, ast.Starred) for a in e.args):
      flat, ok = [], True
      for a in e.args:
        if isinstance(a, ast.Starred):
          lit_ = literal_of(a.value)
          if lit_ is None:
            ok = False
            break
          flat += [dataflow.clone(x) for x in lit_.elts]
        else:
          flat.append(a)
      if ok:
        e.args = flat
        changed[0] = True
    return dataflow._map_children(e, splat) if isinstance(e, ast.AST) else e

  def splat_stmt(st):
    for fld, val in list(ast.iter_fields(st)):
      if fld in ('body', 'orelse', 'finalbody', 'handlers'):
        continue
      if isinstance(val, ast.AST):
        setattr(st, fld, splat(val))
      elif isinstance(val, list):
        setattr(st, fld, [splat(x) if isinstance(x, ast.AST) else x for x in val])

  def bind(target, elt):
    if isinstance(target, ast.Name):
      return {target.id: elt}
    if isinstance(target, (ast.Tuple, ast.List)) and isinstance(elt, (ast.Tuple, ast.List)) and len(target.elts) == len(elt.elts):
      out = {}
      for t, e in zip(target.elts, elt.elts):
        b = bind(t, e)
        if b is None:
          return None
        out.update(b)
      return out
    return None

  def block(stmts):
    out = []
    for st in stmts:
      if isinstance(st, (ast.FunctionDef, ast.ClassDef, ast.AsyncFunctionDef)):
        out.append(st)
        continue
      for fld in ('body', 'orelse', 'finalbody'):
        if hasattr(st, fld) and isinstance(getattr(st, fld), list):
          setattr(st, fld, block(getattr(st, fld)))
      if not only_data_driven:
        splat_stmt(st)
      # T1, T2, T3 = [E(v) for v in TABLE]  ->  T1 = E(a); T2 = E(b); T3 = E(c)
      if isinstance(st, ast.Assign) and len(st.targets) == 1 and isinstance(st.targets[0], (ast.Tuple, ast.List)) \
          and all(isinstance(t_, ast.Name) for t_ in st.targets[0].elts):
        v_ = st.value
        if isinstance(v_, ast.Call) and isinstance(v_.func, ast.Name) and v_.func.id in ('list', 'tuple') and len(v_.args) == 1 and not v_.keywords \
            and isinstance(v_.args[0], (ast.GeneratorExp, ast.ListComp)):
          v_ = v_.args[0]
        if isinstance(v_, (ast.ListComp, ast.GeneratorExp)) and len(v_.generators) == 1 and not v_.generators[0].ifs and not v_.generators[0].is_async:
          gen_ = v_.generators[0]
          lit_ = literal_of(gen_.iter)
          tnames = [t_.id for t_ in st.targets[0].elts]
          if lit_ is not None and len(lit_.elts) == len(tnames) and len(set(tnames)) == len(tnames) \
              and not ({x.id for x in ast.walk(v_.elt) if isinstance(x, ast.Name)} & set(tnames)):
            binds_ = [bind(gen_.target, e_) for e_ in lit_.elts]
            if all(b_ is not None for b_ in binds_):
              for tn, b_ in zip(tnames, binds_):
                def sub_(e, b=b_):
                  if isinstance(e, ast.Name) and isinstance(e.ctx, ast.Load) and e.id in b:
                    return dataflow.clone(b[e.id])
                  return dataflow._map_children(e, sub_)
                out.append(ast.copy_location(ast.Assign(targets=[ast.Name(id=tn, ctx=ast.Store())], value=sub_(dataflow.clone(v_.elt)), lineno=st.lineno), st))
              changed[0] = True
              continue
      lit = literal_of(st.iter) if isinstance(st, ast.For) and not st.orelse and (not only_data_driven or _data_driven(st)) else None
      # (a `return` or `yield` in the body is as good in the unrolled copies; only break/continue refer to the loop itself)
      if lit is not None and len(lit.elts) <= 32 and not any(isinstance(x, (ast.Break, ast.Continue)) for b_ in st.body for x in ast.walk(b_)):
        binds = [bind(st.target, e) for e in lit.elts]
        names = set().union(*[set(b) for b in binds if b]) if binds else set()
        assigned_in_body = {x.id for b_ in st.body for x in ast.walk(b_) if isinstance(x, ast.Name) and isinstance(x.ctx, ast.Store)}
        if all(b is not None for b in binds) and not (names & assigned_in_body):
          for b in binds:
            def sub(e, b=b):
              if isinstance(e, ast.Name) and isinstance(e.ctx, ast.Load) and e.id in b:
                return dataflow.clone(b[e.id])
              return dataflow._map_children(e, sub)
            out += [sub(dataflow.clone(x)) for x in st.body]
          changed[0] = True
          continue
      out.append(st)
    return out
  node.body = block(node.body)
  if changed[0] and REPO[0] is not None:
    from mmsa import specialise as _sp
    node.body = [_sp.fold_enum_values_in(REPO[0], f.module, s_) for s_ in node.body]
  if changed[0]:
    # tables that only fed an unrolled loop are dead now
    loads = {x.id for x in ast.walk(node) if isinstance(x, ast.Name) and isinstance(x.ctx, ast.Load)}

    def prune(stmts):
      out = []
      for st in stmts:
        if isinstance(st, ast.Assign) and len(st.targets) == 1 and isinstance(st.targets[0], ast.Name) and st.targets[0].id not in loads \
            and isinstance(st.value, (ast.Tuple, ast.List)):
          continue
        for fld in ('body', 'orelse', 'finalbody'):
          if hasattr(st, fld) and isinstance(getattr(st, fld), list) and not isinstance(st, (ast.FunctionDef, ast.ClassDef)):
            new = prune(getattr(st, fld))
            setattr(st, fld, new or ([ast.Pass()] if fld == 'body' else []))
        out.append(st)
      return out
    node.body = prune(node.body)
    ast.fix_missing_locations(node)
    for n in ast.walk(node):
      for ch in ast.iter_child_nodes(n):
        ch._parent = n
  return changed[0]


ALIAS_ANCHORS = (
    'tbrmatchedmarkets.TBRMatchedMarkets.greedy_search',
    'tbrmatchedmarkets.TBRMatchedMarkets.exhaustive_search',
)
_DICT_MUTATORS = {'pop', 'clear', 'popitem', 'update', 'setdefault', '__setitem__', '__delitem__'}


def propagate_entry_aliases(f):
  """Copy propagation of locals that name an entry of a local table: a use of v whose only reaching definition is
  `v = D[key]` (D a local dict display, key a name or constant), with no path from that definition to the use on which
  D's entries or `key` can change, is replaced by D[key].  Returns the names propagated."""
  from mmsa import cfg as cfgmod
  from mmsa.core import norm, walk_no_nested
  node = f.node
  dicts = {s.targets[0].id for s in walk_no_nested(node)
           if isinstance(s, ast.Assign) and isinstance(s.value, ast.Dict) and len(s.targets) == 1 and isinstance(s.targets[0], ast.Name)}
  if not dicts:
    return []
  g = cfgmod.CFG(node)
  rd = dataflow.Reaching(g)
  # nested functions using a name: leave that name alone
  captured = {x.id for fn in ast.walk(node) if fn is not node and isinstance(fn, (ast.FunctionDef, ast.Lambda)) for x in ast.walk(fn) if isinstance(x, ast.Name)}

  def entry_alias(d):
    if d.how != 'assign' or d.value is None:
      return None
    v = d.value
    if isinstance(v, ast.Subscript) and isinstance(v.value, ast.Name) and v.value.id in dicts and isinstance(v.slice, (ast.Name, ast.Constant)):
      return v
    return None

  def killers_of(D, key):
    out = set()
    for n in g.nodes:
      st = n.ast
      if st is None:
        continue
      exprs = [n.expr] if n.kind == 'test' else [st.iter, st.target] if n.kind == 'for' else \
          [] if isinstance(st, (ast.FunctionDef, ast.ClassDef, ast.AsyncFunctionDef)) else [st] if n.kind in ('stmt', 'return', 'raisestmt') else \
          [i.context_expr for i in st.items] if n.kind == 'with' else []
      for e in exprs:
        for x in ast.walk(e):
          if isinstance(x, ast.Name) and isinstance(x.ctx, (ast.Store, ast.Del)) and (x.id == D or (isinstance(key, ast.Name) and x.id == key.id)):
            out.add(n)
          if isinstance(x, ast.Subscript) and isinstance(x.ctx, (ast.Store, ast.Del)) and isinstance(x.value, ast.Name) and x.value.id == D:
            out.add(n)
          if isinstance(x, ast.Call) and isinstance(x.func, ast.Attribute) and isinstance(x.func.value, ast.Name) and x.func.value.id == D \
              and x.func.attr in _DICT_MUTATORS:
            out.add(n)
    return out
  kcache = {}
  replaced = {}      # id(Name node) -> replacement expression
  for n in g.nodes:
    st = n.ast
    if st is None:
      continue
    exprs = [n.expr] if n.kind == 'test' else [st.iter] if n.kind == 'for' else \
        [] if isinstance(st, (ast.FunctionDef, ast.ClassDef, ast.AsyncFunctionDef)) else [st] if n.kind in ('stmt', 'return', 'raisestmt') else \
        [i.context_expr for i in st.items] if n.kind == 'with' else []
    for e in exprs:
      for x in walk_no_nested(e) if not isinstance(e, (ast.FunctionDef,)) else []:
        if not (isinstance(x, ast.Name) and isinstance(x.ctx, ast.Load)) or x.id in captured or x.id in dicts:
          continue
        d = rd.single_def(n, x.id)
        if d is None:
          continue
        val = entry_alias(d)
        if val is None:
          continue
        D, key = val.value.id, val.slice
        kk = (D, norm(key))
        if kk not in kcache:
          kcache[kk] = killers_of(D, key)
        killers = kcache[kk] - {d.node}
        # a killer reachable from the definition from which the use is reachable, without re-executing the definition
        from_def = g.reachable(d.node, lambda a, b, lab, dn=d.node: lab != 'exc' and (a is dn or a is not dn))
        unsafe = False
        for k_ in killers & from_def:
          after = g.reachable(k_, lambda a, b, lab, dn=d.node: lab != 'exc' and a is not dn)
          if n in after and (n is not k_ or n in g.reachable(n, lambda a, b, lab, dn=d.node: lab != 'exc' and a is not dn) - {n}):
            unsafe = True
            break
          if n is k_:
            # the use sits in the killer statement itself (e.g. D[k] = f(v)): the load happens before the store
            continue
        if not unsafe:
          replaced[id(x)] = (x.id, val)
  if not replaced:
    return []

  def sub(e):
    if isinstance(e, ast.Name) and id(e) in replaced:
      new = dataflow.clone(replaced[id(e)][1])
      for a_ in ('lineno', 'col_offset', 'end_lineno', 'end_col_offset'):
        if hasattr(e, a_):
          setattr(new, a_, getattr(e, a_))
      return new
    if isinstance(e, (ast.FunctionDef, ast.Lambda, ast.ClassDef)) and e is not node:
      return e
    return dataflow._map_children(e, sub) if isinstance(e, ast.AST) else e
  dataflow._map_children(node, lambda c: c if isinstance(c, ast.arguments) else sub(c))
  ast.fix_missing_locations(node)
  for n in ast.walk(node):
    for ch in ast.iter_child_nodes(n):
      ch._parent = n
  return sorted({v for v, _ in replaced.values()})


def _cloned(f):
  """Make f.node a private clone (once), so that it can be rewritten in place."""
  if getattr(f, '_private_clone', False):
    return
  node = dataflow.clone(f.node)
  for n in ast.walk(node):
    for ch in ast.iter_child_nodes(n):
      ch._parent = n
  node._parent = getattr(f.node, '_parent', None)
  if not hasattr(f, 'orig_node'):
    f.orig_node = f.node
  f.node = node
  f._private_clone = True
  tmp = core.FuncInfo(f.module, node, f.cls, f.kind, f.outer)
  f.nested = tmp.nested
  for g_ in f.nested.values():
    g_.outer = f


_OPERATOR_CMP = {'lt': ast.Lt, 'le': ast.LtE, 'gt': ast.Gt, 'ge': ast.GtE, 'eq': ast.Eq, 'ne': ast.NotEq}


_OPERATOR_BIN = {'and_': ast.BitAnd, 'or_': ast.BitOr, 'xor': ast.BitXor, 'add': ast.Add, 'sub': ast.Sub, 'mul': ast.Mult, 'truediv': ast.Div,
                 'floordiv': ast.FloorDiv, 'mod': ast.Mod, 'pow': ast.Pow, 'matmul': ast.MatMult}


def constant_setattr(f):
  """setattr(obj, 'name', v) -> obj.name = v ;  getattr(obj, 'name') -> obj.name   (constant names only)."""
  node = f.node
  changed = [False]
  fresh_ = [0]

  def expr(e):
    if isinstance(e, ast.Call) and isinstance(e.func, ast.Name) and e.func.id == 'getattr' and len(e.args) == 2 and not e.keywords \
        and isinstance(e.args[1], ast.Constant) and isinstance(e.args[1].value, str) and e.args[1].value.isidentifier():
      changed[0] = True
      return ast.Attribute(value=expr(e.args[0]), attr=e.args[1].value, ctx=ast.Load())
    if isinstance(e, ast.Call) and isinstance(e.func, ast.Attribute) and isinstance(e.func.value, ast.Name) and e.func.value.id == 'operator' \
        and e.func.attr in _OPERATOR_CMP and len(e.args) == 2 and not e.keywords:
      changed[0] = True
      return ast.Compare(left=expr(e.args[0]), ops=[_OPERATOR_CMP[e.func.attr]()], comparators=[expr(e.args[1])])
    # functional spellings of comprehensions: filter(P, X), map(F, X), list/set(<generator>), S.__contains__(a)
    if isinstance(e, ast.Call) and isinstance(e.func, ast.Name) and e.func.id in ('filter', 'map') and len(e.args) == 2 and not e.keywords \
        and not any(isinstance(a, ast.Starred) for a in e.args):
      fresh_[0] += 1
      v = '_v%d' % fresh_[0]
      fn_, it_ = e.args
      if e.func.id == 'filter':
        cond = ast.Name(id=v, ctx=ast.Load()) if (isinstance(fn_, ast.Constant) and fn_.value is None) else ast.Call(func=fn_, args=[ast.Name(id=v, ctx=ast.Load())], keywords=[])
        new_ = ast.GeneratorExp(elt=ast.Name(id=v, ctx=ast.Load()), generators=[ast.comprehension(target=ast.Name(id=v, ctx=ast.Store()), iter=it_, ifs=[cond], is_async=0)])
      else:
        new_ = ast.GeneratorExp(elt=ast.Call(func=fn_, args=[ast.Name(id=v, ctx=ast.Load())], keywords=[]),
                                generators=[ast.comprehension(target=ast.Name(id=v, ctx=ast.Store()), iter=it_, ifs=[], is_async=0)])
      changed[0] = True
      return expr(ast.copy_location(new_, e))
    if isinstance(e, ast.Call) and isinstance(e.func, ast.Name) and e.func.id in ('list', 'set') and len(e.args) == 1 and not e.keywords \
        and (isinstance(e.args[0], ast.GeneratorExp) or (isinstance(e.args[0], ast.Call) and isinstance(e.args[0].func, ast.Name) and e.args[0].func.id in ('filter', 'map'))):
      ge_ = expr(e.args[0])
      e.args[0] = ge_
      if isinstance(ge_, ast.GeneratorExp):
        changed[0] = True
        cls_ = ast.ListComp if e.func.id == 'list' else ast.SetComp
        return ast.copy_location(cls_(elt=ge_.elt, generators=ge_.generators), e)
    if isinstance(e, ast.Call) and isinstance(e.func, ast.Attribute) and e.func.attr == '__contains__' and len(e.args) == 1 and not e.keywords:
      changed[0] = True
      return ast.copy_location(ast.Compare(left=expr(e.args[0]), ops=[ast.In()], comparators=[expr(e.func.value)]), e)
    # operator.methodcaller('m', a)(obj) is obj.m(a);  operator.attrgetter('a')(obj) is obj.a;  operator.itemgetter(k)(obj) is obj[k]
    if isinstance(e, ast.Call) and isinstance(e.func, ast.Call) and len(e.args) == 1 and not e.keywords and not isinstance(e.args[0], ast.Starred):
      inner_ = e.func
      fn_ = norm(inner_.func)
      if fn_ in ('operator.methodcaller', 'methodcaller') and inner_.args and isinstance(inner_.args[0], ast.Constant) and isinstance(inner_.args[0].value, str) \
          and inner_.args[0].value.isidentifier():
        changed[0] = True
        return expr(ast.copy_location(ast.Call(func=ast.Attribute(value=e.args[0], attr=inner_.args[0].value, ctx=ast.Load()), args=list(inner_.args[1:]), keywords=list(inner_.keywords)), e))
      if fn_ in ('operator.attrgetter', 'attrgetter') and len(inner_.args) == 1 and isinstance(inner_.args[0], ast.Constant) and isinstance(inner_.args[0].value, str) \
          and all(p_.isidentifier() for p_ in inner_.args[0].value.split('.')):
        changed[0] = True
        out_ = e.args[0]
        for p_ in inner_.args[0].value.split('.'):
          out_ = ast.Attribute(value=out_, attr=p_, ctx=ast.Load())
        return expr(ast.copy_location(out_, e))
      if fn_ in ('operator.itemgetter', 'itemgetter') and len(inner_.args) == 1:
        changed[0] = True
        return expr(ast.copy_location(ast.Subscript(value=e.args[0], slice=inner_.args[0], ctx=ast.Load()), e))
    # functools.partial(f, a, k=v)(b)  is  f(a, b, k=v)
    if isinstance(e, ast.Call) and isinstance(e.func, ast.Call) and norm(e.func.func) in ('functools.partial', 'partial') and e.func.args \
        and not any(isinstance(a, ast.Starred) for a in list(e.func.args) + list(e.args)) and not any(k.arg is None for k in list(e.func.keywords) + list(e.keywords)):
      changed[0] = True
      inner = e.func
      kws_ = {k.arg: k for k in inner.keywords}
      kws_.update({k.arg: k for k in e.keywords})
      return expr(ast.copy_location(ast.Call(func=inner.args[0], args=list(inner.args[1:]) + list(e.args), keywords=list(kws_.values())), e))
    # (lambda: X)()  is X ;  (lambda a: F(a))(v) is F(v) for a single use of a
    if isinstance(e, ast.Call) and isinstance(e.func, ast.Lambda) and not e.keywords and not any(isinstance(a, ast.Starred) for a in e.args) \
        and len(e.func.args.args) == len(e.args) and not e.func.args.vararg and not e.func.args.kwarg and not e.func.args.kwonlyargs:
      binds = {p.arg: a for p, a in zip(e.func.args.args, e.args)}

      def sub_(x):
        if isinstance(x, ast.Name) and isinstance(x.ctx, ast.Load) and x.id in binds:
          return dataflow.clone(binds[x.id])
        if isinstance(x, ast.Lambda):
          return x
        return dataflow._map_children(x, sub_)
      changed[0] = True
      return expr(sub_(dataflow.clone(e.func.body)))
    if isinstance(e, ast.Call) and isinstance(e.func, ast.Attribute) and isinstance(e.func.value, ast.Name) and e.func.value.id == 'operator' \
        and not e.keywords and not any(isinstance(a, ast.Starred) for a in e.args):
      nm = e.func.attr
      if nm in _OPERATOR_BIN and len(e.args) == 2:
        changed[0] = True
        return ast.BinOp(left=expr(e.args[0]), op=_OPERATOR_BIN[nm](), right=expr(e.args[1]))
      if nm in ('not_', 'neg') and len(e.args) == 1:
        changed[0] = True
        return ast.UnaryOp(op=ast.Not() if nm == 'not_' else ast.USub(), operand=expr(e.args[0]))
      if nm in ('is_', 'is_not') and len(e.args) == 2:
        changed[0] = True
        return ast.Compare(left=expr(e.args[0]), ops=[ast.Is() if nm == 'is_' else ast.IsNot()], comparators=[expr(e.args[1])])
      if nm == 'contains' and len(e.args) == 2:
        changed[0] = True
        return ast.Compare(left=expr(e.args[1]), ops=[ast.In()], comparators=[expr(e.args[0])])
      if nm == 'getitem' and len(e.args) == 2:
        changed[0] = True
        return ast.Subscript(value=expr(e.args[0]), slice=expr(e.args[1]), ctx=ast.Load())
      if nm == 'truth' and len(e.args) == 1:
        changed[0] = True
        return ast.Call(func=ast.Name(id='bool', ctx=ast.Load()), args=[expr(e.args[0])], keywords=[])
    # X[X.isin(S)].tolist()  /  list(X[X.isin(S)])  is  [v for v in X if v in S]   (order of X, members of S)
    def _isin_filter(x_):
      if isinstance(x_, ast.Subscript) and isinstance(x_.slice, ast.Call) and isinstance(x_.slice.func, ast.Attribute) and x_.slice.func.attr == 'isin' \
          and len(x_.slice.args) == 1 and not x_.slice.keywords and norm(x_.slice.func.value) == norm(x_.value):
        return x_.value, x_.slice.args[0]
      return None
    hit_ = None
    if isinstance(e, ast.Call) and isinstance(e.func, ast.Attribute) and e.func.attr in ('tolist', 'to_list') and not e.args and not e.keywords:
      hit_ = _isin_filter(e.func.value)
    elif isinstance(e, ast.Call) and isinstance(e.func, ast.Name) and e.func.id == 'list' and len(e.args) == 1 and not e.keywords:
      hit_ = _isin_filter(e.args[0])
    if hit_ is not None:
      fresh_[0] += 1
      v = '_v%d' % fresh_[0]
      changed[0] = True
      return ast.copy_location(ast.ListComp(elt=ast.Name(id=v, ctx=ast.Load()), generators=[ast.comprehension(
          target=ast.Name(id=v, ctx=ast.Store()), iter=expr(hit_[0]), ifs=[ast.Compare(left=ast.Name(id=v, ctx=ast.Load()), ops=[ast.In()], comparators=[expr(hit_[1])])],
          is_async=0)]), e)
    # collections.OrderedDict([(k, v), ...]) / dict([(k, v), ...]) / dict(k=v, ...)  is the display {k: v, ...}
    if isinstance(e, ast.Call) and norm(e.func) in ('collections.OrderedDict', 'OrderedDict', 'dict') and not any(k_.arg is None for k_ in e.keywords):
      pairs_ = None
      if len(e.args) == 1 and not e.keywords and isinstance(e.args[0], (ast.List, ast.Tuple)) \
          and all(isinstance(p_, (ast.Tuple, ast.List)) and len(p_.elts) == 2 for p_ in e.args[0].elts) and e.args[0].elts:
        pairs_ = [(p_.elts[0], p_.elts[1]) for p_ in e.args[0].elts]
      elif not e.args and e.keywords and norm(e.func) == 'dict':
        pairs_ = [(ast.Constant(value=k_.arg), k_.value) for k_ in e.keywords]
      if pairs_ is not None:
        changed[0] = True
        return ast.copy_location(ast.Dict(keys=[expr(k_) for k_, _v in pairs_], values=[expr(v_) for _k, v_ in pairs_]), e)
    if isinstance(e, (ast.FunctionDef, ast.ClassDef)):
      return e
    return dataflow._map_children(e, expr) if isinstance(e, ast.AST) else e

  def block(stmts):
    out = []
    for st in stmts:
      if isinstance(st, (ast.FunctionDef, ast.ClassDef, ast.AsyncFunctionDef)):
        out.append(st)
        continue
      for fld in ('body', 'orelse', 'finalbody'):
        if hasattr(st, fld) and isinstance(getattr(st, fld), list):
          setattr(st, fld, block(getattr(st, fld)))
      if isinstance(st, ast.Try):
        for hd in st.handlers:
          hd.body = block(hd.body)
      if isinstance(st, ast.Expr) and isinstance(st.value, ast.Call) and isinstance(st.value.func, ast.Name) and st.value.func.id == 'setattr' \
          and len(st.value.args) == 3 and not st.value.keywords and isinstance(st.value.args[1], ast.Constant) \
          and isinstance(st.value.args[1].value, str) and st.value.args[1].value.isidentifier():
        a0, a1, a2 = st.value.args
        out.append(ast.Assign(targets=[ast.Attribute(value=expr(a0), attr=a1.value, ctx=ast.Store())], value=expr(a2),
                              lineno=st.lineno, col_offset=st.col_offset))
        changed[0] = True
        continue
      for fld, val in list(ast.iter_fields(st)):
        if fld in ('body', 'orelse', 'finalbody', 'handlers'):
          continue
        if isinstance(val, ast.AST):
          before_ = norm(val)
          setattr(st, fld, dataflow.idioms(expr(val)) if isinstance(val, ast.expr) else expr(val))
          if isinstance(val, ast.expr) and norm(getattr(st, fld)) != before_:
            changed[0] = True
        elif isinstance(val, list):
          new_ = []
          for x in val:
            if isinstance(x, ast.expr) and not isinstance(getattr(x, 'ctx', None), ast.Store):
              before_ = norm(x)
              y = dataflow.idioms(expr(x))
              if norm(y) != before_:
                changed[0] = True
              new_.append(y)
            else:
              new_.append(expr(x) if isinstance(x, ast.AST) else x)
          setattr(st, fld, new_)
      out.append(st)
    return out
  node.body = block(node.body)
  if changed[0]:
    ast.fix_missing_locations(node)
    for n in ast.walk(node):
      for ch in ast.iter_child_nodes(n):
        ch._parent = n
  return changed[0]


def _data_driven(loop):
  """The loop variable is used as an attribute name or dispatched on: setattr/getattr(obj, var, ..)."""
  names = {x.id for x in ast.walk(loop.target) if isinstance(x, ast.Name)}
  for b in loop.body:
    for x in ast.walk(b):
      if isinstance(x, ast.Call) and isinstance(x.func, ast.Name) and x.func.id in ('setattr', 'getattr') and len(x.args) >= 2 \
          and (isinstance(x.args[1], ast.Name) and x.args[1].id in names
               or isinstance(x.args[1], ast.Attribute) and x.args[1].attr in ('value', 'name') and isinstance(x.args[1].value, ast.Name) and x.args[1].value.id in names):
        return True       # (var.value / var.name: the loop runs over an enumeration)
      if isinstance(x, ast.Call) and isinstance(x.func, ast.Name) and x.func.id in names:
        return True       # the table holds the function to apply
  return False


REPO = [None]


def lower_repo(repo):
  REPO[0] = repo
  done = []
  for q, f in list(repo.functions.items()):
    saved = (f.node, f.nested, getattr(f, '_private_clone', False))
    _cloned(f)
    c1 = canonical_iteration_forms(f)
    c2 = conditional_assignments(f)
    c3 = unroll_literal_loops(f, only_data_driven=True)
    c4 = constant_setattr(f)
    c5 = thread_result_tests(f) if q in getattr(repo, 'flattened', {}) else False
    c6 = propagate_attribute_aliases(f)
    c6 = (c6 or []) + (inline_local_lambdas(f) or [])
    if c6:
      c4 = constant_setattr(f) or c4        # aliases of bound methods / operator functions are visible only now
    c7 = split_parallel_assignments(f)
    c8 = clamp_forms(f)
    c1 = c1 or c5 or bool(c6) or c7 or c8
    if c1 or c2 or c3 or c4:
      done.append('%s: %s' % (q, ' + '.join(x for x, y in (('iteration forms', c1), ('conditional assignments', c2), ('attribute-table loops unrolled', c3),
                                                            ('constant setattr/getattr', c4)) if y)))
      tmp = core.FuncInfo(f.module, f.node, f.cls, f.kind, f.outer)
      f.nested = tmp.nested
      for g_ in f.nested.values():
        g_.outer = f
    else:
      f.node, f.nested, f._private_clone = saved
  # tests made constant by the specialisation to defaults / by inlining (`if None is None:`) are folded
  from mmsa import specialise
  for q, f in list(repo.functions.items()):
    if specialise.has_const_test(f.node):
      _cloned(f)
      f.node.body = specialise._fold_block(f.node.body)
      ast.fix_missing_locations(f.node)
      for n_ in ast.walk(f.node):
        for ch_ in ast.iter_child_nodes(n_):
          ch_._parent = n_
      tmp = core.FuncInfo(f.module, f.node, f.cls, f.kind, f.outer)
      f.nested = tmp.nested
      for g_ in f.nested.values():
        g_.outer = f
      done.append('%s: constant tests folded' % q)
  for q in LOWERED_ANCHORS:
    parts = q.split('.<locals>.')
    f = repo.functions.get(parts[0])
    for p in parts[1:]:
      f = f.nested.get(p) if f is not None else None
    if f is not None and lower_function(f):
      done.append(q)
  for q in BOOL_RETURN_ANCHORS:
    f = repo.functions.get(q)
    if f is None:
      continue
    saved = (f.node, f.nested, getattr(f, '_private_clone', False))
    _cloned(f)
    if boolean_returns(f):
      done.append('%s: Boolean returns' % q)
    else:
      f.node, f.nested, f._private_clone = saved
  for q in UNROLL_ANCHORS:
    f = repo.functions.get(q)
    if f is None:
      continue
    saved = (f.node, f.nested, getattr(f, '_private_clone', False))
    _cloned(f)
    if unroll_literal_loops(f):
      done.append('%s: literal loops unrolled' % q)
    else:
      f.node, f.nested, f._private_clone = saved
  for q in ALIAS_ANCHORS:
    f = repo.functions.get(q)
    if f is None:
      continue
    saved = (f.node, f.nested, getattr(f, '_private_clone', False))
    _cloned(f)
    names = propagate_entry_aliases(f)
    if names:
      done.append('%s: table-entry aliases %s' % (q, ', '.join(sorted(names))))
      tmp = core.FuncInfo(f.module, f.node, f.cls, f.kind, f.outer)
      f.nested = tmp.nested
      for g_ in f.nested.values():
        g_.outer = f
    else:
      f.node, f.nested, f._private_clone = saved
  return done


def conditional_assignments(f):
  """x = A if c else B   ->   if c: x = A  else: x = B     (single Name/attribute target; applied to every function, so
  that path rules and the None-fact edge filters see the choice as a branch)."""
  node = f.node
  changed = [False]

  def block(stmts):
    out = []
    for st in stmts:
      if isinstance(st, (ast.FunctionDef, ast.ClassDef, ast.AsyncFunctionDef)):
        out.append(st)
        continue
      for fld in ('body', 'orelse', 'finalbody'):
        if hasattr(st, fld) and isinstance(getattr(st, fld), list):
          setattr(st, fld, block(getattr(st, fld)))
      if isinstance(st, ast.Try):
        for hd in st.handlers:
          hd.body = block(hd.body)
      if isinstance(st, ast.Return) and isinstance(st.value, ast.IfExp):
        a = ast.Return(value=st.value.body, lineno=st.lineno, col_offset=st.col_offset)
        b = ast.Return(value=st.value.orelse, lineno=st.lineno, col_offset=st.col_offset)
        out.append(ast.If(test=st.value.test, body=block([a]), orelse=block([b]), lineno=st.lineno, col_offset=st.col_offset))
        changed[0] = True
        continue
      if isinstance(st, ast.Expr) and isinstance(st.value, ast.Call) and isinstance(st.value.func, ast.IfExp):
        # (A if c else B)(x)  as a statement is  A(x) if c else B(x): the choice is made before the arguments are evaluated
        c_ = st.value
        st = ast.copy_location(ast.Expr(value=ast.copy_location(ast.IfExp(
            test=c_.func.test,
            body=ast.Call(func=c_.func.body, args=[dataflow.clone(a_) for a_ in c_.args], keywords=[dataflow.clone(k_) for k_ in c_.keywords]),
            orelse=ast.Call(func=c_.func.orelse, args=[dataflow.clone(a_) for a_ in c_.args], keywords=[dataflow.clone(k_) for k_ in c_.keywords])), c_)), st)
        ast.fix_missing_locations(st)
        changed[0] = True
      if isinstance(st, ast.Expr) and isinstance(st.value, ast.IfExp):
        # A() if c else B()  as a statement: only one of the two calls is executed
        a = ast.Expr(value=st.value.body, lineno=st.lineno, col_offset=st.col_offset)
        b = ast.Expr(value=st.value.orelse, lineno=st.lineno, col_offset=st.col_offset)
        out.append(ast.If(test=st.value.test, body=block([a]), orelse=block([b]), lineno=st.lineno, col_offset=st.col_offset))
        changed[0] = True
        continue
      if isinstance(st, ast.Expr) and isinstance(st.value, ast.BoolOp) and len(st.value.values) == 2 and isinstance(st.value.values[1], ast.Call):
        # c and F()  /  c or F()  as a statement
        t_ = st.value.values[0] if isinstance(st.value.op, ast.And) else ast.UnaryOp(op=ast.Not(), operand=st.value.values[0])
        a = ast.Expr(value=st.value.values[1], lineno=st.lineno, col_offset=st.col_offset)
        out.append(ast.If(test=ast.copy_location(t_, st.value), body=[a], orelse=[], lineno=st.lineno, col_offset=st.col_offset))
        changed[0] = True
        continue
      # return F(a if c else b, k=(x if c else y))  ->  if c: return F(a, k=x)  else: return F(b, k=y)
      # (every conditional expression of the statement has the same, side-effect free test)
      if isinstance(st, (ast.Return, ast.Assign)) and st.value is not None and not isinstance(st.value, ast.IfExp):
        ifx = []
        def find_(e, top=True):
          if isinstance(e, (ast.Lambda, ast.ListComp, ast.SetComp, ast.DictComp, ast.GeneratorExp)):
            return
          if isinstance(e, ast.IfExp):
            ifx.append(e)
            return
          for ch in ast.iter_child_nodes(e):
            find_(ch, False)
        find_(st.value)
        pure_ = lambda t_: all(isinstance(x_, (ast.Name, ast.Constant, ast.Compare, ast.Is, ast.IsNot, ast.Eq, ast.NotEq, ast.Load, ast.UnaryOp, ast.Not, ast.Attribute))
                               for x_ in ast.walk(t_)) and not any(isinstance(x_, ast.Attribute) for x_ in ast.walk(t_))
        # (BoolOp operands are evaluated conditionally: a conditional expression under one is left alone)
        under_boolop = any(isinstance(b_, ast.BoolOp) and any(x_ is i_ for x_ in ast.walk(b_)) for b_ in ast.walk(st.value) for i_ in ifx)
        if ifx and len({norm(i_.test) for i_ in ifx}) == 1 and pure_(ifx[0].test) and not under_boolop \
            and not (isinstance(st, ast.Assign) and any(isinstance(x_, ast.Name) and x_.id in {y_.id for y_ in ast.walk(ifx[0].test) if isinstance(y_, ast.Name)}
                                                         for t_ in st.targets for x_ in ast.walk(t_))):
          ids_ = {id(i_) for i_ in ifx}
          def pick_(e, which):
            if id(e) in ids_:
              return dataflow.clone(getattr(e, which))
            e2 = e.__class__(**{fld: (pick_(val, which) if isinstance(val, ast.AST) else
                                      [pick_(v_, which) if isinstance(v_, ast.AST) else v_ for v_ in val] if isinstance(val, list) else val)
                                for fld, val in ast.iter_fields(e)})
            return ast.copy_location(e2, e) if hasattr(e, 'lineno') else e2
          def mk_(which):
            if isinstance(st, ast.Return):
              return ast.Return(value=pick_(st.value, which), lineno=st.lineno, col_offset=st.col_offset)
            return ast.Assign(targets=[dataflow.clone(t_) for t_ in st.targets], value=pick_(st.value, which), lineno=st.lineno, col_offset=st.col_offset)
          new_if = ast.If(test=dataflow.clone(ifx[0].test), body=[mk_('body')], orelse=[mk_('orelse')], lineno=st.lineno, col_offset=st.col_offset)
          ast.fix_missing_locations(new_if)
          out.append(new_if)
          changed[0] = True
          continue
      if isinstance(st, ast.Assign) and len(st.targets) == 1 and isinstance(st.value, ast.IfExp) \
          and isinstance(st.targets[0], (ast.Name, ast.Attribute, ast.Tuple)):
        a = ast.Assign(targets=[dataflow.clone(st.targets[0])], value=st.value.body, lineno=st.lineno, col_offset=st.col_offset)
        b = ast.Assign(targets=[dataflow.clone(st.targets[0])], value=st.value.orelse, lineno=st.lineno, col_offset=st.col_offset)
        out.append(ast.If(test=st.value.test, body=block([a]), orelse=block([b]), lineno=st.lineno, col_offset=st.col_offset))
        changed[0] = True
        continue
      out.append(st)
    return out
  node.body = block(node.body)
  if changed[0]:
    ast.fix_missing_locations(node)
    for n in ast.walk(node):
      for ch in ast.iter_child_nodes(n):
        ch._parent = n
  return changed[0]


def clamp_forms(f):
  """if B > v: v = B  /  if v < B: v = B  /  if not v > B: v = B   ->   v = max(v, B)  (resp. max(B, v));
     if B < v: v = B  /  if v > B: v = B  /  if not v < B: v = B   ->   v = min(v, B)  (resp. min(B, v)).
  The two-argument builtin written as its single comparison (Python's max(a, b) is `b if b > a else a`, min(a, b) is
  `b if b < a else a`).  v a plain local, B a name, attribute chain, subscript or constant."""
  node = f.node
  changed = [False]

  def pure(e):
    return all(isinstance(x, (ast.Name, ast.Attribute, ast.Subscript, ast.Constant, ast.Load, ast.UnaryOp, ast.USub)) for x in ast.walk(e))

  def rewrite(st):
    if not (isinstance(st, ast.If) and not st.orelse and len(st.body) == 1 and isinstance(st.body[0], ast.Assign) and len(st.body[0].targets) == 1
            and isinstance(st.body[0].targets[0], ast.Name)):
      return None
    v = st.body[0].targets[0].id
    B = st.body[0].value
    if not pure(B) or any(isinstance(x, ast.Name) and x.id == v for x in ast.walk(B)):
      return None
    t, neg = st.test, False
    if isinstance(t, ast.UnaryOp) and isinstance(t.op, ast.Not):
      t, neg = t.operand, True
    if not (isinstance(t, ast.Compare) and len(t.ops) == 1 and isinstance(t.ops[0], (ast.Lt, ast.Gt))):
      return None
    l, r, op = t.left, t.comparators[0], type(t.ops[0])
    bt = norm(B)
    is_v = lambda e: isinstance(e, ast.Name) and e.id == v
    fn = order = None
    if not neg:
      if norm(l) == bt and is_v(r):                  # B > v -> max(v, B);  B < v -> min(v, B)
        fn, order = ('max' if op is ast.Gt else 'min'), 'vB'
      elif is_v(l) and norm(r) == bt:                # v < B -> max(v, B);  v > B -> min(v, B)
        fn, order = ('max' if op is ast.Lt else 'min'), 'vB'
    else:
      if is_v(l) and norm(r) == bt:                  # not v > B -> max(B, v);  not v < B -> min(B, v)
        fn, order = ('max' if op is ast.Gt else 'min'), 'Bv'
    if fn is None:
      return None
    vn = ast.Name(id=v, ctx=ast.Load())
    args = [vn, dataflow.clone(B)] if order == 'vB' else [dataflow.clone(B), vn]
    return ast.copy_location(ast.Assign(targets=[ast.Name(id=v, ctx=ast.Store())], value=ast.Call(func=ast.Name(id=fn, ctx=ast.Load()), args=args, keywords=[]),
                                        lineno=st.lineno), st)

  def block(stmts):
    out = []
    for st in stmts:
      if isinstance(st, (ast.FunctionDef, ast.ClassDef, ast.AsyncFunctionDef)):
        out.append(st)
        continue
      for fld in ('body', 'orelse', 'finalbody'):
        if hasattr(st, fld) and isinstance(getattr(st, fld), list):
          setattr(st, fld, block(getattr(st, fld)))
      if isinstance(st, ast.Try):
        for hd in st.handlers:
          hd.body = block(hd.body)
      new = rewrite(st)
      if new is not None:
        out.append(new)
        changed[0] = True
        continue
      out.append(st)
    return out
  if any(isinstance(x, ast.Name) and x.id in ('max', 'min') and isinstance(x.ctx, ast.Store) for x in ast.walk(node)):
    return False
  node.body = block(node.body)
  if changed[0]:
    ast.fix_missing_locations(node)
    for n in ast.walk(node):
      for ch in ast.iter_child_nodes(n):
        ch._parent = n
  return changed[0]


def thread_result_tests(f):
  """Tail duplication + constant folding for result variables (as left behind by helper inlining):

      if c: r = False          if c:  continue
      else: r = True     ->    else:  <rest>
      if not r: continue

  When every path through an `if` statement ends by assigning one local r (or leaves the block), the statements that
  follow up to the first `if` testing r (or an alias w = r) are copied behind each assignment, and the copied test is
  decided where the assigned value makes it decidable (constants; a constructor call is not None)."""
  node = f.node
  changed = [False]
  local_stores = {x.id for x in ast.walk(node) if isinstance(x, ast.Name) and isinstance(x.ctx, ast.Store)} \
      | {a.arg for a in node.args.posonlyargs + node.args.args + node.args.kwonlyargs}

  def leaves(stmts):
    """[(list, index)] of the final assignments of every path, or None when some path falls through differently."""
    if not stmts:
      return None
    last = stmts[-1]
    if isinstance(last, (ast.Raise, ast.Return, ast.Continue, ast.Break)):
      return []
    if isinstance(last, ast.Assign) and len(last.targets) == 1 and isinstance(last.targets[0], ast.Name):
      return [(stmts, len(stmts) - 1)]
    if isinstance(last, ast.If) and last.orelse:
      a, b = leaves(last.body), leaves(last.orelse)
      if a is None or b is None:
        return None
      return a + b
    return None

  def decide(test, env):
    """Truth value of `test` given env: name -> assigned value node, or None."""
    if isinstance(test, ast.UnaryOp) and isinstance(test.op, ast.Not):
      v = decide(test.operand, env)
      return None if v is None else not v
    if isinstance(test, ast.Name) and test.id in env:
      val = env[test.id]
      if isinstance(val, ast.Constant):
        return bool(val.value)
      return None
    if isinstance(test, ast.Compare) and len(test.ops) == 1 and isinstance(test.left, ast.Name) and test.left.id in env:
      val, op, rhs = env[test.left.id], test.ops[0], test.comparators[0]
      if isinstance(rhs, ast.Constant) and rhs.value is None and isinstance(op, (ast.Is, ast.IsNot)):
        if isinstance(val, ast.Constant):
          isnone = val.value is None
        elif isinstance(val, ast.Call) and (norm_name(val.func)[:1].isupper()):
          isnone = False
        elif isinstance(val, (ast.Tuple, ast.List, ast.Dict, ast.Set, ast.ListComp, ast.SetComp, ast.DictComp, ast.GeneratorExp, ast.JoinedStr, ast.Lambda)):
          isnone = False
        elif isinstance(val, ast.Name) and val.id in getattr(f.module, 'assigns', {}) and val.id not in local_stores \
            and isinstance(f.module.assigns[val.id], (ast.Tuple, ast.List, ast.Dict, ast.Set, ast.Constant)) \
            and not (isinstance(f.module.assigns[val.id], ast.Constant) and f.module.assigns[val.id].value is None):
          isnone = False          # a module-level literal table
        else:
          return None
        return isnone if isinstance(op, ast.Is) else not isnone
      if isinstance(rhs, ast.Constant) and isinstance(val, ast.Constant) and isinstance(op, (ast.Eq, ast.NotEq)):
        return (val.value == rhs.value) if isinstance(op, ast.Eq) else (val.value != rhs.value)
    return None

  def norm_name(fn):
    return fn.attr if isinstance(fn, ast.Attribute) else fn.id if isinstance(fn, ast.Name) else ''

  def names_in(e):
    return {x.id for x in ast.walk(e) if isinstance(x, ast.Name)}

  def block(stmts):
    i = 0
    while i < len(stmts):
      st = stmts[i]
      if not isinstance(st, (ast.FunctionDef, ast.ClassDef, ast.AsyncFunctionDef)):
        for fld in ('body', 'orelse', 'finalbody'):
          if hasattr(st, fld) and isinstance(getattr(st, fld), list):
            block(getattr(st, fld))
        if isinstance(st, ast.Try):
          for hd in st.handlers:
            block(hd.body)
      # v = <constant>; if <test of v>: ...   (left behind where a result was threaded into a branch): decide the test
      if isinstance(st, ast.Assign) and len(st.targets) == 1 and isinstance(st.targets[0], ast.Name) and isinstance(st.value, ast.Constant) \
          and i + 1 < len(stmts) and isinstance(stmts[i + 1], ast.If) and names_in(stmts[i + 1].test) == {st.targets[0].id}:
        v = decide(stmts[i + 1].test, {st.targets[0].id: st.value})
        if v is not None:
          nxt = stmts[i + 1]
          stmts[i + 1:i + 2] = list(nxt.body if v else nxt.orelse)
          changed[0] = True
          continue
      if isinstance(st, ast.If) and st.orelse:
        lv = leaves([st])
        if lv:
          targets = {lst[k].targets[0].id for lst, k in lv}
          if len(targets) == 1:
            r = next(iter(targets))
            # following statements: aliases of r, then an `if` over r / its aliases
            j = i + 1
            aliases = {r}
            while j < len(stmts) and isinstance(stmts[j], ast.Assign) and len(stmts[j].targets) == 1 and isinstance(stmts[j].targets[0], ast.Name) \
                and isinstance(stmts[j].value, ast.Name) and stmts[j].value.id in aliases:
              aliases.add(stmts[j].targets[0].id)
              j += 1
            if j < len(stmts) and isinstance(stmts[j], ast.If) and names_in(stmts[j].test) and names_in(stmts[j].test) <= aliases:
              run = stmts[i + 1:j + 1]
              for lst, k in lv:
                val = lst[k].value
                env = {a: val for a in aliases}
                copy = [dataflow.clone(x) for x in run]
                tst = copy[-1]
                v = decide(tst.test, env)
                tail = copy[:-1] + ([tst] if v is None else (tst.body if v else tst.orelse))
                lst[k + 1:k + 1] = tail
              del stmts[i + 1:j + 1]
              changed[0] = True
              continue        # re-examine the same statement (nested results)
      i += 1
    return stmts
  block(node.body)
  if changed[0]:
    ast.fix_missing_locations(node)
    for n in ast.walk(node):
      for ch in ast.iter_child_nodes(n):
        ch._parent = n
  return changed[0]


def propagate_attribute_aliases(f):
  """v = self.a.b  (a plain attribute chain rooted at self or a parameter; v assigned exactly once, the chain never
  stored to in the function)  ->  every use of v becomes self.a.b and the definition is dropped.  Makes `par =
  self.parameters`, `agg = self.data.aggregate_time_series`, `out_of_bounds = self._constraint_not_satisfied` transparent."""
  from mmsa.core import norm, walk_no_nested
  node = f.node
  params = {a.arg for a in node.args.posonlyargs + node.args.args + node.args.kwonlyargs}
  stores = {}
  for x in ast.walk(node):
    if isinstance(x, ast.Name) and isinstance(x.ctx, (ast.Store, ast.Del)):
      stores[x.id] = stores.get(x.id, 0) + 1
  stored_chains = {norm(x) for x in ast.walk(node) if isinstance(x, ast.Attribute) and isinstance(x.ctx, (ast.Store, ast.Del))}

  def chain_root(e):
    while isinstance(e, ast.Attribute):
      e = e.value
    return e.id if isinstance(e, ast.Name) else None
  cands = {}
  for st in walk_no_nested(node):
    if isinstance(st, ast.Assign) and len(st.targets) == 1 and isinstance(st.targets[0], ast.Name) and isinstance(st.value, ast.Attribute):
      v = st.targets[0].id
      root = chain_root(st.value)
      if stores.get(v, 0) != 1 or root is None:
        continue          # (a parameter re-bound once before its first use is as good as a local: p = self.helper)
      if root in params:
        if stores.get(root, 0):
          continue
      else:
        # a local bound exactly once, at the top level of the body, before the alias (results = HeapDict(..); push = results.push)
        rdefs = [s_ for s_ in node.body if isinstance(s_, ast.Assign) and len(s_.targets) == 1 and isinstance(s_.targets[0], ast.Name) and s_.targets[0].id == root]
        if stores.get(root, 0) != 1 or len(rdefs) != 1 or rdefs[0].lineno >= st.lineno:
          continue
      txt = norm(st.value)
      if any(txt == c or txt.startswith(c + '.') for c in stored_chains):
        continue
      # the definition must dominate all uses: require it to be a top-level statement of the function body
      if st not in node.body:
        continue
      first_use = min([getattr(x, 'lineno', 10**9) for x in ast.walk(node) if isinstance(x, ast.Name) and x.id == v and isinstance(x.ctx, ast.Load)] or [10**9])
      if first_use < st.lineno:
        continue
      cands[v] = st
  if not cands:
    return []

  def sub(e):
    if isinstance(e, ast.Name) and isinstance(e.ctx, ast.Load) and e.id in cands:
      new = dataflow.clone(cands[e.id].value)
      for a_ in ('lineno', 'col_offset', 'end_lineno', 'end_col_offset'):
        if hasattr(e, a_):
          setattr(new, a_, getattr(e, a_))
      return dataflow._map_children(new, sub)       # an alias of an alias: par = self.parameters; tol = par.tolerance
    return dataflow._map_children(e, sub) if isinstance(e, ast.AST) else e
  drop = {id(st) for st in cands.values()}
  node.body = [sub(st) for st in node.body if id(st) not in drop]
  ast.fix_missing_locations(node)
  for n in ast.walk(node):
    for ch in ast.iter_child_nodes(n):
      ch._parent = n
  return sorted(cands)


def inline_local_lambdas(f):
  """v = lambda a: BODY   (v bound exactly once, at the top level of the function body, before its first use, and used only
  as the callee of calls)  ->  every call v(x) becomes BODY[a := x] and the definition is dropped.  Makes
  `assignments = lambda: self.geo_assignments ... assignments().t` transparent."""
  node = f.node
  stores = {}
  for x in ast.walk(node):
    if isinstance(x, ast.Name) and isinstance(x.ctx, (ast.Store, ast.Del)):
      stores[x.id] = stores.get(x.id, 0) + 1
  cands = {}
  for st in node.body:
    if isinstance(st, ast.Assign) and len(st.targets) == 1 and isinstance(st.targets[0], ast.Name) and isinstance(st.value, ast.Lambda):
      v, lam = st.targets[0].id, st.value
      a = lam.args
      if stores.get(v, 0) != 1 or a.vararg or a.kwarg or a.kwonlyargs or a.defaults or a.posonlyargs:
        continue
      loads = [x for x in ast.walk(node) if isinstance(x, ast.Name) and x.id == v and isinstance(x.ctx, ast.Load)]
      calls = [c for c in ast.walk(node) if isinstance(c, ast.Call) and isinstance(c.func, ast.Name) and c.func.id == v]
      if not loads or len(loads) != len(calls):
        continue            # also passed around as a value: leave it
      if any(getattr(x, 'lineno', 0) < st.lineno for x in loads):
        continue
      if any(c.keywords or len(c.args) != len(a.args) or any(isinstance(x, ast.Starred) for x in c.args) for c in calls):
        continue
      # the free names of the body must mean the same thing at the call sites: not re-bound anywhere in the function
      free = {x.id for x in ast.walk(lam.body) if isinstance(x, ast.Name) and isinstance(x.ctx, ast.Load)} - {p.arg for p in a.args}
      if any(stores.get(n_, 0) > 1 for n_ in free):
        continue
      cands[v] = st
  if not cands:
    return []

  def sub(e):
    if isinstance(e, ast.Call) and isinstance(e.func, ast.Name) and e.func.id in cands:
      lam = cands[e.func.id].value
      binds = {p.arg: sub(x) for p, x in zip(lam.args.args, e.args)}

      def sb(y):
        if isinstance(y, ast.Name) and isinstance(y.ctx, ast.Load) and y.id in binds:
          return dataflow.clone(binds[y.id])
        if isinstance(y, ast.Lambda):
          return y
        return dataflow._map_children(y, sb)
      return ast.copy_location(sb(dataflow.clone(lam.body)), e)
    return dataflow._map_children(e, sub) if isinstance(e, ast.AST) else e
  drop = {id(st) for st in cands.values()}
  node.body = [sub(st) for st in node.body if id(st) not in drop]
  ast.fix_missing_locations(node)
  for n in ast.walk(node):
    for ch in ast.iter_child_nodes(n):
      ch._parent = n
  return sorted(cands)


def split_parallel_assignments(f):
  """a, b = x, y  ->  a = x; b = y   when no left-hand side is read by a later right-hand side (not a swap)."""
  from mmsa.core import norm
  node = f.node
  changed = [False]

  def block(stmts):
    out = []
    for st in stmts:
      if isinstance(st, (ast.FunctionDef, ast.ClassDef, ast.AsyncFunctionDef)):
        out.append(st)
        continue
      for fld in ('body', 'orelse', 'finalbody'):
        if hasattr(st, fld) and isinstance(getattr(st, fld), list):
          setattr(st, fld, block(getattr(st, fld)))
      if isinstance(st, ast.Try):
        for hd in st.handlers:
          hd.body = block(hd.body)
      # a, b, c = itertools.repeat(K, 3) / [K] * 3 / (K,) * 3 / chained a = b = c = K with a constant K
      if isinstance(st, ast.Assign) and len(st.targets) == 1 and isinstance(st.targets[0], (ast.Tuple, ast.List)) \
          and not any(isinstance(x, ast.Starred) for x in st.targets[0].elts):
        k_, n_ = None, None
        v_ = st.value
        if isinstance(v_, ast.Call) and norm(v_.func) in ('itertools.repeat', 'repeat') and len(v_.args) == 2 and isinstance(v_.args[0], ast.Constant) \
            and isinstance(v_.args[1], ast.Constant):
          k_, n_ = v_.args[0], v_.args[1].value
        elif isinstance(v_, ast.BinOp) and isinstance(v_.op, ast.Mult) and isinstance(v_.left, (ast.List, ast.Tuple)) and len(v_.left.elts) == 1 \
            and isinstance(v_.left.elts[0], ast.Constant) and isinstance(v_.right, ast.Constant):
          k_, n_ = v_.left.elts[0], v_.right.value
        if k_ is not None and n_ == len(st.targets[0].elts):
          st.value = ast.Tuple(elts=[ast.Constant(value=k_.value) for _ in range(n_)], ctx=ast.Load())
          ast.copy_location(st.value, v_)
          ast.fix_missing_locations(st.value)
      if isinstance(st, ast.Assign) and len(st.targets) > 1 and isinstance(st.value, ast.Constant):
        for t in st.targets:
          out.append(ast.Assign(targets=[t], value=ast.Constant(value=st.value.value), lineno=st.lineno, col_offset=st.col_offset))
        changed[0] = True
        continue
      if isinstance(st, ast.Assign) and len(st.targets) == 1 and isinstance(st.targets[0], (ast.Tuple, ast.List)) \
          and isinstance(st.value, (ast.Tuple, ast.List)) and len(st.targets[0].elts) == len(st.value.elts) \
          and not any(isinstance(x, ast.Starred) for x in list(st.targets[0].elts) + list(st.value.elts)):
        tg, vs = st.targets[0].elts, st.value.elts
        safe = True
        for i, t in enumerate(tg):
          tt = norm(t)
          root = tt.split('.')[0].split('[')[0]
          for v in vs[i + 1:]:
            for x in ast.walk(v):
              if isinstance(x, (ast.Name, ast.Attribute, ast.Subscript)) and (norm(x) == tt or (isinstance(t, ast.Name) and isinstance(x, ast.Name) and x.id == root)):
                safe = False
        if safe:
          for t, v in zip(tg, vs):
            out.append(ast.Assign(targets=[t], value=v, lineno=st.lineno, col_offset=st.col_offset))
          changed[0] = True
          continue
      out.append(st)
    return out
  node.body = block(node.body)
  if changed[0]:
    ast.fix_missing_locations(node)
    for n in ast.walk(node):
      for ch in ast.iter_child_nodes(n):
        ch._parent = n
  return changed[0]
